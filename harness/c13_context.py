"""C13, evaluation context and sharing (spec/AnnotationContext.tla, spec/trace/AnnotationContextTrace.tla).

A case = a world (two real modules A and B, each with its own class K, only A with a class Solo, each declaring
`def f(x: <form>)`) + a history of agent steps (typing.get_type_hints on A.f / B.f, pyanalyze's own routes on A / B).
The world is REALLY built (modules exec'd and registered in sys.modules), typing's subscription memo is REALLY shared
inside a case (cleared only between cases; in a `shared = False` world it is cleared after every step instead), the
history is REALLY performed, and then every route is observed for both modules:

  rt    type_from_runtime(f.__annotations__["x"], globals=module.__dict__)
  str   type_from_runtime("<annotation source>", globals=module.__dict__)
  sig   Checker.get_signature(f).parameters["x"].annotation
  ast   reveal_type(x) inside f when the module's source is checked by the visitor
  callown / callother   error codes of `M.f(<argument built from M's class / the other module's K>)` written in a
        third module that imports both

plus the same routes in a twin world with no history (`base`), what CPython's name resolution says (`truth`), the real
annotation object (`py`) and the real state of the ForwardRef cells (`cells`).  Nothing is decided here: TLC does.
"""
from __future__ import annotations

import ast
import contextlib
import io
import os
import sys
import types
import typing
from typing import Any, Optional

from . import annot_codec, core, pyz
from .annot_codec import V, describe_object, describe_value, raised

FUTURE = "from __future__ import annotations\n"

# form -> (annotation source, alias definition or None); {n} = the referenced name.  Must denote FormExpr(f, n) of
# AnnotationContext.tla -- TLC checks that on every observation (oracle:PyEval).
FORMS: dict[str, tuple[str, Optional[str]]] = {
    "bare": ("{n}", None),
    "q": ('"{n}"', None),
    "List": ('List["{n}"]', None),
    "Optional": ('Optional["{n}"]', None),
    "list": ('list["{n}"]', None),
    "qList": ('"List[{n}]"', None),
    "qListq": ("\"List['{n}']\"", None),
    "Union": ('Union["{n}", int]', None),
    "UnionNone": ('Union["{n}", None]', None),
    "ListList": ('List[List["{n}"]]', None),
    "DictStr": ('Dict[str, "{n}"]', None),
    "Type": ('Type["{n}"]', None),
    "TupleEll": ('Tuple["{n}", ...]', None),
    "CallableArg": ('Callable[["{n}"], None]', None),
    "aFwd": ("AL", 'ForwardRef("{n}")'),
    "aList": ("AL", 'List["{n}"]'),
    "aListFwd": ("AL", 'List[ForwardRef("{n}")]'),
}

# how an argument for a parameter of that form is built from a class expression C / a callback taking C
_ARG = {
    "bare": "{C}()", "q": "{C}()", "Optional": "{C}()", "Union": "{C}()", "UnionNone": "{C}()", "aFwd": "{C}()",
    "List": "[{C}()]", "list": "[{C}()]", "qList": "[{C}()]", "qListq": "[{C}()]", "aList": "[{C}()]", "aListFwd": "[{C}()]",
    "ListList": "[[{C}()]]", "DictStr": '{{"k": {C}()}}', "Type": "{C}", "TupleEll": "({C}(),)", "CallableArg": "{CB}",
}

_count = 0


def clear_typing_caches() -> None:
    for f in typing._cleanups:  # type: ignore[attr-defined]
        f()


def module_source(letter: str, d: dict) -> str:
    ann, alias = FORMS[d["f"]]
    n = d["n"]
    lines = [FUTURE if d["fut"] else "",
             "import typing\n",
             "from typing import List, Optional, Union, Dict, Type, Tuple, Callable, ForwardRef\n",
             "from typing_extensions import reveal_type\n",
             "class K: ...\n",
             "class Solo: ...\n" if letter == "A" else "",
             f"AL = {alias.format(n=n)}\n" if alias else "",
             f"def f(x: {ann.format(n=n)}) -> None:\n    reveal_type(x)\n"]
    return "".join(lines)


def _exec_module(name: str, src: str) -> types.ModuleType:
    mod = types.ModuleType(name)
    mod.__dict__["__file__"] = name + ".py"
    # dont_inherit: the harness file's own `from __future__ import annotations` must not leak into the case
    exec(compile(src, name + ".py", "exec", dont_inherit=True), mod.__dict__)
    return mod


def _visit(src: str, mod: types.ModuleType):
    from pyanalyze.name_check_visitor import NameCheckVisitor

    tree = ast.parse(src)
    with contextlib.redirect_stderr(io.StringIO()), contextlib.redirect_stdout(io.StringIO()):
        v = NameCheckVisitor(mod.__name__ + ".py", src, tree, module=mod, checker=pyz.get_checker(), annotate=True)
        fails = v.check()
    return fails, tree


class World:
    """Two really imported modules (and, on demand, an importing third one)."""

    def __init__(self, w: dict) -> None:
        global _count
        _count += 1
        self.w = w
        self.shared = bool(w["shared"])
        self.src: dict[str, str] = {}
        self.mod: dict[str, types.ModuleType] = {}
        self.names: list[str] = []
        clear_typing_caches()
        for letter, key in (("A", "a"), ("B", "b")):
            name = f"verif_c13ctx_{os.getpid()}_{_count}_{letter}"
            self.src[letter] = module_source(letter, w[key])
            self.mod[letter] = _exec_module(name, self.src[letter])
            sys.modules[name] = self.mod[letter]
            self.names.append(name)
            self.step_done()
        self.aliases = {id(self.mod["A"].K): "A.K", id(self.mod["B"].K): "B.K", id(self.mod["A"].Solo): "A.Solo"}

    def decl(self, letter: str) -> dict:
        return self.w["a" if letter == "A" else "b"]

    def step_done(self) -> None:
        """`shared = False`: no two steps ever see the same memoised typing object."""
        if not self.shared:
            clear_typing_caches()

    def close(self) -> None:
        for n in self.names:
            sys.modules.pop(n, None)
        clear_typing_caches()

    # ---- agents
    def agent(self, a: str) -> None:
        letter = a[-1]
        mod = self.mod[letter]
        if a.startswith("gth"):
            try:
                typing.get_type_hints(mod.f)
            except NameError:
                pass        # the reference names nothing in that module: CPython leaves the ForwardRef unevaluated
        elif a.startswith("pyz"):
            with contextlib.redirect_stderr(io.StringIO()):
                pyz.get_checker().get_signature(mod.f)
            self.step_done()
            _visit(self.src[letter], mod)
        else:
            raise core.MachineryError(f"unknown agent {a}")
        self.step_done()

    # ---- what is really there
    def held_object(self, letter: str) -> Any:
        mod = self.mod[letter]
        return mod.AL if FORMS[self.decl(letter)["f"]][1] else mod.f.__annotations__["x"]

    def _cell_state(self, obj: Any) -> str:
        found: list[Any] = []

        def walk(x: Any) -> None:
            if isinstance(x, typing.ForwardRef):
                found.append(x)
            elif isinstance(x, list):
                for y in x:
                    walk(y)
            else:
                for y in getattr(x, "__args__", None) or ():
                    walk(y)

        walk(obj)
        if not found:
            return "nocell"
        if len(found) > 1:
            raise core.MachineryError(f"more than one ForwardRef in {obj!r}")
        fr = found[0]
        if not fr.__forward_evaluated__:
            return "none"
        name = self.aliases.get(id(fr.__forward_value__))
        if name is None:
            raise core.MachineryError(f"ForwardRef evaluated to an object outside the world: {fr.__forward_value__!r}")
        return name[0]

    def cells(self, letter: str) -> dict:
        d = self.decl(letter)
        mod = self.mod[letter]
        obj = self.held_object(letter)
        out = {"obj": "nocell" if isinstance(obj, str) else self._cell_state(obj)}
        if FORMS[d["f"]][1]:
            out["cache"] = "nocell"
        else:
            try:
                o: Any = eval(FORMS[d["f"]][0].format(n=d["n"]), mod.__dict__)
                while isinstance(o, str):
                    o = eval(o, mod.__dict__)
                out["cache"] = self._cell_state(o)
            except NameError:
                out["cache"] = "nocell"
            self.step_done()
        return out

    def truth(self, letter: str) -> str:
        try:
            return self.aliases[id(eval(self.decl(letter)["n"], self.mod[letter].__dict__))]
        except NameError:
            return "undefined"

    # ---- routes
    def routes(self, letter: str) -> dict:
        from pyanalyze.annotations import type_from_runtime

        d = self.decl(letter)
        mod = self.mod[letter]
        g = mod.__dict__
        out: dict[str, Any] = {}
        try:
            out["rt"] = describe_value(type_from_runtime(mod.f.__annotations__["x"], globals=g))
        except Exception as exc:
            out["rt"] = raised(exc)
        self.step_done()
        try:
            out["str"] = describe_value(type_from_runtime(FORMS[d["f"]][0].format(n=d["n"]), globals=g))
        except Exception as exc:
            out["str"] = raised(exc)
        self.step_done()
        try:
            with contextlib.redirect_stderr(io.StringIO()):
                sig = pyz.get_checker().get_signature(mod.f)
            out["sig"] = describe_value(sig.parameters["x"].annotation)
        except Exception as exc:
            out["sig"] = raised(exc)
        self.step_done()
        try:
            fails, tree = _visit(self.src[letter], mod)
            fn = next(n for n in tree.body if isinstance(n, ast.FunctionDef) and n.name == "f")
            iv = getattr(fn.body[0].value.args[0], "inferred_value", None)
            crashed = [f for f in fails if getattr(f.get("code"), "name", None) == "internal_error"]
            if crashed:
                out["ast"] = V("Raised", "internal_error")
            elif iv is None:
                raise core.MachineryError(f"no reveal_type result in module {letter}: {self.src[letter]}")
            else:
                out["ast"] = describe_value(iv)
        except core.MachineryError:
            raise
        except Exception as exc:
            out["ast"] = raised(exc)
        self.step_done()
        return out

    def calls(self) -> dict[str, dict[str, list[str]]]:
        """The importing module: for each of A.f / B.f one call with an argument built from the declaring module's
        class and one built from the other module's K."""
        global _count
        a, b = self.names
        lines = [f"import {a} as MA, {b} as MB\n",
                 "def cb_AK(k: MA.K) -> None: ...\n", "def cb_BK(k: MB.K) -> None: ...\n", "def cb_ASolo(k: MA.Solo) -> None: ...\n"]
        want: dict[int, tuple[str, str]] = {}
        for letter in ("A", "B"):
            d = self.decl(letter)
            own = ("A", "Solo") if d["n"] == "Solo" else (letter, "K")
            other = ("B" if letter == "A" else "A", "K")
            for which, (m, c) in (("callown", own), ("callother", other)):
                arg = _ARG[d["f"]].format(C=f"M{m}.{c}", CB=f"cb_{m}{c}")
                lines.append(f"def {which}_{letter}() -> None:\n")
                lines.append(f"    M{letter}.f({arg})\n")
                want[sum(x.count("\n") for x in lines)] = (letter, which)
        src = "".join(lines)
        _count += 1
        name = f"verif_c13ctx_{os.getpid()}_{_count}_U"
        umod = _exec_module(name, src)
        fails, _tree = _visit(src, umod)
        out: dict[str, dict[str, list[str]]] = {"A": {"callown": [], "callother": []}, "B": {"callown": [], "callother": []}}
        for f in fails:
            code = getattr(f.get("code"), "name", None) or "None"
            key = want.get(f.get("lineno") or 0)
            if key is None:
                raise core.MachineryError(f"unexpected diagnostic {code} at line {f.get('lineno')} of the importing module:\n{src}")
            out[key[0]][key[1]].append(code)
        for v in out.values():
            for k in v:
                v[k] = sorted(set(v[k]))
        self.step_done()
        return out


def _observe_world(w: dict, hist: list[str], *, with_calls: bool) -> dict:
    world = World(w)
    annot_codec.CLASS_ALIASES.clear()
    annot_codec.CLASS_ALIASES.update(world.aliases)
    try:
        for a in hist:
            world.agent(a)
        out: dict[str, Any] = {"py": {}, "truth": {}, "cells": {}, "obs": {}}
        for letter in ("A", "B"):
            try:
                out["py"][letter] = describe_object(world.held_object(letter))
            except annot_codec.CodecError as exc:
                raise core.MachineryError(f"cannot describe the annotation object of module {letter}: {exc}") from exc
            out["truth"][letter] = world.truth(letter)
            out["cells"][letter] = world.cells(letter)
        for letter in ("A", "B"):
            out["obs"][letter] = world.routes(letter)
        if with_calls:
            for letter, c in world.calls().items():
                out["obs"][letter].update(c)
        return out
    finally:
        annot_codec.CLASS_ALIASES.clear()
        world.close()


def world_key(w: dict) -> str:
    return core.canon(w)


def observe_context(arg: tuple[int, list[dict]]) -> list[dict]:
    """Observe a batch of cases {w, hist}; the twin world without history is built once per world of the batch."""
    base, cases = arg
    bases: dict[str, dict] = {}
    obs: list[dict] = []
    for i, c in enumerate(cases):
        k = world_key(c["w"])
        if k not in bases:
            bases[k] = _observe_world(c["w"], [], with_calls=False)["obs"]
        o = _observe_world(c["w"], list(c["hist"]), with_calls=True)
        obs.append({"tid": base + i, "w": c["w"], "hist": list(c["hist"]), **o, "base": bases[k]})
    return obs


def source_of(c: dict) -> dict:
    """The realised sources of a case (for reports and replay files)."""
    return {"A": module_source("A", c["w"]["a"]), "B": module_source("B", c["w"]["b"])}
