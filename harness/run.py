"""Entry point of every MANIFEST command.

  /venv/bin/python -m harness.run --property C18 --tier quick
  /venv/bin/python -m harness.run --property C18 --replay evidence/replays/C18/0000.json
  /venv/bin/python -m harness.run --setup
"""
from __future__ import annotations

import argparse
import importlib
import json
import os
import sys
import traceback

from . import core


def main() -> int:
    ap = argparse.ArgumentParser()
    ap.add_argument("--property")
    ap.add_argument("--tier", default=os.environ.get("VERIF_TIER", "quick"), choices=["quick", "thorough"])
    ap.add_argument("--replay")
    ap.add_argument("--setup", action="store_true")
    ap.add_argument("--selftest-binding", action="store_true")
    args = ap.parse_args()
    os.environ[core.GUARD] = "1"
    os.environ.setdefault("PYTHONHASHSEED", "0")
    sys.path.insert(0, str(core.REPO))
    if args.setup:
        from . import setup

        return setup.main()
    seed = int(os.environ.get("VERIF_SEED", "0") or 0)
    prop = args.property
    mod = importlib.import_module(f"harness.drivers.{prop.lower()}")
    if args.replay:
        os.environ["VERIF_REPLAY_MODE"] = "1"
    check = core.Check(prop, args.tier, seed, level=getattr(mod, "LEVEL", "model_checking"))
    try:
        if args.replay:
            with open(args.replay) as f:
                witness = json.load(f)
            mod.replay(check, witness)
            rc = 1 if check.violations else 0
            for v in check.violations:
                print(f"VIOLATION property={prop} replay={args.replay}  # {v['clause']}")
            for k, n in check.known_hit.items():
                print(f"KNOWN-FINDING: property={prop} {check.known_open[k].get('what', k)}")
            if rc == 0:
                print(f"replay: property {prop} holds on this witness")
            return rc
        if args.selftest_binding:
            mod.selftest_binding(check)
            return 0
        mod.run(check)
        rc = check.finish()
        print(
            f"{prop} {args.tier}: states={check.cov['states']} real_observations="
            f"{check.cov['traces_validated_against_impl']} drift={check.cov['drift']} "
            f"violations={len(check.violations)} wall={check.cov and round(__import__('time').time()-check.t0,1)}s"
        )
        return rc
    except core.MachineryError as exc:
        print(f"MACHINERY-ERROR property={prop}: {exc}", file=sys.stderr)
        return _violations_before_failure(check, prop, args)
    except Exception:
        traceback.print_exc()
        print(f"MACHINERY-ERROR property={prop}: unexpected exception in the harness", file=sys.stderr)
        return _violations_before_failure(check, prop, args)


def _violations_before_failure(check, prop, args) -> int:
    """A machinery failure after TLC has already judged some real observation to violate the property (a changed tree can
    break a later self-test or realisation step) must not hide those verdicts: they are reported, exit 1.  With no
    verdict yet the run is a machinery failure, exit 2."""
    if check.violations and not args.replay and not args.selftest_binding:
        check.assumptions.append("the run ended with a machinery error after these violations had been adjudicated")
        return check.finish()
    return 2


if __name__ == "__main__":
    sys.exit(main())
