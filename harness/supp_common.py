"""Realisation of the abstract files of Suppression.tla / FixLoop.tla as Python source."""
from __future__ import annotations

import re

from . import core

IGNORE = "# static analysis: ignore"
REAL_CODE = {"c1": "undefined_name", "c2": "unsupported_operation", "c3": "incompatible_call"}
ABSTRACT = {v: k for k, v in REAL_CODE.items()}
META = {"unused_ignore", "bare_ignore"}


def comment_text(ign: str) -> str:
    return IGNORE + ("" if ign == "bare" else f"[{REAL_CODE.get(ign, ign)}]")


def render_line(ln: dict, n: int) -> str:
    """n = original 1-based line number; it is embedded in code lines so that every code line is unique."""
    kind = ln["kind"]
    if kind == "blank":
        return ""
    if kind == "comment":
        return "# a comment"
    ign = ln["ign"]
    suffix = "" if ign == "none" else comment_text(ign)
    if kind == "own":
        return suffix
    d = list(ln["diags"])
    parts = [str(n)]
    for code in d:
        if code == "c1":
            parts.append("zz_undefined_name")
        elif code == "c2":
            parts.append('1 + ""')
        else:
            raise core.MachineryError(f"cannot realise diagnostic {code}")
    body = "lambda: [" + ", ".join(parts) + "]"
    return body + ("  " + suffix if suffix else "")


def render(case: dict) -> str:
    return "\n".join(render_line(ln, i) for i, ln in enumerate(case["lines"], 1)) + "\n"


def settings_of(case: dict) -> dict[str, bool]:
    st = {REAL_CODE[c]: False for c in case["disabled"]}
    st["unused_ignore"] = bool(case["unused_on"])
    st["bare_ignore"] = bool(case["bare_on"])
    return st


_OWN = re.compile(r"^\s*# static analysis: ignore(?:\[(\w+)\])?\s*$")


def parse_own(text: str):
    """Returns the abstract `ign` of an own-line ignore comment, or None."""
    m = _OWN.match(text)
    if not m:
        return None
    if m.group(1) is None:
        return "bare"
    return ABSTRACT.get(m.group(1), m.group(1))
