"""Real-code observers for C02 (narrowing): decode the terms of spec/Narrowing.tla, build the real
Constraint / predicate objects, run pyanalyze.stacked_scopes.constrain_value and the visitor, and
evaluate the conditions under real CPython.  No oracle logic lives here: every judgement is made by
TLC on the recorded observations (spec/trace/NarrowingTrace.tla).
"""
from __future__ import annotations

import ast
import json
import types
from typing import Any, Optional

from . import codec, core, pyz
from . import universe as U

# objects added by spec/Boolability.tla (XObjs) to the shared universe
U.SCALARS.setdefault(("float", "0.0"), 0.0)

_cache: dict[str, Any] = {}
# the object universe in TLC's order; set once per process tree BEFORE forking workers (set_universe), so that
# the workers share the very same objects
OBJS_T: list[dict] = []
OBJS: list[Any] = []


def set_universe(objs_t: list[dict]) -> None:
    global OBJS_T, OBJS
    OBJS_T = list(objs_t)
    OBJS = [codec.obj_to_py(o) for o in objs_t]


def val(term: dict):
    k = json.dumps(term, sort_keys=True)
    v = _cache.get(k)
    if v is None:
        v = _cache[k] = codec.term_to_value(term)
    return v


# --------------------------------------------------------------------------- TypeIs / TypeGuard functions
# hand-written runtime tests, one per guarded type of Narrowing!GuardTypes; the trace spec checks that each
# agrees with Member(o, T) on every object of the universe (oracle validation)
_GUARD_CHECKS = [
    ({"k": "typed", "c": "int"}, "isinstance(x, int)"),
    ({"k": "typed", "c": "str"}, "isinstance(x, str)"),
    ({"k": "typed", "c": "B"}, "isinstance(x, B)"),
    ({"k": "known", "o": {"c": "NoneType", "v": "None", "items": []}}, "x is None"),
    ({"k": "union", "ms": [{"k": "typed", "c": "int"}, {"k": "typed", "c": "str"}]}, "isinstance(x, (int, str))"),
    ({"k": "generic", "c": "list", "args": [{"k": "typed", "c": "int"}]},
     "isinstance(x, list) and all(isinstance(e, int) for e in x)"),
    ({"k": "seq", "c": "tuple", "ms": [{"many": False, "t": {"k": "typed", "c": "int"}}, {"many": False, "t": {"k": "typed", "c": "str"}}]},
     "isinstance(x, tuple) and len(x) == 2 and isinstance(x[0], int) and isinstance(x[1], str)"),
    ({"k": "subclass", "t": {"k": "typed", "c": "A"}}, "isinstance(x, type) and issubclass(x, A)"),
]
GUARDS: dict[str, tuple[int, str, str]] = {}
for _i, (_t, _chk) in enumerate(_GUARD_CHECKS):
    GUARDS[core.canon(_t)] = (_i, codec.term_to_annotation(_t), _chk)


def _guard_name(kind: str, t: dict) -> str:
    try:
        i = GUARDS[core.canon(t)][0]
    except KeyError:
        raise core.MachineryError(f"no TypeIs/TypeGuard function for {t}")
    return ("is_t" if kind == "typeis" else "guard_t") + str(i)


PRELUDE = (
    codec.PRELUDE
    + "from typing_extensions import TypeIs, TypeGuard\n"
    + "NoneType = type(None)\n"
    + "".join(
        f"def is_t{i}(x: object) -> TypeIs[{anno}]:\n    return {chk}\n"
        f"def guard_t{i}(x: object) -> TypeGuard[{anno}]:\n    return {chk}\n"
        for (i, anno, chk) in GUARDS.values()
    )
)
PRELUDE_LINES = PRELUDE.count("\n")
_NS: dict[str, Any] = {}


def namespace() -> dict:
    if not _NS:
        exec(compile(PRELUDE, "c02prelude.py", "exec", dont_inherit=True), _NS)
    return _NS


# --------------------------------------------------------------------------- conditions -> source text
def cond_text(c: dict, top: bool = True) -> str:
    k = c["kind"]
    lit = [codec.obj_literal(o) for o in c["lits"]]
    if k in ("isinstance", "c_isinstance", "issubclass"):
        fn = "issubclass" if k == "issubclass" else "isinstance"
        cls = c["cls"][0] if len(c["cls"]) == 1 else "(" + ", ".join(c["cls"]) + ")"
        return f"{fn}(x, {cls})"
    if k in ("typeis", "typeguard"):
        return f"{_guard_name(k, c['t'])}(x)"
    if k in ("is", "c_isvalue"):
        return f"x is not {lit[0]}" if c["neg"] else f"x is {lit[0]}"
    if k == "eq":
        return f"x != {lit[0]}" if c["neg"] else f"x == {lit[0]}"
    if k == "in":
        tup = "(" + "".join(s + ", " for s in lit) + ")"
        return f"x not in {tup}" if c["neg"] else f"x in {tup}"
    if k == "truthy":
        return "x"
    if k == "boolcall":
        return "bool(x)"
    if k == "len":
        return f"len(x) {c['op']} {c['n']}"
    if k == "cmp":
        return f"x {c['op']} {lit[0]}"
    if k == "lenr":
        return f"{c['n']} {c['op']} len(x)"
    if k == "not":
        return f"not ({cond_text(c['subs'][0], False)})"
    if k in ("and", "or"):
        return f"({cond_text(c['subs'][0], False)}) {k} ({cond_text(c['subs'][1], False)})"
    raise core.MachineryError(f"cannot render condition {c}")


def is_match(c: dict) -> bool:
    return c["kind"].startswith("m_")


def pattern_text(c: dict) -> str:
    """Source text of a `case` pattern."""
    k = c["kind"]
    if k in ("m_value", "m_singleton"):
        return codec.obj_literal(c["lits"][0])
    if k == "m_class":
        return f"{c['cls'][0]}()"
    if k == "m_or":
        return " | ".join(pattern_text(s) for s in c["subs"])
    if k == "m_seq":
        names = ["a", "b", "c"][: c["n"]]
        if c["op"] != "":
            names.insert(int(c["op"]), "*r")
        return "[" + ", ".join(names) + "]"
    raise core.MachineryError(f"cannot render pattern {c}")


_holds_cache: dict[str, list[int]] = {}


def holds_vector(c: dict) -> list[int]:
    """What CPython evaluates the condition to on each object: 0 false, 1 true, 2 raises."""
    key = core.canon(c)
    if key in _holds_cache:
        return _holds_cache[key]
    ns = namespace()
    if is_match(c):
        # the real match statement decides
        local: dict[str, Any] = {}
        src = f"def _m(x):\n    match x:\n        case {pattern_text(c)}:\n            return True\n        case _:\n            return False\n"
        exec(compile(src, "<pattern>", "exec", dont_inherit=True), ns, local)
        fn = local["_m"]
        test = lambda o: fn(o)  # noqa: E731
    else:
        code = compile(cond_text(c), "<cond>", "eval")
        test = lambda o: eval(code, ns, {"x": o})  # noqa: E731
    out = []
    if not OBJS:
        raise core.MachineryError("narrow_common.set_universe was not called")
    for o in OBJS:
        try:
            out.append(1 if test(o) else 0)
        except Exception:
            out.append(2)
    _holds_cache[key] = out
    return out


# --------------------------------------------------------------------------- abstract constraint term -> real objects
_AST_OPS = {"==": ast.Eq, "!=": ast.NotEq, "<": ast.Lt, "<=": ast.LtE, ">": ast.Gt, ">=": ast.GtE}


def _predicate(pred: dict, varname, ctx):
    from pyanalyze import predicates as P
    from pyanalyze.implementation import len_of_value, len_transformer
    from pyanalyze.name_check_visitor import NameCheckVisitor
    from pyanalyze.stacked_scopes import PredicateProvider

    p = pred["p"]
    if p == "assignable" and pred.get("ptype") == "matchseq":
        from pyanalyze import patma

        if core.canon(pred["pat"]) != core.canon({"k": "typed", "c": "Sequence"}):
            raise core.MachineryError(f"matchseq predicate with unexpected pattern {pred}")
        return P.IsAssignablePredicate(patma.MatchableSequence, ctx, positive_only=bool(pred["ponly"]))
    if p == "seqlen":
        from pyanalyze import patma

        return patma.LenPredicate(pred["n"], bool(pred["useis"]), ctx)
    if p == "always":
        from pyanalyze import patma

        return patma.AlwaysMatching()
    if p == "assignable":
        kw = {"runtime_classes": True} if pred.get("rt") else {}  # keyword introduced by proposed/C02-fix-1.diff
        return P.IsAssignablePredicate(val(pred["pat"]), ctx, positive_only=bool(pred["ponly"]), **kw)
    if p == "equals":
        return P.EqualsPredicate(codec.obj_to_py(pred["lits"][0]), ctx, use_is=bool(pred["useis"]))
    if p == "in":
        return P.InPredicate(tuple(codec.obj_to_py(o) for o in pred["lits"]), U.CLASSES[pred["ptype"]], ctx)
    if p == "len":
        provider = PredicateProvider(varname, len_of_value, len_transformer)
        # the predicate function is a closure created by this (self-free) method
        con = NameCheckVisitor._constraint_from_predicate_provider(None, provider, pred["n"], _AST_OPS[pred["op"]]())
        return con.value
    if p == "cmp":
        # the predicate function is a closure created by _constraint_from_compare_op; the only thing it needs from the
        # visitor is the varname of the constrained node
        from pyanalyze.stacked_scopes import Composite

        stub = types.SimpleNamespace(composite_from_node=lambda node: Composite(None, varname))
        con = NameCheckVisitor._constraint_from_compare_op(stub, None, codec.obj_to_py(pred["lits"][0]), _AST_OPS[pred["op"]](), is_right=True)
        return con.value
    raise core.MachineryError(f"unknown predicate {pred}")


def _concrete(con: dict, varname, ctx):
    from pyanalyze.stacked_scopes import Constraint, ConstraintType

    ct = con["ct"]
    pos = bool(con["pos"])
    if con.get("var", "x") == "none":
        varname = None  # Constraint(varname=None, ...): made for an unnamed match subject
    if ct == "predicate":
        return Constraint(varname, ConstraintType.predicate, pos, _predicate(con["pred"], varname, ctx))
    if ct == "is_truthy":
        return Constraint(varname, ConstraintType.is_truthy, pos, None)
    if ct == "is_instance":
        return Constraint(varname, ConstraintType.is_instance, pos, U.CLASSES[con["cls"]])
    if ct == "is_value":
        return Constraint(varname, ConstraintType.is_value, pos, codec.obj_to_py(con["lit"]))
    if ct == "is_value_object":
        return Constraint(varname, ConstraintType.is_value_object, pos, val(con["t"]))
    if ct in ("one_of", "all_of"):
        kind = ConstraintType.one_of if ct == "one_of" else ConstraintType.all_of
        return Constraint(varname, kind, pos, [_concrete(s, varname, ctx) for s in con["subs"]])
    raise core.MachineryError(f"unknown constraint type {con}")


def build_constraint(ac: dict, varname, ctx):
    from pyanalyze import stacked_scopes as S

    ak = ac["ak"]
    if ak == "null":
        return S.NULL_CONSTRAINT
    if ak == "c":
        return _concrete(ac["con"], varname, ctx)
    subs = tuple(build_constraint(s, varname, ctx) for s in ac["cs"])
    if ak == "and":
        return S.AndConstraint(subs)
    if ak == "or":
        return S.OrConstraint(subs)
    if ak == "equiv":
        return S.EquivalentConstraint(subs)
    raise core.MachineryError(f"unknown abstract constraint {ac}")


def observe_api(arg) -> dict:
    """Route (i): constrain_value(V, constraint) and constrain_value(V, constraint.invert()) on real objects."""
    from pyanalyze.stacked_scopes import VarnameWithOrigin, constrain_value

    tid, case = arg
    ck = pyz.get_checker()
    base = {"tid": tid, "kind": "narrow", "route": "api", "v": case["v"], "c": case["c"]}
    try:
        V = val(case["v"])
        real = build_constraint(case["ac"], VarnameWithOrigin("x"), ck)
        pos = constrain_value(V, real)
        neg = constrain_value(V, real.invert())
    except core.MachineryError:
        raise
    except Exception as exc:  # the public API must return (also a C12 observation)
        return {**base, "kind": "raised", "exc": f"{type(exc).__name__}: {exc}"}
    base["pos"] = codec.value_to_term(pos)
    base["neg"] = codec.value_to_term(neg)
    base["holds"] = holds_vector(case["c"])
    return base


def observe_bool(arg) -> dict:
    """get_boolability(V) on the real Value and bool(o) on every real object."""
    from pyanalyze.boolability import get_boolability

    tid, v = arg
    try:
        b = get_boolability(val(v)).name
    except Exception as exc:
        return {"tid": tid, "kind": "raised", "v": v, "c": {}, "route": "boolability", "exc": f"{type(exc).__name__}: {exc}"}
    return {"tid": tid, "kind": "bool", "v": v, "b": b, "truth": [1 if bool(o) else 0 for o in OBJS]}


# --------------------------------------------------------------------------- route (ii): the visitor
API_ONLY = {"c_isinstance", "c_isvalue"}
# diagnostics the generated functions may legitimately raise (they do not influence narrowing)
_TOLERATED = {
    "unsafe_comparison", "type_always_true", "value_always_true", "type_does_not_support_bool", "incompatible_argument",
    "incompatible_call", "unsupported_operation", "impossible_pattern",
}


def _has_unpacked(t: dict) -> bool:
    k = t["k"]
    if k == "seq":
        return any(m["many"] or _has_unpacked(m["t"]) for m in t["ms"])
    if k == "generic":
        return any(_has_unpacked(a) for a in t["args"])
    if k == "union":
        return any(_has_unpacked(m) for m in t["ms"])
    if k == "subclass":
        return _has_unpacked(t["t"])
    return False


def _mentions_nonetype(t: dict) -> bool:
    k = t["k"]
    if k in ("typed", "generic") and t["c"] == "NoneType":
        return True
    if k == "seq":
        return any(_mentions_nonetype(m["t"]) for m in t["ms"])
    if k == "generic":
        return any(_mentions_nonetype(a) for a in t["args"])
    if k == "union":
        return any(_mentions_nonetype(m) for m in t["ms"])
    if k == "subclass":
        return _mentions_nonetype(t["t"])
    return False


def visitor_capable(case: dict) -> Optional[str]:
    """The annotation text if the case can be written as `def f(x: T)` with the condition in source form."""
    c = case["c"]

    def kinds(c):
        yield c["kind"]
        for s in c["subs"]:
            yield from kinds(s)

    if any(k in API_ONLY for k in kinds(c)):
        return None
    if _has_unpacked(case["v"]):
        return None  # `*tuple[T, ...]` inside a parameter annotation is decoded differently (C13's subject)
    if _mentions_nonetype(case["v"]):
        return None  # every spelling of the class NoneType in an annotation denotes the literal None
    try:
        return codec.term_to_annotation(case["v"])
    except core.MachineryError:
        return None


def observe_visitor_chunk(arg) -> list[dict]:
    """One generated module per chunk: for each case
        def f_i(x: T) -> None:
            x
            if <cond>:            |   match x:
                x                 |       case <pattern>:
            else:                 |           x
                x                 |       case _:
                                  |           x
    and the inferred value of the three `x` Name nodes (annotate=True)."""
    chunk = arg
    lines = [PRELUDE.rstrip("\n")]
    for i, (_tid, case, anno) in enumerate(chunk):
        if is_match(case["c"]):
            lines += [f"def f_{i}(x: {anno}) -> None:", "    x", "    match x:", f"        case {pattern_text(case['c'])}:", "            x",
                      "        case _:", "            x"]
        else:
            lines += [f"def f_{i}(x: {anno}) -> None:", "    x", f"    if {cond_text(case['c'])}:", "        x", "    else:", "        x"]
    src = "\n".join(lines) + "\n"
    mod = pyz.make_module(src)
    fails, _visitor, tree = pyz.check_source(src, module=mod, annotate=True, want_visitor=True)
    bad = [f for f in pyz.brief(fails) if f[0] not in _TOLERATED and (f[1] or 0) > PRELUDE_LINES]
    funcs = {n.name: n for n in tree.body if isinstance(n, ast.FunctionDef) and n.name.startswith("f_")}
    out = []
    for i, (tid, case, anno) in enumerate(chunk):
        fn = funcs[f"f_{i}"]
        lo, hi = fn.lineno, fn.body[-1].end_lineno
        mine = [f for f in bad if lo <= (f[1] or 0) <= hi]
        text = ("match x: case " + pattern_text(case["c"])) if is_match(case["c"]) else ("if " + cond_text(case["c"]))
        if mine:
            raise core.MachineryError(f"generated function for {case['v']} / {text} raised unexpected diagnostics {mine}")
        try:
            decl = fn.body[0].value.inferred_value
            if_node = fn.body[1]
            if is_match(case["c"]):
                pos = if_node.cases[0].body[0].value.inferred_value
                neg = if_node.cases[1].body[0].value.inferred_value
            else:
                pos = if_node.body[0].value.inferred_value
                neg = if_node.orelse[0].value.inferred_value
        except AttributeError as exc:
            raise core.MachineryError(f"no inferred_value recorded for {anno} / {text}: {exc}")
        at_if = {f[0] for f in pyz.brief(fails) if f[1] == if_node.lineno}
        diag = sorted(at_if & {"type_always_true", "value_always_true"})
        # a call in the condition was rejected (e.g. len(x) for x: int): pyanalyze then derives no constraint from it
        callerr = bool(at_if & {"incompatible_argument", "incompatible_call", "unsupported_operation"})
        out.append({
            "tid": tid, "kind": "narrow", "route": "visitor", "v": case["v"], "c": case["c"],
            "decl": codec.value_to_term(decl), "pos": codec.value_to_term(pos), "neg": codec.value_to_term(neg),
            "holds": holds_vector(case["c"]), "diag": diag, "callerr": callerr,
            "src": f"def f(x: {anno}): {text}: ...",
        })
    return out
