"""C04, protocol sub-universe: codec, table self-test and real-code observers for spec/Protocols.tla.

The classes are real classes (harness/proto_universe.py).  Nothing here judges a verdict: the observers record what
pyanalyze / CPython did, spec/trace/ProtocolsTrace.tla adjudicates.
"""
from __future__ import annotations

import inspect
from typing import Any

from . import core
from . import proto_universe as PU

NONE_OBJ = {"c": "NoneType", "v": "None", "items": []}


# --------------------------------------------------------------------------- codec
def obj_to_py(o: dict) -> Any:
    if o["c"] == "function":
        return PU.FUNCTIONS[o["v"]]
    if o["c"] == "type":
        return PU.CLASSES[o["v"]]
    if (o["c"], o["v"]) in PU.EXTRA_INSTANCES:
        return PU.EXTRA_INSTANCES[(o["c"], o["v"])]
    if o["v"] == "inst":
        return PU.INSTANCES[o["c"]]
    try:
        return PU.SCALARS[(o["c"], o["v"])]
    except KeyError:
        raise core.MachineryError(f"object {o} is not in the protocol sub-universe")


def py_to_obj(x: Any) -> dict:
    for (c, v), val in PU.SCALARS.items():
        if type(val) is type(x) and val == x:
            return {"c": c, "v": v, "items": []}
    name = PU.CLASS_NAME.get(type(x))
    if name in PU.INSTANCES:
        return {"c": name, "v": "inst", "items": []}
    raise core.MachineryError(f"value {x!r} has no object term in the protocol sub-universe")


def term_to_value(t: dict):
    """A NEW pyanalyze Value per call (TypedValue caches its TypeObject, and with it the positive protocol cache)."""
    from pyanalyze import value as V

    k = t["k"]
    if k == "typed":
        return V.TypedValue(PU.CLASSES[t["c"]])
    if k == "generic":
        return V.GenericValue(PU.CLASSES[t["c"]], [term_to_value(a) for a in t["args"]])
    if k == "known":
        return V.KnownValue(obj_to_py(t["o"]))
    if k == "union":
        if not t["ms"]:
            return V.NO_RETURN_VALUE
        return V.MultiValuedValue([term_to_value(m) for m in t["ms"]])
    if k == "callable":  # Callable[[P..], R]: positional-only parameters
        from pyanalyze import signature as S

        params = [S.SigParameter(p["n"] + str(i), S.ParameterKind.POSITIONAL_ONLY, annotation=term_to_value(p["t"][0]))
                  for i, p in enumerate(t["ps"])]
        return V.CallableValue(S.Signature.make(params, term_to_value(t["ret"])))
    raise core.MachineryError(f"cannot decode protocol term {t}")


def term_to_annotation(t: dict) -> str:
    k = t["k"]
    if k == "typed":
        return t["c"]
    if k == "generic":
        return f"{t['c']}[{', '.join(term_to_annotation(a) for a in t['args'])}]"
    if k == "callable":
        return f"Callable[[{', '.join(term_to_annotation(p['t'][0]) for p in t['ps'])}], {term_to_annotation(t['ret'])}]"
    raise core.MachineryError(f"no annotation for {t}")


def literal_expr(o: dict) -> str:
    """Source text (inside the snippet module) that evaluates to the literal object."""
    if o["c"] in ("function", "type"):
        return f"HP.{o['v']}"
    if (o["c"], o["v"]) in PU.EXTRA_INSTANCES:
        return f"HP.INST_{o['c']}_{o['v']}"
    if o["v"] == "inst":
        return f"HP.INST_{o['c']}"
    raise core.MachineryError(f"no literal expression for {o}")


# --------------------------------------------------------------------------- self-test: PTab against the real classes
def _anno_term(s: Any) -> dict:
    if not isinstance(s, str):
        raise core.MachineryError(f"annotation {s!r} is not a string (from __future__ import annotations expected)")
    if s == "None":
        return {"k": "known", "o": NONE_OBJ}
    if s == "T_co":
        return {"k": "ptvar"}
    if s in PU.CLASSES:
        return {"k": "typed", "c": s}
    raise core.MachineryError(f"annotation {s!r} has no term")


def _introspect_entry(name: str, cls: type, user: bool) -> dict:
    """What the class body holds under `name`, in the vocabulary of PTab."""
    ann = cls.__dict__.get("__annotations__", {})
    ann = ann if isinstance(ann, dict) else {}
    inst = PU.INSTANCES.get(cls.__name__) if user else None
    none_t = {"k": "known", "o": NONE_OBJ}
    if name in cls.__dict__:
        raw = cls.__dict__[name]
        if raw is None:
            return {"n": name, "k": "none", "t": none_t, "ps": [], "v": NONE_OBJ}
        if isinstance(raw, property):
            v = py_to_obj(getattr(inst, name)) if inst is not None else NONE_OBJ
            return {"n": name, "k": "prop", "t": _anno_term(raw.fget.__annotations__["return"]), "ps": [], "v": v}
        if name in ("__slots__", "__class_getitem__"):
            return {"n": name, "k": "slot", "t": none_t, "ps": [], "v": NONE_OBJ}
        if inspect.isfunction(raw) and user:
            sig = list(inspect.signature(raw).parameters.values())[1:]
            return {"n": name, "k": "method", "t": _anno_term(raw.__annotations__["return"]),
                    "ps": [_anno_term(raw.__annotations__[p.name]) for p in sig], "v": NONE_OBJ}
        if name in ann:
            return {"n": name, "k": "attr", "t": _anno_term(ann[name]), "ps": [], "v": py_to_obj(raw)}
        if callable(raw):  # slot wrappers / method descriptors of builtins and ABCs: types come from typeshed
            return {"n": name, "k": "method"}
        raise core.MachineryError(f"{cls.__name__}.{name}: unexpected class attribute {raw!r}")
    v = py_to_obj(getattr(inst, name)) if inst is not None else NONE_OBJ
    return {"n": name, "k": "iattr", "t": _anno_term(ann[name]), "ps": [], "v": v}


def selftest_functions(rows: list[dict]) -> int:
    """PFun against the real functions."""
    by = {r["fn"]: r for r in rows}
    if set(by) != set(PU.FUNCTIONS):
        raise core.MachineryError(f"PFun and proto_universe.FUNCTIONS differ: {sorted(set(by) ^ set(PU.FUNCTIONS))}")
    for name, f in PU.FUNCTIONS.items():
        real = {"ps": [_anno_term(f.__annotations__[p]) for p in inspect.signature(f).parameters], "t": _anno_term(f.__annotations__["return"])}
        model = {"ps": list(by[name]["ps"]), "t": by[name]["t"]}
        if real != model:
            raise core.MachineryError(f"PFun[{name}] = {model} but the real function has {real}")
    return len(by)


def selftest_table(rows: list[dict], order: list[str]) -> dict:
    """Compare the class table TLC printed with the real classes.  Raises MachineryError on any difference."""
    if order != sorted(order):
        raise core.MachineryError(f"PNameOrder is not in Python's sorted() order: {order}")
    by = {r["cls"]: r for r in rows}
    if set(by) != set(PU.CLASSES):
        raise core.MachineryError(f"PTab and proto_universe.CLASSES differ: {sorted(set(by) ^ set(PU.CLASSES))}")
    kinds = [("special", PU.SPECIAL), ("rtype", PU.RUNTIME_TYPES), ("abc", PU.ABCS), ("builtin", PU.BUILTINS), ("proto", PU.PROTOCOLS), ("plain", PU.PLAIN)]
    n_entries = 0
    for kind, table in kinds:
        for name, cls in table.items():
            r = by[name]
            problems = []
            if r["kind"] != kind:
                problems.append(f"kind {r['kind']} != {kind}")
            is_proto = bool(getattr(cls, "_is_protocol", False)) and name not in PU.SPECIAL
            if is_proto != (kind == "proto"):
                problems.append(f"_is_protocol = {is_proto}")
            if bool(r["rt"]) != bool(is_proto and getattr(cls, "_is_runtime_protocol", False)):
                problems.append("runtime_checkable flag")
            mro = [b.__name__ for b in cls.__mro__[1:]]
            if list(r["mro"]) != mro:
                problems.append(f"mro {r['mro']} != {mro}")
            ann = cls.__dict__.get("__annotations__", {})
            ann = ann if isinstance(ann, dict) else {}  # (type.__dict__["__annotations__"] is a descriptor)
            real_names = sorted(n for n in order if n in cls.__dict__ or n in ann)
            if sorted(e["n"] for e in r["own"]) != real_names:
                problems.append(f"own names {[e['n'] for e in r['own']]} != {real_names}")
            else:
                user = cls.__module__ == PU.__name__
                for e in r["own"]:
                    real = _introspect_entry(e["n"], cls, user)
                    n_entries += 1
                    model = {k: e[k] for k in real}
                    if kind == "proto" and model.get("k") in ("iattr", "prop"):
                        model["v"] = real["v"] = NONE_OBJ  # a protocol has no instances
                    if model != real:
                        problems.append(f"entry {e['n']}: table {model} != real {real}")
            gargs = []
            for ob in getattr(cls, "__orig_bases__", ()):
                if kind == "plain" and getattr(ob, "__origin__", None) in PU.PROTOCOLS.values():
                    gargs = [{"k": "typed", "c": a.__name__} for a in ob.__args__]
            if list(r["gargs"]) != gargs:
                problems.append(f"gargs {r['gargs']} != {gargs}")
            if kind == "proto":
                # the oracle's notion of "member of the protocol" against CPython's own computation
                real_req = sorted(cls.__protocol_attrs__)
                if list(r["req"]) != real_req:
                    problems.append(f"required members {r['req']} != CPython __protocol_attrs__ {real_req}")
            if problems:
                raise core.MachineryError(f"PTab[{name}] does not describe the real class: " + "; ".join(problems))
    return {"classes": len(by), "entries_compared": n_entries}


# --------------------------------------------------------------------------- observers (run in worker processes)
def _accepted(a, b, ck) -> bool:
    from pyanalyze.value import CanAssignError

    return not isinstance(a.can_assign(b, ck), CanAssignError)


def _fresh_checker():
    from pyanalyze.checker import Checker

    return Checker()


def expand_unions(pairs: list[dict]) -> list[dict]:
    """Steps of a history for the pairs, each union pair preceded by the checks of its members (laws UnionLeft /
    UnionRight relate their verdicts); the member checks are ordinary steps of the same history."""
    steps = []
    for p in pairs:
        a, b = p["a"], p["b"]
        if b["k"] == "union":
            parts = [{"a": a, "b": m} for m in b["ms"]]
        elif a["k"] == "union":
            parts = [{"a": m, "b": b} for m in a["ms"]]
        else:
            parts = []
        steps += [{**q, "nparts": 0} for q in parts]
        steps.append({**p, "nparts": len(parts)})
    return steps


def observe_history(arg):
    """One history = a sequence of checks through ONE new Checker, with new Value objects for every step."""
    tid, h = arg
    ck = _fresh_checker()
    steps = []
    for s in h["steps"]:
        rec = {"a": s["a"], "b": s["b"]}
        try:
            rec["real"] = _accepted(term_to_value(s["a"]), term_to_value(s["b"]), ck)
        except Exception as exc:
            return {"tid": tid, "kind": "raised", "case": {"steps": [{"a": x["a"], "b": x["b"]} for x in h["steps"][: len(steps) + 1]]},
                    "exc": f"{type(exc).__name__}: {exc}"}
        if "fresh" in s:
            rec["fresh"] = s["fresh"]
        steps.append(rec)
    for i, s in enumerate(h["steps"]):
        n = s.get("nparts", 0)
        steps[i]["parts"] = [steps[i - n + j]["real"] for j in range(n)]
    return {"tid": tid, "kind": "phist", "steps": steps, "src": h.get("src", "")}


def observe_fresh(arg):
    """(A, B) through a new Checker: the reference verdict for history independence."""
    tid, p = arg
    try:
        return {"tid": tid, "a": p["a"], "b": p["b"], "real": _accepted(term_to_value(p["a"]), term_to_value(p["b"]), _fresh_checker())}
    except Exception as exc:
        return {"tid": tid, "kind": "raised", "case": p, "exc": f"{type(exc).__name__}: {exc}"}


def observe_members(arg):
    """The member set pyanalyze collected for a run-time protocol (checker.py:169-180)."""
    from pyanalyze.value import TypedValue

    tid, name = arg
    tobj = TypedValue(PU.PROTOCOLS[name]).get_type_object(_fresh_checker())
    return {"tid": tid, "kind": "pmembers", "proto": name, "isproto": bool(tobj.is_protocol), "real": sorted(tobj.protocol_members)}


def _rt_type_ok(val: Any, t: dict, depth: int) -> bool:
    """Is the run-time value inside the declared type t?  Protocol types: presence of the members (+ one level of values)."""
    if t["k"] == "known":
        return val is None
    c = t["c"]
    if c in PU.PROTOCOLS:
        return _rt_presence(val, PU.PROTOCOLS[c]) and (depth <= 0 or _rt_values(val, t, depth - 1))
    return isinstance(val, PU.CLASSES[c])


def _rt_presence(o: Any, proto: type) -> bool:
    for n in proto.__protocol_attrs__:
        try:
            v = inspect.getattr_static(o, n)
        except AttributeError:
            return False
        if v is None and callable(getattr(proto, n, None)):
            return False
    return True


def _rt_values(o: Any, pt: dict, depth: int) -> bool:
    """Call every zero-argument member / read every data member and compare with the type the PROTOCOL declares."""
    proto = PU.PROTOCOLS[pt["c"]]
    for n in proto.__protocol_attrs__:
        decl = None
        for base in proto.__mro__:
            if n in base.__dict__ or n in base.__dict__.get("__annotations__", {}):
                decl = base
                break
        if decl is None or decl.__module__ != PU.__name__:
            continue  # member of the ABC: presence only
        e = _introspect_entry(n, decl, True)
        t = e["t"]
        if t == {"k": "ptvar"}:
            t = pt["args"][0]
        if e["k"] == "method":
            if e["ps"]:
                continue  # needs arguments: presence only
            try:
                val = getattr(o, n)()
            except Exception:
                return False
        else:
            try:
                val = getattr(o, n)
            except Exception:
                return False
        if not _rt_type_ok(val, t, depth):
            return False
    return True


def observe_runtime(arg):
    """CPython as the oracle's validation: are the members present on the object, do they yield values of the declared
    types, what does isinstance() say for a runtime_checkable protocol."""
    tid, p = arg
    o = obj_to_py(p["o"])
    proto = PU.PROTOCOLS[p["pt"]["c"]]
    present = _rt_presence(o, proto)
    valok = present and _rt_values(o, p["pt"], 1)
    try:
        isinst = "yes" if isinstance(o, proto) else "no"
    except TypeError:
        isinst = "typeerror"
    return {"tid": tid, "kind": "prt", "o": p["o"], "pt": p["pt"], "present": present, "valok": valok, "isinst": isinst}


def snippet_module(a: dict, bs: list[dict]) -> tuple[str, list[tuple[int, dict]]]:
    """`def use(p: A)` + one call per B (B = Typed(K): `use(K())`; Known(K()): `use(HP.INST_K)`; a protocol type or a
    builtin: a parameter of that type is passed on)."""
    lines = ["from collections.abc import Callable", "from harness.proto_universe import *", "from harness import proto_universe as HP", "",
             f"def use(p: {term_to_annotation(a)}) -> None:", "    pass", ""]
    calls = []
    for i, b in enumerate(bs):
        if b["k"] == "known" and b["o"]["c"] not in PU.BUILTINS and b["o"]["c"] != "NoneType":
            lines.append(f"use({literal_expr(b['o'])})")
        elif b["k"] == "typed" and b["c"] in PU.PLAIN:
            lines.append(f"use({b['c']}())")
        elif b["k"] in ("typed", "generic", "callable"):
            lines += [f"def via{i}(x: {term_to_annotation(b)}) -> None:", "    use(x)"]
        elif b["k"] == "union" and len(b["ms"]) == 2 and all(m["k"] == "known" and m["o"]["c"] in PU.CLASSES and m["o"]["c"] not in PU.BUILTINS
                                                              for m in b["ms"]):
            # `x if flag else y`: the union of the two literals, in this order
            lines += [f"def via{i}(flag: bool) -> None:", f"    use({literal_expr(b['ms'][0]['o'])} if flag else {literal_expr(b['ms'][1]['o'])})"]
        else:
            continue
        calls.append((len(lines), b))
    return "\n".join(lines) + "\n", calls


def observe_snippets(arg):
    from . import pyz

    tid0, a, bs = arg
    code, calls = snippet_module(a, bs)
    fails = pyz.check_source(code, checker=pyz.get_checker(fresh=True))
    bad = {}
    for f in fails:
        bad.setdefault(f["lineno"], []).append(f["code"].name)
    other = {ln: cs for ln, cs in bad.items() if ln not in {c[0] for c in calls} or set(cs) - {"incompatible_argument"}}
    if other:
        raise core.MachineryError(f"protocol snippet for {a}: unexpected diagnostics {other}\n{code}")
    return [{"tid": tid0 + i, "kind": "psnip", "a": a, "b": b, "diagnosed": ln in bad} for i, (ln, b) in enumerate(calls)]
