"""Codec for property C13: TLA+ terms of spec/Annotations.tla <-> Python source / real objects.

* expression terms  {k, id, args}  <-> annotation source text   (render / parse)
* real runtime objects (what CPython's eval() built)  -> object terms {k, id, args}   (describe_object)
* real pyanalyze Values -> value terms {t, n, a}                                     (describe_value)

Nothing here decides anything: the functions only *describe* what is there; the comparison with the
CPython model (PyEval) and the adjudication of the routes is done by TLC (AnnotationsTrace.tla).
"""
from __future__ import annotations

import ast
import builtins
import collections.abc
import types
import typing
from typing import Any

import typing_extensions


class CodecError(Exception):
    pass


def X(k: str, id: str = "", args: list | None = None) -> dict:
    return {"k": k, "id": id, "args": args or []}


def V(t: str, n: str = "", a: list | None = None) -> dict:
    return {"t": t, "n": n, "a": a or []}


# --------------------------------------------------------------------------- constants

def const_id(v: object) -> str:
    if v is None:
        return "None"
    if isinstance(v, bool):
        return f"bool:{v}"
    if isinstance(v, int):
        return f"int:{v}"
    if isinstance(v, str):
        return f"str:{v}"
    if isinstance(v, bytes):
        return "bytes:" + v.decode("latin1")
    if v is Ellipsis:
        return "..."
    return "obj:" + getattr(v, "__qualname__", type(v).__name__)


def _render_const(cid: str, depth: int) -> str:
    if cid == "None":
        return "None"
    kind, _, payload = cid.partition(":")
    if kind in ("int", "bool"):
        return payload
    if kind == "str":
        if depth > 1:
            raise CodecError("string nesting deeper than 2")
        q = '"' if depth == 0 else "'"
        return q + payload + q
    raise CodecError(f"cannot render constant {cid}")


# --------------------------------------------------------------------------- expressions

def render(e: dict, depth: int = 0) -> str:
    k = e["k"]
    if k == "name":
        return e["id"]
    if k == "const":
        return _render_const(e["id"], depth)
    if k == "str":
        if depth > 1:
            raise CodecError("string nesting deeper than 2")
        q = '"' if depth == 0 else "'"
        return q + render(e["args"][0], depth + 1) + q
    if k == "ellipsis":
        return "..."
    if k == "empty":
        return "()"
    if k == "plist":
        return "[" + ", ".join(render(a, depth) for a in e["args"]) + "]"
    if k == "star":
        return "*" + render(e["args"][0], depth)
    if k == "or":
        l, r = e["args"]
        rs = render(r, depth)
        if r["k"] == "or":
            rs = "(" + rs + ")"
        return render(l, depth) + " | " + rs
    if k == "sub":
        return e["id"] + "[" + ", ".join(render(a, depth) for a in e["args"]) + "]"
    raise CodecError(f"unknown expression kind {k}")


def _dotted(node: ast.AST) -> str:
    if isinstance(node, ast.Name):
        return node.id
    if isinstance(node, ast.Attribute):
        return _dotted(node.value) + "." + node.attr
    raise CodecError(f"unsupported subscript root {ast.dump(node)}")


def _parse_node(node: ast.AST, in_literal: bool = False) -> dict:
    if isinstance(node, ast.Name):
        return X("name", node.id)
    if isinstance(node, ast.Constant):
        v = node.value
        if v is Ellipsis:
            return X("ellipsis")
        if isinstance(v, str) and not in_literal:
            return X("str", "", [parse(v)])
        if v is None and not in_literal:
            return X("name", "None")
        return X("const", const_id(v))
    if isinstance(node, ast.UnaryOp) and isinstance(node.op, ast.USub) and isinstance(node.operand, ast.Constant):
        return X("const", const_id(-node.operand.value))
    if isinstance(node, ast.Tuple):
        if not node.elts:
            return X("empty")
        raise CodecError("bare tuple expression")
    if isinstance(node, ast.List):
        return X("plist", "", [_parse_node(x) for x in node.elts])
    if isinstance(node, ast.Starred):
        return X("star", "", [_parse_node(node.value)])
    if isinstance(node, ast.BinOp) and isinstance(node.op, ast.BitOr):
        return X("or", "", [_parse_node(node.left), _parse_node(node.right)])
    if isinstance(node, ast.Subscript):
        root = _dotted(node.value)
        lit = root in ("Literal", "Annotated")
        sl = node.slice
        if isinstance(sl, ast.Tuple) and sl.elts:
            elts = list(sl.elts)
        else:
            elts = [sl]
        args = []
        for i, x in enumerate(elts):
            # Literal[...] arguments and Annotated metadata are constants, not forward references
            const_pos = root == "Literal" or (root == "Annotated" and i > 0)
            args.append(_parse_node(x, in_literal=const_pos))
        return X("sub", root, args)
    raise CodecError(f"unsupported expression {ast.dump(node)}")


def parse(src: str) -> dict:
    return _parse_node(ast.parse(src, mode="eval").body)


# --------------------------------------------------------------------------- real runtime objects

_BARE = {"List", "Dict", "Tuple", "Type", "Callable", "Sequence", "Iterator", "AsyncIterator"}


def describe_object(o: Any, *, const_pos: bool = False) -> dict:
    """Describe the object CPython built for an annotation expression (no interpretation)."""
    if const_pos:
        return X("const", const_id(o))
    if isinstance(o, str):
        return X("strobj", "", [parse(o)])
    if isinstance(o, typing.ForwardRef):
        return X("fwd", "", [parse(o.__forward_arg__)])
    if o is None:
        return X("none")
    if o is type(None):
        return X("nonetype")
    if o is Ellipsis:
        return X("ellipsis")
    if isinstance(o, tuple) and o == ():
        return X("emptytuple")
    if isinstance(o, list):
        return X("pylist", "", [describe_object(x) for x in o])
    if o is typing.Any:
        return X("any")
    if typing_extensions.is_typeddict(o):
        return X("td", o.__name__)
    if isinstance(o, typing.NewType):
        return X("newtype", o.__name__)
    if isinstance(o, typing.TypeVar):
        return X("typevar", o.__name__)
    if isinstance(o, types.UnionType):
        return X("union", "c", [describe_object(a) for a in o.__args__])
    origin = typing.get_origin(o)
    if origin is typing.Union:
        return X("union", "t", [describe_object(a) for a in typing.get_args(o)])
    if origin is typing.Literal:
        return X("literal", "", [describe_object(a, const_pos=True) for a in typing.get_args(o)])
    if origin is typing.Annotated:
        base, *meta = typing.get_args(o)
        # typing.get_args(Annotated[T, m]) = (T, m)
        return X("annotated", "", [describe_object(base)] + [describe_object(m, const_pos=True) for m in meta])
    if origin is typing.Final or origin is typing.ClassVar:
        return X("final", origin._name, [describe_object(a) for a in typing.get_args(o)])
    if origin is typing.Unpack or origin is typing_extensions.Unpack:
        return X("unpack", "", [describe_object(a) for a in typing.get_args(o)])
    if isinstance(o, types.GenericAlias):
        if origin is collections.abc.Callable:
            return X("alias", "collections.abc.Callable", [describe_object(a) for a in typing.get_args(o)])
        kind = "unpackedalias" if getattr(o, "__unpacked__", False) else "alias"
        return X(kind, origin.__name__, [describe_object(a) for a in o.__args__])
    if isinstance(o, typing._SpecialGenericAlias):  # type: ignore[attr-defined]
        if o._name in _BARE:
            return X("bare", o._name)
        raise CodecError(f"unsupported bare alias {o!r}")
    if isinstance(o, typing._GenericAlias):  # type: ignore[attr-defined]
        name = getattr(o, "_name", None)
        if name in _BARE:
            return X("alias", name, [describe_object(a) for a in typing.get_args(o)])
        raise CodecError(f"unsupported typing alias {o!r}")
    if isinstance(o, typing._SpecialForm):  # type: ignore[attr-defined]
        return X("special", o._name)
    if o is collections.abc.Callable:
        return X("abccallable")
    if isinstance(o, type):
        return X("class", class_name(o))
    if isinstance(o, (int, bytes)):
        return X("const", const_id(o))
    raise CodecError(f"cannot describe object {o!r}")


# --------------------------------------------------------------------------- pyanalyze values

# classes of the realised modules that shadow a builtin of the same name: the builtin one is written
# "builtins.<name>" so that the two are different terms
SHADOWING = ("TimeoutError", "Warning")


# classes of a multi-module world (harness/c13_context.py): {id(class): "<module letter>.<name>"}; empty unless a
# case of that slice is being described, so every other description is unchanged
CLASS_ALIASES: dict[int, str] = {}


def class_name(t: Any) -> str:
    if CLASS_ALIASES and id(t) in CLASS_ALIASES:
        return CLASS_ALIASES[id(t)]
    name = getattr(t, "__name__", None)
    if name in SHADOWING and t is getattr(builtins, name, None):
        return "builtins." + name
    return name if name is not None else repr(t)


def _cname(t: Any) -> str:
    return t if isinstance(t, str) else class_name(t)


def describe_value(v: Any) -> dict:
    from pyanalyze import value as PV
    from pyanalyze.signature import Signature

    if v is None:
        return V("nodefault")
    if isinstance(v, PV.VariableNameValue):
        return V("Other", "VariableNameValue")
    if isinstance(v, PV.AnyValue):
        return V("Any", v.source.name)
    if isinstance(v, PV.KnownValue):
        return V("Known", const_id(v.val))
    if isinstance(v, PV.TypedDictValue):
        items = []
        for k, e in v.items.items():
            t = e.typ
            tn = _cname(t.typ) if type(t) is PV.TypedValue else "?"
            items.append(f"{k}:{tn}:{'required' if e.required else 'optional'}" + (":readonly" if e.readonly else ""))
        extra = "" if v.extra_keys is None else "+extra"
        return V("TypedDict", ",".join(items) + extra)
    if isinstance(v, PV.SequenceValue):
        return V("Seq", _cname(v.typ), [V("many" if many else "one", "", [describe_value(x)]) for many, x in v.members])
    if isinstance(v, PV.NewTypeValue):
        return V("NewType", v.name)
    if isinstance(v, PV.CallableValue):
        return V("Callable", "", [describe_signature(v.signature)])
    if isinstance(v, PV.DictIncompleteValue):
        return V("Other", "DictIncompleteValue")
    if isinstance(v, PV.GenericValue):
        return V("Generic", _cname(v.typ), [describe_value(x) for x in v.args])
    if isinstance(v, PV.TypedValue):
        if v.literal_only:
            return V("Other", "literal_only:" + _cname(v.typ))
        return V("Typed", _cname(v.typ))
    if isinstance(v, PV.SubclassValue):
        return V("Subclass", "exactly" if v.exactly else "", [describe_value(v.typ)])
    if isinstance(v, PV.MultiValuedValue):
        return V("Union", "", [describe_value(x) for x in v.vals])
    if isinstance(v, PV.TypeVarValue):
        kids = []
        if v.bound is not None:
            kids.append(V("bound", "", [describe_value(v.bound)]))
        kids += [V("constraint", "", [describe_value(c)]) for c in v.constraints]
        return V("TypeVar", v.typevar.__name__, kids)
    if isinstance(v, PV.AnnotatedValue):
        meta = [describe_value(m) if isinstance(m, PV.Value) else V("Other", "ext:" + type(m).__name__) for m in v.metadata]
        return V("Annotated", "", [describe_value(v.value)] + meta)
    if isinstance(v, PV.UnpackedValue):
        return V("Unpacked", "", [describe_value(v.value)])
    return V("Other", type(v).__name__)


def describe_signature(sig: Any) -> dict:
    from pyanalyze.signature import Signature

    if not isinstance(sig, Signature):
        return V("Other", "sig:" + type(sig).__name__)
    params = []
    for p in sig.parameters.values():
        params.append(
            V("Param", p.name, [V("kind", p.kind.name), describe_value(p.default), describe_value(p.annotation)])
        )
    return V("Sig", "", params + [describe_value(sig.return_value)])


def raised(exc: BaseException) -> dict:
    return V("Raised", type(exc).__name__)
