"""Parser for the TLA+ value syntax TLC prints in -dump files and -simulate trace files.

Supports: integers, strings, TRUE/FALSE, model values/identifiers, sequences <<..>>, sets {..},
records [a |-> v, ..], functions (k :> v @@ k :> v) and [x \\in S |-> ..] is never printed by TLC.
Values are mapped to Python: int, str, bool, list (sequence), frozenset->sorted list tagged via
TlaSet (a list subclass), dict (record / function with string keys) or TlaFun (list of pairs).
"""
from __future__ import annotations

import re
from typing import Any, Iterator


class TlaSet(list):
    """A TLA+ set (kept as list in TLC's printing order)."""


class ModelValue(str):
    pass


_TOKEN = re.compile(
    r"""\s*(?:
    (?P<int>-?\d+)|
    (?P<str>"(?:[^"\\]|\\.)*")|
    (?P<lseq><<)|(?P<rseq>>>)|
    (?P<mapsto>\|->)|(?P<colgt>:>)|(?P<atat>@@)|
    (?P<punct>[\[\]{}(),])|
    (?P<id>[A-Za-z_][A-Za-z0-9_]*)
    )""",
    re.X,
)


def _tokens(s: str) -> list[tuple[str, str]]:
    out = []
    pos = 0
    n = len(s)
    while pos < n:
        m = _TOKEN.match(s, pos)
        if m is None:
            if s[pos:].strip() == "":
                break
            raise ValueError(f"cannot tokenize TLA value at {s[pos:pos+40]!r}")
        pos = m.end()
        kind = m.lastgroup
        out.append((kind, m.group(kind)))
    return out


_ESC = {"n": "\n", "t": "\t", '"': '"', "\\": "\\", "r": "\r", "f": "\f"}


def _unescape(lit: str) -> str:
    body = lit[1:-1]
    if "\\" not in body:
        return body
    res = []
    i = 0
    while i < len(body):
        ch = body[i]
        if ch == "\\" and i + 1 < len(body):
            res.append(_ESC.get(body[i + 1], body[i + 1]))
            i += 2
        else:
            res.append(ch)
            i += 1
    return "".join(res)


class _P:
    def __init__(self, toks):
        self.t = toks
        self.i = 0

    def peek(self):
        return self.t[self.i] if self.i < len(self.t) else (None, None)

    def eat(self, val=None):
        k, v = self.t[self.i]
        if val is not None and v != val:
            raise ValueError(f"expected {val!r}, got {v!r}")
        self.i += 1
        return k, v

    def value(self) -> Any:
        k, v = self.peek()
        if k == "int":
            self.eat()
            return int(v)
        if k == "str":
            self.eat()
            return _unescape(v)
        if k == "id":
            self.eat()
            if v == "TRUE":
                return True
            if v == "FALSE":
                return False
            return ModelValue(v)
        if k == "lseq":
            self.eat()
            items = []
            while self.peek()[0] != "rseq":
                items.append(self.value())
                if self.peek()[1] == ",":
                    self.eat()
            self.eat()
            return items
        if v == "{":
            self.eat()
            items = TlaSet()
            while self.peek()[1] != "}":
                items.append(self.value())
                if self.peek()[1] == ",":
                    self.eat()
            self.eat()
            return items
        if v == "[":
            self.eat()
            rec = {}
            while self.peek()[1] != "]":
                _, name = self.eat()
                self.eat("|->")
                rec[name] = self.value()
                if self.peek()[1] == ",":
                    self.eat()
            self.eat()
            return rec
        if v == "(":
            self.eat()
            pairs = []
            while True:
                key = self.value()
                self.eat(":>")
                val = self.value()
                pairs.append((key, val))
                if self.peek()[0] == "atat":
                    self.eat()
                    continue
                break
            self.eat(")")
            if all(isinstance(k, str) for k, _ in pairs):
                return {k: v for k, v in pairs}
            return pairs
        raise ValueError(f"unexpected token {v!r}")


def parse_value(s: str) -> Any:
    p = _P(_tokens(s))
    v = p.value()
    if p.i != len(p.t):
        raise ValueError(f"trailing tokens in TLA value: {s[:80]!r}")
    return v


_VAR_LINE = re.compile(r"^/\\ (\w+) = (.*)$")


def iter_dump_states(path: str) -> Iterator[dict[str, Any]]:
    """Yield each state of a `tlc -dump` file as {var: value}."""
    cur: dict[str, str] | None = None
    last = None
    with open(path) as f:
        for line in f:
            line = line.rstrip("\n")
            if line.startswith("State "):
                if cur is not None:
                    yield {k: parse_value(v) for k, v in cur.items()}
                cur = {}
                last = None
                continue
            if cur is None:
                continue
            m = _VAR_LINE.match(line)
            if m:
                last = m.group(1)
                cur[last] = m.group(2)
            elif line.strip() and last is not None:
                cur[last] += " " + line.strip()
    if cur:
        yield {k: parse_value(v) for k, v in cur.items()}


_SIM_STATE = re.compile(r"^STATE_(\d+) ==\s*$")
_SIM_ACTION = re.compile(r"^\\\* <(\w+) ")


def parse_sim_trace(path: str) -> list[tuple[str, dict[str, Any]]]:
    """Parse one `tlc -simulate file=...` behaviour file into [(action, state), ...]."""
    out = []
    action = "Init"
    cur = None
    last = None
    with open(path) as f:
        for line in f:
            line = line.rstrip("\n")
            m = _SIM_ACTION.match(line)
            if m:
                action = m.group(1)
                continue
            if _SIM_STATE.match(line):
                if cur is not None:
                    out.append((cur_action, {k: parse_value(v) for k, v in cur.items()}))
                cur = {}
                cur_action = action
                last = None
                continue
            if cur is None:
                continue
            mm = _VAR_LINE.match(line.strip()) if line.strip().startswith("/\\") else None
            if mm:
                last = mm.group(1)
                cur[last] = mm.group(2)
            elif line.strip() and last is not None and not line.startswith("="):
                cur[last] += " " + line.strip()
    if cur:
        out.append((cur_action, {k: parse_value(v) for k, v in cur.items()}))
    return out
