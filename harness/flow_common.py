"""Real-code observers for the flow-level slice of C02 (spec/ConstraintFlow.tla).

A case is a small function over the tested variable x, the saved-condition variable ok and opaque flag() calls,
given as a token sequence.  For every case the observer records
  * what the REAL visitor inferred for x at every recorded read `U(<token index>, x)` (annotate=True), and
  * what REAL CPython did: the function is executed for every argument object and every choice of the flag() results,
    and the U calls of each execution are recorded in order.
No oracle logic lives here: TLC (spec/trace/ConstraintFlowTrace.tla) compares its own execution model with the recorded
runs, judges FlowN1 / FlowN2 on the real inferred types and compares them with the Impl model.
"""
from __future__ import annotations

import ast
import itertools
from typing import Any

from . import codec, core, pyz
from . import narrow_common as nc

# must equal FBits / FMaxTicks of spec/mc/ConstraintFlowTrace.cfg (checked by the driver)
FBITS = 3
FMAXTICKS = 2
# ConstraintFlow!FlowArgPool
ARG_POOL = [
    {"c": "int", "v": "1", "items": []},
    {"c": "bool", "v": "True", "items": []},
    {"c": "str", "v": "a", "items": []},
    {"c": "NoneType", "v": "None", "items": []},
]


# --------------------------------------------------------------------------- run-time support of the generated functions
class _Stop(Exception):
    pass


_S: dict[str, Any] = {"bits": [], "ev": [], "ticks": 0}


def flag() -> bool:
    """An opaque condition: the next recorded choice; False once the choices are used up."""
    b = _S["bits"]
    return b.pop(0) if b else False


def U(k: int, v: object) -> bool:
    """A recorded read: remembers the object and returns True."""
    _S["ev"].append((k, v))
    return True


def T() -> None:
    """First statement of every loop body: cuts the run when a loop body is entered for the (FMAXTICKS+1)-th time."""
    _S["ticks"] += 1
    if _S["ticks"] > FMAXTICKS:
        raise _Stop


def run_once(fn, arg: Any, bits: tuple) -> list[tuple[int, Any]]:
    _S["bits"] = list(bits)
    _S["ev"] = []
    _S["ticks"] = 0
    try:
        fn(arg)
    except _Stop:
        pass
    return _S["ev"]


PRELUDE = codec.PRELUDE + "from harness.flow_common import U, flag, T\n"
PRELUDE_LINES = PRELUDE.count("\n")
_TOLERATED = {"unused_variable", "possibly_undefined_name", "unused_assignment"}


# --------------------------------------------------------------------------- tokens -> source
def render(case: dict, name: str) -> list[str]:
    lines = [f"def {name}(x: {codec.term_to_annotation(case['decl'])}) -> None:"]
    ind = 1

    def put(s: str) -> None:
        lines.append("    " * ind + s)

    for i, tk in enumerate(case["toks"], start=1):
        t = tk["t"]
        if t == "asg":
            put(f"x = {codec.obj_literal(tk['d'])}")
        elif t == "save":
            put(f"ok = {nc.cond_text(tk['c'])}")
        elif t == "okflag":
            put("ok = flag()")
        elif t == "use":
            put(f"U({i}, x)")
        elif t == "ret":
            put("return")
        elif t in ("ifflag", "whflag"):
            put(("if" if t == "ifflag" else "while") + " flag():")
            ind += 1
        elif t in ("ifok", "whok"):
            test = "ok" if tk["c"]["kind"] == "truthy" else "not ok"
            put(("if " if t == "ifok" else "while ") + test + ":")
            ind += 1
        elif t in ("ifc", "whc"):
            put(("if " if t == "ifc" else "while ") + nc.cond_text(tk["c"]) + ":")
            ind += 1
        elif t == "ifwal":
            put(f"if (ok := {nc.cond_text(tk['c'])}):")
            ind += 1
        elif t in ("ifand", "ifor"):
            put(f"if {nc.cond_text(tk['c'])} {'and' if t == 'ifand' else 'or'} U({i}, x):")
            ind += 1
        elif t == "else":
            ind -= 1
            put("else:")
            ind += 1
        elif t == "end":
            ind -= 1
        else:
            raise core.MachineryError(f"unknown token {tk}")
        if t in ("whflag", "whok", "whc"):
            put("T()")
    if ind != 1:
        raise core.MachineryError(f"unbalanced token sequence {case}")
    return lines


def arg_objects(decl: dict) -> list[dict]:
    """The argument objects: members of the declared type in the pool (decided by real isinstance on the real annotation)."""
    out = []
    for o in ARG_POOL:
        v = codec.obj_to_py(o)
        ok = False
        for m in decl["ms"] if decl["k"] == "union" else [decl]:
            if m["k"] == "typed":
                ok = ok or isinstance(v, nc.U.CLASSES[m["c"]])
            elif m["k"] == "known":
                ok = ok or v is codec.obj_to_py(m["o"])
            else:
                raise core.MachineryError(f"declared type {decl} not supported by the flow observer")
        if ok:
            out.append(o)
    return out


def observe_chunk(chunk: list[tuple[int, dict]]) -> list[dict]:
    """One generated module per chunk."""
    lines = [PRELUDE.rstrip("\n")]
    for i, (_tid, case) in enumerate(chunk):
        lines += render(case, f"f_{i}")
    src = "\n".join(lines) + "\n"
    mod = pyz.make_module(src)
    fails, _visitor, tree = pyz.check_source(src, module=mod, annotate=True, want_visitor=True)
    bad = [f for f in pyz.brief(fails) if f[0] not in _TOLERATED and (f[1] or 0) > PRELUDE_LINES]
    funcs = {n.name: n for n in tree.body if isinstance(n, ast.FunctionDef) and n.name.startswith("f_")}
    out = []
    for i, (tid, case) in enumerate(chunk):
        fn = funcs[f"f_{i}"]
        lo, hi = fn.lineno, fn.end_lineno
        mine = [f for f in bad if lo <= (f[1] or 0) <= hi]
        text = "\n".join(src.splitlines()[lo - 1 : hi])
        if mine:
            raise core.MachineryError(f"generated function raised unexpected diagnostics {mine}:\n{text}")
        inf = []
        for node in ast.walk(fn):
            if isinstance(node, ast.Call) and isinstance(node.func, ast.Name) and node.func.id == "U":
                k = node.args[0].value
                try:
                    val = node.args[1].inferred_value
                except AttributeError as exc:
                    raise core.MachineryError(f"no inferred_value recorded for U({k}, x) in\n{text}") from exc
                inf.append({"u": k, "t": codec.value_to_term(val)})
        inf.sort(key=lambda r: r["u"])
        real_fn = getattr(mod, f"f_{i}")
        args = arg_objects(case["decl"])
        runs: dict[str, dict] = {}
        for a in args:
            av = codec.obj_to_py(a)
            for bits in itertools.product((True, False), repeat=FBITS):
                evs = run_once(real_fn, av, bits)
                rec = {"arg": a, "evs": [{"u": k, "o": codec.py_to_obj(v)} for k, v in evs]}
                runs.setdefault(core.canon(rec), rec)
        out.append({"tid": tid, "kind": "flow", "decl": case["decl"], "toks": case["toks"], "args": args,
                    "runs": list(runs.values()), "inf": inf, "src": text})
    return out


# =========================================================================== match statements with several cases and guards
# (spec/MatchCases.tla).  Same division of labour: the visitor's inferred types and the runs of real CPython are recorded here,
# TLC (spec/trace/MatchCasesTrace.tla) compares its model of the match semantics with the runs and judges the inferred types.
def G(k: int, v: object) -> bool:
    """A recorded read in guard position: remembers the object, then behaves like flag()."""
    _S["ev"].append((k, v))
    return flag()


# MatchCases!MObjPool
MATCH_POOL = [
    {"c": "int", "v": "0", "items": []}, {"c": "int", "v": "1", "items": []}, {"c": "bool", "v": "True", "items": []},
    {"c": "bool", "v": "False", "items": []}, {"c": "float", "v": "1.0", "items": []}, {"c": "str", "v": "a", "items": []},
    {"c": "str", "v": "", "items": []}, {"c": "NoneType", "v": "None", "items": []}, {"c": "Color", "v": "RED", "items": []},
    {"c": "Color", "v": "GREEN", "items": []}, {"c": "A", "v": "a", "items": []},
    {"c": "tuple", "v": "", "items": []}, {"c": "tuple", "v": "", "items": [{"c": "int", "v": "1", "items": []}]},
    {"c": "tuple", "v": "", "items": [{"c": "int", "v": "1", "items": []}, {"c": "str", "v": "a", "items": []}]},
    {"c": "list", "v": "", "items": [{"c": "int", "v": "1", "items": []}]},
    {"c": "dict", "v": "", "items": []},
    {"c": "dict", "v": "", "items": [{"key": {"c": "str", "v": "a", "items": []}, "val": {"c": "int", "v": "1", "items": []}}]},
]
MATCH_PRELUDE = codec.PRELUDE + "from harness.flow_common import U, G, flag\n"
MATCH_PRELUDE_LINES = MATCH_PRELUDE.count("\n")
_MATCH_TOLERATED = {"unused_variable", "unused_assignment", "impossible_pattern", "unsafe_comparison", "incompatible_argument"}
_GUARD_TEXT = {"flag": "flag()", "xnn": "x is not None", "xint": "isinstance(x, int)", "ynone": "y is None"}


def match_pattern_text(c: dict) -> str:
    k = c["kind"]
    if k == "m_wild":
        return "_"
    if k == "m_capture":
        return "z"
    if k == "m_map":
        return "{}"
    return nc.pattern_text(c)


def render_match(case: dict, name: str) -> list[str]:
    lines = [f"def {name}(x: {codec.term_to_annotation(case['subj'])}, y: Optional[int] = None) -> None:", "    match x:"]
    for i, cs in enumerate(case["cases"], start=1):
        g = cs["g"]
        guard = "" if g == "none" else " if " + (f"G({10 * i + 1}, x)" if g == "guse" else _GUARD_TEXT[g])
        lines += [f"        case {match_pattern_text(cs['p'])}{guard}:", f"            U({10 * i + 2}, x)"]
    lines.append("    U(99, x)")
    return lines


def observe_match_chunk(chunk: list[tuple[int, dict]]) -> list[dict]:
    lines = [MATCH_PRELUDE.rstrip("\n")]
    for i, (_tid, case) in enumerate(chunk):
        lines += render_match(case, f"f_{i}")
    src = "\n".join(lines) + "\n"
    mod = pyz.make_module(src)
    fails, _visitor, tree = pyz.check_source(src, module=mod, annotate=True, want_visitor=True)
    bad = [f for f in pyz.brief(fails) if f[0] not in _MATCH_TOLERATED and (f[1] or 0) > MATCH_PRELUDE_LINES]
    funcs = {n.name: n for n in tree.body if isinstance(n, ast.FunctionDef) and n.name.startswith("f_")}
    pool = [codec.obj_to_py(o) for o in MATCH_POOL]
    out = []
    for i, (tid, case) in enumerate(chunk):
        fn = funcs[f"f_{i}"]
        lo, hi = fn.lineno, fn.end_lineno
        text = "\n".join(src.splitlines()[lo - 1 : hi])
        mine = [f for f in bad if lo <= (f[1] or 0) <= hi]
        if mine:
            raise core.MachineryError(f"generated match function raised unexpected diagnostics {mine}:\n{text}")
        inf = []
        for node in ast.walk(fn):
            if isinstance(node, ast.Call) and isinstance(node.func, ast.Name) and node.func.id in ("U", "G"):
                k = node.args[0].value
                try:
                    val = node.args[1].inferred_value
                except AttributeError as exc:
                    raise core.MachineryError(f"no inferred_value recorded for the read {k} in\n{text}") from exc
                inf.append({"u": k, "t": codec.value_to_term(val)})
        inf.sort(key=lambda r: r["u"])
        real_fn = getattr(mod, f"f_{i}")
        n_opaque = sum(1 for cs in case["cases"] if cs["g"] in ("flag", "guse"))
        yvals = [None, 1] if any(cs["g"] == "ynone" for cs in case["cases"]) else [None]
        runs: dict[str, dict] = {}
        for a, av in zip(MATCH_POOL, pool):
            for y in yvals:
                for bits in itertools.product((True, False), repeat=n_opaque):
                    _S["bits"], _S["ev"], _S["ticks"] = list(bits), [], 0
                    real_fn(av, y)
                    rec = {"arg": a, "y": codec.py_to_obj(y), "evs": [{"u": k, "o": codec.py_to_obj(v)} for k, v in _S["ev"]]}
                    runs.setdefault(core.canon(rec), rec)
        out.append({"tid": tid, "kind": "match", "subj": case["subj"], "cases": case["cases"], "args": MATCH_POOL,
                    "runs": list(runs.values()), "inf": inf, "src": text})
    return out
