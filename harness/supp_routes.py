"""Realisation and observation of the cases of SuppressionRoutes.tla (property C11, routes).

A case is {"lines": [{kind, diags, ign, shape}], "cfg": {all, en, dis, top, ov, oth}}.
  * render(case)            -> Python source (line k of the abstract file is physical line k)
  * observe_ctor(tid, case) -> trace lines; settings through the constructor `settings` route (cfg.en / cfg.dis only)
  * observe_cli(...)        -> trace lines of two files checked by ONE NameCheckVisitor.main() call: command-line
                               flags + a pyproject.toml with a top-level section and one override section per file
  * observe_subprocess(...) -> the same through `python -m pyanalyze` (no hook events, outputs only)
Python only records; every verdict is TLC's (spec/trace/SuppressionRoutesTrace.tla).
"""
from __future__ import annotations

import contextlib
import io
import itertools
import json
import os
import shutil
import subprocess
import sys
import tempfile
from pathlib import Path
from typing import Any, Optional

from . import core, pyz

IGNORE = "# static analysis: ignore"
REAL = {
    "c1": "undefined_name",
    "c2": "unsupported_operation",
    "c3": "incompatible_call",
    "c4": "incompatible_argument",
    "c5": "value_always_true",
    "c6": "missing_return",
    "cn": "implicit_any",
    "unused_ignore": "unused_ignore",
    "bare_ignore": "bare_ignore",
}
ABSTRACT = {v: k for k, v in REAL.items()}
META = {"unused_ignore", "bare_ignore"}
EXPR = {"c1": "zz_undefined_name", "c2": '1 + ""', "c4": '1 in "a"', "c5": "[1] or 1"}
CFG_CODES = ["c1", "c2", "c3", "c4", "c5", "c6", "unused_ignore", "bare_ignore", "cn"]


def comment_text(ign: str) -> str:
    if ign == "bare":
        return IGNORE
    if ign == "multi":
        return f"{IGNORE}[{REAL['c1']}, {REAL['c2']}]"
    return f"{IGNORE}[{REAL[ign]}]"


def _exprs(n: int, diags: list[str]) -> str:
    parts = [str(n)]
    for code in diags:
        if code == "c6":
            continue
        if code not in EXPR:
            raise core.MachineryError(f"cannot realise diagnostic {code}")
        parts.append(EXPR[code])
    return ", ".join(parts)


_INDENT = {"stmt": 0, "doc": 0, "imp": 0, "open": 0, "def": 0, "mid": 4, "close": 4, "body": 4, "with": 4, "deco": 4,
           "idef": 4, "wbody": 8, "idefh": 4, "ibody": 8}


def _code_line(ln: dict, n: int) -> str:
    shape, d = ln["shape"], list(ln["diags"])
    e = _exprs(n, d)
    if shape == "stmt":
        return f"lambda: [{e}]"
    if shape == "doc":
        return f'"""doc {n}."""'
    if shape == "imp":
        return "from pyanalyze.extensions import assert_error"
    if shape == "open":
        return f"lambda: [{e},"
    if shape == "mid":
        return f"    {e},"
    if shape == "close":
        return f"    {e}]"
    if shape == "def":
        return f"def f{n}() -> None:"
    if shape == "body":
        return f"    [{e}]"
    if shape == "with":
        return "    with assert_error():"
    if shape == "wbody":
        return f"        [{e}]"
    if shape == "deco":
        return f"    @(lambda _a: lambda _f: _f)([{e}])"
    if shape == "idef":
        if "c6" in d:     # missing_return, reported on the FunctionDef node
            return f"    def g{n}() -> int: [{e}]"
        return f"    def g{n}() -> object: return [{e}]"
    if shape == "idefh":  # header of a two-line nested def: the FunctionDef node spans this line and the next
        return f"    def g{n}() -> int:" if "c6" in d else f"    def g{n}() -> None:"
    if shape == "ibody":
        return f"        [{e}]"
    raise core.MachineryError(f"unknown shape {shape}")


def render(case: dict) -> str:
    lines = case["lines"]
    out = []
    for k, ln in enumerate(lines):
        n = k + 1
        kind = ln["kind"]
        if kind == "code":
            text = _code_line(ln, n)
            if ln["ign"] != "none":
                text += "  " + comment_text(ln["ign"])
        elif kind == "blank":
            text = ""
        else:
            # comment lines take the indentation of the next code line (none in the leading block / at the end)
            ind = 0
            if ln.get("shape") != "shebang":
                for nxt in lines[k + 1:]:
                    if nxt["kind"] == "code":
                        ind = _INDENT[nxt["shape"]]
                        break
                if not any(p["kind"] == "code" for p in lines[:k]):
                    ind = 0
            if ln.get("shape") == "shebang":
                text = "#!/usr/bin/env python"
            elif kind == "comment":
                text = " " * ind + "# a comment"
            else:
                text = " " * ind + comment_text(ln["ign"])
        out.append(text)
    return "\n".join(out) + "\n"


# --------------------------------------------------------------------------- settings requests


def only_flags(cfg: dict) -> bool:
    return cfg["all"] == "none" and all(cfg[s][c] == "unset" for s in ("top", "ov", "oth") for c in cfg[s])


def ctor_settings(cfg: dict) -> dict[str, bool]:
    """The dict main() would build from -e/-d (node_visitor.py:375-378), handed to the constructor route."""
    st: dict[str, bool] = {}
    for c in CFG_CODES:
        if c in cfg["en"]:
            st[REAL[c]] = True
    for c in CFG_CODES:
        if c in cfg["dis"]:
            st[REAL[c]] = False
    return st


def argv_of(cfg: dict) -> list[str]:
    argv: list[str] = []
    if cfg["all"] == "enable_all":
        argv.append("--enable-all")
    elif cfg["all"] == "disable_all":
        argv.append("--disable-all")
    # -e and -d are interleaved on purpose: argparse collects them into two lists
    for c in CFG_CODES:
        if c in cfg["dis"]:
            argv += ["-d", REAL[c]]
        if c in cfg["en"]:
            argv += ["--enable", REAL[c]]
    return argv


def _section(values: dict) -> list[str]:
    return [f"{REAL[c]} = {'true' if values[c] == 'on' else 'false'}" for c in CFG_CODES if values.get(c, "unset") != "unset"]


def toml_of(cfg: dict, mod_a: str, mod_b: str) -> str:
    lines = ["[tool.pyanalyze]", 'import_paths = ["."]']
    lines += _section(cfg["top"])
    ovs = []
    for mod, sec in ((mod_a, cfg["ov"]), (mod_b, cfg["oth"])):
        ovs.append("{" + ", ".join([f'module = "{mod}"'] + _section(sec)) + "}")
    lines.append("overrides = [" + ", ".join(ovs) + "]")
    return "\n".join(lines) + "\n"


def swapped(cfg: dict) -> dict:
    """The same request seen from the other file of the run: its override section is `oth`, and vice versa."""
    return {**cfg, "ov": cfg["oth"], "oth": cfg["ov"]}


# --------------------------------------------------------------------------- observation


class _Sink(list):
    """Hook sink that also records which visitor (file) made the show_error call."""

    def append(self, rec):  # called from _verif_trace.emit, itself called from show_error
        try:
            v = sys._getframe(2).f_locals.get("self")
            rec["filename"] = getattr(v, "filename", None)
        except Exception:
            rec["filename"] = None
        super().append(rec)


def _events(tid: int, sink: list[dict], src: str) -> list[dict]:
    lines = []
    for ev in sink:
        if ev["event"] != "ShowError":
            continue
        code = ev["code"]
        if code not in ABSTRACT or ev["lineno"] is None:
            # a diagnostic the file does not have by construction (never seen on the unchanged tree): TLC judges it --
            # drift if it stays invisible, a violation ("changes no other diagnostic") if it is reported
            if ev["decision"] != "caught":
                lines.append({"tid": tid, "event": "ShowError", "code": "cx", "lineno": ev["lineno"] or 0,
                              "decision": ev["decision"], "real": str(code)})
            continue
        a = ABSTRACT[code]
        if ev["decision"] == "caught":
            lines.append({"tid": tid, "event": "Caught", "code": a, "lineno": ev["lineno"]})
        elif a in META:
            lines.append({"tid": tid, "event": "Meta", "code": a, "lineno": ev["lineno"], "decision": ev["decision"]})
        else:
            lines.append({"tid": tid, "event": "ShowError", "code": a, "lineno": ev["lineno"], "decision": ev["decision"]})
    return lines


def _out(pairs, src: str) -> list[list]:
    out = []
    for code, lineno in pairs:
        out.append([ABSTRACT.get(code, "cx"), lineno or 0])
    return out


def observe_ctor(arg: tuple[int, dict]) -> list[dict]:
    from pyanalyze import _verif_trace

    tid, case = arg
    src = render(case)
    sink: list[dict] = []
    _verif_trace.set_sink(sink)
    try:
        fails = pyz.check_source(src, settings=ctor_settings(case["cfg"]))
    finally:
        _verif_trace.set_sink(None)
    lines = [{"tid": tid, "event": "Begin", "case": case, "hooked": True, "src": src, "route": "constructor-settings"}]
    lines += _events(tid, sink, src)
    lines.append({"tid": tid, "event": "End", "out": _out([(c, ln) for c, ln, _ in pyz.brief(fails)], src)})
    return lines


_counter = itertools.count()


def _write_run(case_a: dict, case_b: dict):
    uid = f"{os.getpid()}_{next(_counter)}"
    d = Path(tempfile.mkdtemp(prefix="c11cli.", dir=str(core.scratch())))
    mod_a, mod_b = f"vq{uid}_a", f"vq{uid}_b"
    srcs = {mod_a: render(case_a), mod_b: render(case_b)}
    for mod, src in srcs.items():
        (d / f"{mod}.py").write_text(src)
    (d / "pyproject.toml").write_text(toml_of(case_a["cfg"], mod_a, mod_b))
    argv = ["--config-file", str(d / "pyproject.toml"), "--json-output", str(d / "out.json"), *argv_of(case_a["cfg"]),
            str(d / f"{mod_a}.py"), str(d / f"{mod_b}.py")]
    return d, mod_a, mod_b, srcs, argv


def _read_json(d: Path) -> list[dict]:
    p = d / "out.json"
    if not p.exists():      # main() writes the report only if there are failures (node_visitor.py:424)
        return []
    return json.loads(p.read_text())


def _groups(base: int, cases, mods, srcs, d: Path, failures: list[dict], sink: Optional[list], route: str, argv) -> list[list[dict]]:
    groups = []
    for j, (case, mod) in enumerate(zip(cases, mods)):
        tid = base + j
        fname = str(d / f"{mod}.py")
        src = srcs[mod]
        lines = [{"tid": tid, "event": "Begin", "case": case, "hooked": sink is not None, "src": src, "route": route,
                  "argv": [a.replace(str(d), "<dir>") for a in argv], "toml": (d / "pyproject.toml").read_text()}]
        if sink is not None:
            lines += _events(tid, [ev for ev in sink if ev.get("filename") == fname], src)
        mine = [f for f in failures if f.get("filename") == fname]
        lines.append({"tid": tid, "event": "End", "out": _out([(f.get("code"), f.get("lineno")) for f in mine], src)})
        groups.append(lines)
    stray = [f for f in failures if f.get("filename") not in {str(d / f"{m}.py") for m in mods}]
    if stray:
        raise core.MachineryError(f"failures for unknown files: {stray}")
    if sink is not None:
        lost = [ev for ev in sink if ev["event"] == "ShowError" and ev.get("filename") not in {str(d / f"{m}.py") for m in mods}]
        if lost:
            raise core.MachineryError(f"hook events that belong to no checked file: {lost[:3]}")
    return groups


def observe_cli(arg: tuple[int, dict, dict]) -> list[list[dict]]:
    """One in-process NameCheckVisitor.main() run (argument parser, settings assembly, prepare_constructor_kwargs,
    config file, _run_on_files) over two files; returns the two Begin..End groups."""
    from pyanalyze import _verif_trace
    from pyanalyze.name_check_visitor import NameCheckVisitor

    base, case_a, lines_b = arg
    case_b = {"lines": lines_b, "cfg": swapped(case_a["cfg"])}
    d, mod_a, mod_b, srcs, argv = _write_run(case_a, case_b)
    sink = _Sink()
    old_argv = sys.argv
    sys.argv = ["pyanalyze", *argv]
    _verif_trace.set_sink(sink)
    try:
        with contextlib.redirect_stderr(io.StringIO()), contextlib.redirect_stdout(io.StringIO()):
            try:
                NameCheckVisitor.main()
            except SystemExit as e:
                raise core.MachineryError(f"main() exited with {e.code} for argv {argv}") from e
    finally:
        _verif_trace.set_sink(None)
        sys.argv = old_argv
    groups = _groups(base, (case_a, case_b), (mod_a, mod_b), srcs, d, _read_json(d), sink, "main()", argv)
    shutil.rmtree(d, ignore_errors=True)
    return groups


def observe_subprocess(arg: tuple[int, dict, dict]) -> list[list[dict]]:
    """The same through a real `python -m pyanalyze` process (outputs only)."""
    base, case_a, lines_b = arg
    case_b = {"lines": lines_b, "cfg": swapped(case_a["cfg"])}
    d, mod_a, mod_b, srcs, argv = _write_run(case_a, case_b)
    env = dict(os.environ)
    env["PYTHONPATH"] = str(core.REPO) + os.pathsep + env.get("PYTHONPATH", "")
    env.pop(core.GUARD, None)
    proc = subprocess.run([sys.executable, "-m", "pyanalyze", *argv], cwd=str(d), env=env, stdout=subprocess.PIPE,
                          stderr=subprocess.PIPE, text=True, timeout=300)
    if proc.returncode not in (0, 1):
        raise core.MachineryError(f"python -m pyanalyze exited with {proc.returncode}: {proc.stderr[-800:]}")
    groups = _groups(base, (case_a, case_b), (mod_a, mod_b), srcs, d, _read_json(d), None, "python -m pyanalyze", argv)
    shutil.rmtree(d, ignore_errors=True)
    return groups
