"""C13, shapes of definition (spec/DefShapes.tla, spec/trace/DefShapesTrace.tla): methods reached through the class and
through an instance, functools.wraps wrappers, decorators with a declared Callable return type, (async) generators.

Every case {h, shape} is realised in a defining module (module level + nested in a function where the def-derived view is
needed) and in an importing module; recorded are CPython's inspect.signature, Checker.get_signature of the real objects, the
values the visitor gives the parameters inside a method body, and the judgement of every call of DefHeaders!Calls(h) in
each context.  Nothing is decided here: TLC (DefShapesTrace) does.
"""
from __future__ import annotations

import ast
import contextlib
import inspect
import io
import sys
from typing import Any

from . import core, pyz
from .annot_codec import V, describe_signature, describe_value, parse, raised

SHAPES_PRELUDE = '''
import functools
from typing import Iterator, AsyncIterator
def deco(fn):
    @functools.wraps(fn)
    def wrapper(*args, **kwargs):
        return fn(*args, **kwargs)
    return wrapper
def retype(fn) -> Callable[[str], str]:
    def inner(s: str) -> str:
        return s
    return inner
'''

METHOD_SHAPES = ("method", "classmethod", "staticmethod")
INNER_HEADER = {"params": [{"name": "s", "kind": "POSITIONAL_OR_KEYWORD", "ann": parse("str"), "dflt": "none"}],
                "ret": parse("str"), "isasync": False, "future": False}
_NOANN = {"k": "noann", "id": "", "args": []}


def _rename(x: Any, old: str, new: str) -> Any:
    """The realised class of case i is C_<i>; the model calls it C (and a lambda written in its body <lambda>)."""
    if isinstance(x, dict):
        return {k: (new if k == "n" and v == old else "obj:<lambda>" if k == "n" and v == f"obj:{old}.<lambda>" else _rename(v, old, new))
                for k, v in x.items()}
    if isinstance(x, list):
        return [_rename(v, old, new) for v in x]
    return x


def _insp(f: Any, **kw: Any) -> list[list[str]]:
    return [[p.name, p.kind.name, "nodefault" if p.default is inspect.Parameter.empty else "default"]
            for p in inspect.signature(f, **kw).parameters.values()]


def _sig(obj: Any) -> dict:
    try:
        with contextlib.redirect_stderr(io.StringIO()):
            return describe_signature(pyz.get_checker().get_signature(obj))
    except Exception as exc:
        return raised(exc)


def _method_header(h: dict, shape: str) -> dict:
    if shape == "staticmethod":
        return h
    kind = "POSITIONAL_ONLY" if h["params"] and h["params"][0]["kind"] == "POSITIONAL_ONLY" else "POSITIONAL_OR_KEYWORD"
    first = {"name": "cls" if shape == "classmethod" else "self", "kind": kind, "ann": _NOANN, "dflt": "none"}
    return dict(h, params=[first] + list(h["params"]))


def observe_shapes(arg: tuple[int, list[dict]]) -> list[dict]:
    from .drivers import c13 as base

    start, cases = arg
    obs: list[dict] = []
    for future in (False, True):
        group = [(i, c) for i, c in enumerate(cases) if bool(c["h"]["future"]) == future]
        if not group:
            continue
        d = base._Src((base.FUTURE if future else "") + base.PRELUDE + SHAPES_PRELUDE)
        want_d: dict[int, tuple] = {}
        sig_line: dict[int, int] = {}
        body_line: dict[int, tuple[int, int]] = {}
        fam: dict[int, tuple[dict, list[dict]]] = {}
        for i, c in group:
            h, shape = c["h"], c["shape"]
            callh = INNER_HEADER if shape == "retyped" else h
            fam[i] = (callh, c["calls"])
            kw = "async def" if h["isasync"] else "def"
            if shape in METHOD_SHAPES:
                mh = _method_header(h, shape)
                d.add(f"class C_{i}:\n")
                if shape != "method":
                    d.add(f"    @{shape}\n")
                d.add(f"    {kw} m{base.render_header(mh)}:\n")
                for j, p in enumerate(mh["params"]):
                    body_line[d.add(f"        reveal_type({p['name']})\n")] = (i, j)
                if not mh["params"]:
                    d.add("        pass\n")
                d.add(f"def caller_{i}() -> None:\n")
                for ci, call in enumerate(c["calls"]):
                    args = base.render_call(h, call)
                    want_d[d.add(f"    reveal_type(C_{i}().m({args}))\n")] = ("definst", i, ci)
                    via = f"C_{i}(), {args}".rstrip(", ") if shape == "method" else args
                    want_d[d.add(f"    reveal_type(C_{i}.m({via}))\n")] = ("defcls", i, ci)
            else:
                hdr = base.render_header(h)
                deco = {"wraps": "@deco\n", "retyped": "@retype\n", "generator": ""}[shape]
                body = "\n    yield 1\n" if shape == "generator" else " ...\n"
                if deco:
                    d.add(deco)
                d.add(f"{kw} h_{i}{hdr}:{body}")
                d.add(f"def outer_{i}() -> None:\n")
                if deco:
                    d.add("    " + deco)
                d.add(f"    {kw} g_{i}{hdr}:{body.replace(chr(10) + '    ', chr(10) + '        ')}")
                sig_line[d.add(f"    reveal_type(g_{i})\n")] = i
                for ci, call in enumerate(c["calls"]):
                    want_d[d.add(f"    reveal_type(g_{i}({base.render_call(callh, call)}))\n")] = ("nested", i, ci)
                d.add(f"def caller_{i}() -> None:\n")
                for ci, call in enumerate(c["calls"]):
                    want_d[d.add(f"    reveal_type(h_{i}({base.render_call(callh, call)}))\n")] = ("defmod", i, ci)
            d.end_chunk()
        dsrc = d.text()
        dmod = base.make_module_chunks(d.chunks, future)
        sys.modules[dmod.__name__] = dmod
        try:
            res_d, dtree = base._context_results(dsrc, dmod, want_d)
            sigdef: dict[int, dict] = {}
            bodies: dict[int, dict[int, dict]] = {}
            for node in ast.walk(dtree):
                if isinstance(node, ast.Expr) and isinstance(node.value, ast.Call) and getattr(node.value.func, "id", None) == "reveal_type":
                    iv = getattr(node.value.args[0], "inferred_value", None)
                    if node.lineno in sig_line:
                        sig = getattr(iv, "signature", None)
                        sigdef[sig_line[node.lineno]] = describe_signature(sig) if sig is not None else describe_value(iv)
                    elif node.lineno in body_line:
                        i, j = body_line[node.lineno]
                        bodies.setdefault(i, {})[j] = describe_value(iv) if iv is not None else V("Other", "no-inferred-value")
            names = ["A", "TimeoutError"] + [(f"C_{i}" if c["shape"] in METHOD_SHAPES else f"h_{i}") for i, c in group]
            m = base._Src(f"from typing_extensions import reveal_type\nfrom {dmod.__name__} import {', '.join(names)}\n")
            want_i: dict[int, tuple] = {}
            for i, c in group:
                callh, calls = fam[i]
                m.add(f"def caller_{i}() -> None:\n")
                for ci, call in enumerate(calls):
                    args = base.render_call(callh, call)
                    if c["shape"] in METHOD_SHAPES:
                        want_i[m.add(f"    reveal_type(C_{i}().m({args}))\n")] = ("impinst", i, ci)
                        via = f"C_{i}(), {args}".rstrip(", ") if c["shape"] == "method" else args
                        want_i[m.add(f"    reveal_type(C_{i}.m({via}))\n")] = ("impcls", i, ci)
                    else:
                        want_i[m.add(f"    reveal_type(h_{i}({args}))\n")] = ("importer", i, ci)
                if not calls:
                    m.add("    pass\n")
            m.end_chunk()
            imod = base.make_module_chunks([m.text()], False)
            res_i, _ = base._context_results(m.text(), imod, want_i)
            for i, c in group:
                h, shape = c["h"], c["shape"]
                o: dict[str, Any] = {"tid": start + i, "c": {"h": h, "shape": shape}}
                contexts = ("definst", "defcls", "impinst", "impcls") if shape in METHOD_SHAPES else ("nested", "defmod", "importer")
                calls = []
                for ci, call in enumerate(c["calls"]):
                    try:
                        calls.append({**call, **{k: (res_i if k.startswith("imp") else res_d)[(k, i, ci)] for k in contexts}})
                    except KeyError as exc:
                        raise core.MachineryError(f"missing call result {exc} for shape case {shape} {base.render_header(h)}") from exc
                o["calls"] = calls
                if shape in METHOD_SHAPES:
                    cls = getattr(dmod, f"C_{i}")
                    inst = cls()
                    o["inspC"], o["inspI"] = _insp(cls.m), _insp(inst.m)
                    o["sigC"], o["sigI"] = _sig(cls.m), _sig(inst.m)
                    nb = len(_method_header(h, shape)["params"])
                    got = bodies.get(i, {})
                    if sorted(got) != list(range(nb)):
                        raise core.MachineryError(f"missing reveal_type results inside the body of {shape} {base.render_header(h)}: {sorted(got)}")
                    o["body"] = [got[j] for j in range(nb)]
                else:
                    f = getattr(dmod, f"h_{i}")
                    o["insp"] = _insp(f, follow_wrapped=False)
                    o["sigrt"] = _sig(f)
                    o["sigdef"] = sigdef.get(i, V("Other", "no-signature"))
                o = _rename(o, f"C_{i}", "C")
                o["src"] = f"{shape}: {base.render_header(h)}" + (" async" if h["isasync"] else "") + (" future" if future else "")
                obs.append(o)
        finally:
            sys.modules.pop(dmod.__name__, None)
    obs.sort(key=lambda o: o["tid"])
    return obs
