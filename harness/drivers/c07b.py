"""C07, entry points -- overrides, `Callable[[..], R]` parameters, protocol methods (spec/CallableRoutes.tla).

S->C: every case TLC enumerates is realised as real classes / functions in one exec'd module per chunk; the REAL
VISITOR (incompatible_override enabled) checks that module, and the same runtime objects are then REALLY CALLED:
for an override `B_i.f(inst, ..)` for every base class that defines f and `inst.f(..)` on an instance of the derived
class, with every call shape (<= 3 positionals after the receiver, <= 3 keywords over all parameter names, `self` and
one foreign name); for a protocol `P.f(k, ..)` / `k.f(..)` with k = K(); for a Callable parameter `f(..)` / `g(..)`.
C->S: spec/trace/CallableRoutesTrace.tla validates the oracle model (CPythonBind) against those calls, judges the
diagnostics and compares them with the implementation model.  This file only records.
"""
from __future__ import annotations

import itertools
import random
import re
from typing import Any, Optional

from .. import core, pyz
from .c05 import adjudicate_parallel
from .c07 import ANY, EXTRA, MAXKW, MAXPOS, RANK_NAME, _WHY, def_source

SETTINGS = {"incompatible_override": True}
PRELUDE = (
    "from typing import Any, Callable, Protocol\n"
    "def _rec(x: object) -> Any: return x\n"
    "class A: pass\nclass B(A): pass\nclass C(B): pass\nclass U: pass\n_c = C()\n_u = U()\n"
)
BODY = "return _rec(locals())"

ROUTE_ACTIONS = {
    "override": ["Ovr_NoBaseAttr", "Ovr_BaseUnbound", "Ovr_ChildNoSelf", "Ovr_Compatible", "Ovr_Incompatible",
                 "Ovr_Exhausted", "Ovr_Ignored"],
    "callable": ["Cbl_Ellipsis", "Cbl_Signature"],
    "protocol": ["Pro_ExpectedUnbound", "Pro_ActualUnbound", "Pro_Signature"],
}
GEN_ACTIONS = ["ChooseRoute", "NewBase", "AddBaseParam", "EndBase", "NewChild", "AddChildParam", "EndChild"]

_RE_BASE = re.compile(r"incompatible with base class <class '[\w.]*\.H(\d+)_B(\d+)'>")


def _why(detail: str) -> str:
    """The class of the CanAssignError a diagnostic carries (its first line that one of the known patterns matches)."""
    for line in detail.splitlines():
        t = line.strip()
        if t.endswith("is missing a 'self' argument"):
            return "ChildNoSelf"
        for rx, c in _WHY:
            if rx.search(t):
                return c
    return detail.strip()[:200]


def _method(m: dict, name: str) -> str:
    return "    " + def_source(m["sig"], m["ret"], name, BODY)


def _ann(rank: int) -> str:
    return "Any" if rank == ANY else RANK_NAME[rank]


# ----------------------------------------------------------------------------- real calls


def _targets(sig: list[dict], posvals: list, keys: tuple, got: dict) -> tuple[list[int], list[int]]:
    index = {p["name"]: i + 1 for i, p in enumerate(sig)}
    va = next((p["name"] for p in sig if p["kind"] == "va"), None)
    vk = next((p["name"] for p in sig if p["kind"] == "vk"), None)
    pt, kt = [], []
    for v in posvals:
        hit = [nm for nm, val in got.items() if nm not in (va, vk) and val is v]
        if hit:
            pt.append(index[hit[0]])
        elif va is not None and any(x is v for x in got[va]):
            pt.append(index[va])
        else:
            pt.append(0)
    for j, k in enumerate(keys):
        v = _KWVALS[j]
        if k in got and k not in (va, vk) and got[k] is v:
            kt.append(index[k])
        elif vk is not None and got[vk].get(k) is v:
            kt.append(index[vk])
        else:
            kt.append(0)
    return pt, kt


class _Tok:
    """A distinct argument object (compared by identity only)."""

    __slots__ = ("n",)

    def __init__(self, n: int) -> None:
        self.n = n


_POSVALS = [_Tok(100 + j) for j in range(MAXPOS + 1)]
_KWVALS = [_Tok(200 + j) for j in range(MAXKW + 1)]


def _bound_shapes(fn, sig: list[dict], recv: list, pass_recv: bool, keysets: list[tuple]) -> tuple[list, int]:
    """Call fn with every shape; the shapes CPython binds, with the parameter every argument landed in.
    recv = [instance] on a method route: passed explicitly (B.f(inst, ..)) or implied by a bound method
    (inst.f(..)); the recorded number of positionals counts it either way."""
    bound, total = [], 0
    for n in range(MAXPOS + 1):
        pos = recv + _POSVALS[:n]
        given = pos if pass_recv else _POSVALS[:n]
        for ks in keysets:
            total += 1
            try:
                got = fn(*given, **{k: _KWVALS[j] for j, k in enumerate(ks)})
            except TypeError:
                continue
            if not isinstance(got, dict):
                raise core.MachineryError(f"realised function returned {got!r}")
            pt, kt = _targets(sig, pos, ks, got)
            bound.append([len(pos), list(ks), pt, kt])
    return bound, total


def _names(case: dict) -> list[str]:
    nm = {p["name"] for b in case["bases"] for p in b["sig"]} | {p["name"] for p in case["child"]["sig"]} | {EXTRA}
    return sorted(nm)


def _chain(case: dict, ns: dict) -> list:
    cls = {0: ns["C"], 1: ns["B"], 2: ns["A"], 3: object, 5: ns["U"]}
    ranks = {p["ty"] for b in case["bases"] for p in b["sig"]} | {p["ty"] for p in case["child"]["sig"]}
    ranks |= {b["ret"] for b in case["bases"]} | {case["child"]["ret"]}
    ranks = sorted(r for r in ranks if r != ANY)
    return [[r1, r2, issubclass(cls[r1], cls[r2])] for r1 in ranks for r2 in ranks]


def _calls(case: dict, expected_fns: list, actual_fn, recv: list, ns: dict) -> dict:
    """expected_fns[i]: the plain function object (None for a base class that does not define the method), called
    with the receiver as explicit first argument; actual_fn: the bound method of the instance (method routes) or
    the function g."""
    names = _names(case)
    keysets = [ks for r in range(MAXKW + 1) for ks in itertools.combinations(names, r)]
    out: dict[str, Any] = {"maxpos": MAXPOS, "maxkw": MAXKW, "names": names, "fbs": []}
    for b, fn in zip(case["bases"], expected_fns):
        out["fbs"].append([] if fn is None else _bound_shapes(fn, b["sig"], recv, True, keysets)[0])
    out["gb"], out["total"] = _bound_shapes(actual_fn, case["child"]["sig"], recv, False, keysets)
    out["chain"] = _chain(case, ns)
    return out


# ----------------------------------------------------------------------------- realisation, one module per chunk


def _check(src: str, checker=None):
    mod = pyz.make_module(src)
    fails = pyz.check_source(src, settings=SETTINGS, module=mod, checker=checker)
    return mod, fails


def _override_chunk(part: list[tuple[int, dict]]) -> list[dict]:
    lines = PRELUDE.splitlines()
    site: dict[int, int] = {}          # line of `def f` in the derived class -> position in part
    tolerated: set[int] = set()        # lines of `def f` in base classes (they override each other in a chain)
    for j, (_tid, c) in enumerate(part):
        for k, b in enumerate(c["bases"], start=1):
            par = ", ".join(f"H{j}_B{p}" for p in c["parents"][k - 1])
            lines.append(f"class H{j}_B{k}({par}):" if par else f"class H{j}_B{k}:")
            if b["def"]:
                lines.append(_method(b, c["name"]))
                tolerated.add(len(lines))
            else:
                lines.append("    pass")
        lines.append(f"class H{j}_C({', '.join(f'H{j}_B{p}' for p in c['cpar'])}):")
        lines.append(_method(c["child"], c["name"]))
        site[len(lines)] = j
    src = "\n".join(lines) + "\n"
    try:
        mod, fails = _check(src)
    except SyntaxError as exc:
        raise core.MachineryError(f"generated hierarchy is not valid Python: {exc}\n{src}")
    real = [{"verdict": "ok", "report": 0, "why": "", "reports": 0} for _ in part]
    for f in fails:
        code, lineno = getattr(f.get("code"), "name", None), f.get("lineno")
        if code == "incompatible_override" and lineno in tolerated:
            continue
        if code != "incompatible_override" or lineno not in site:
            raise core.MachineryError(f"realisation raised unexpected diagnostic {code} at line {lineno}:\n{f.get('message')}\n{src}")
        j = site[lineno]
        m = _RE_BASE.search(f["message"])
        if not m or int(m.group(1)) != j:
            raise core.MachineryError(f"cannot read the base class off the diagnostic: {f['message']}")
        real[j]["reports"] += 1
        if real[j]["report"] == 0:
            real[j].update(verdict="err", report=int(m.group(2)), why=_why(f["message"]))
    checker = pyz.get_checker(SETTINGS)
    out = []
    for j, (tid, c) in enumerate(part):
        bases = [getattr(mod, f"H{j}_B{k}") for k in range(1, len(c["bases"]) + 1)]
        derived = getattr(mod, f"H{j}_C")
        inst = derived()
        fns = [b_cls.__dict__[c["name"]] if b["def"] else None for b, b_cls in zip(c["bases"], bases)]
        index = {cls: k + 1 for k, cls in enumerate(bases)}
        order = [index[t] for t in checker.arg_spec_cache.get_generic_bases(derived) if t in index]
        mro = [index[t] for t in derived.__mro__ if t in index]
        out.append({"tid": tid, "case": c, "real": real[j], "fresh": "none", "order": order, "mro": mro,
                    **_calls(c, fns, getattr(inst, c["name"]), [inst], mod.__dict__)})
    return out


def _callable_type(c: dict) -> str:
    b = c["bases"][0]
    params = "..." if c["ell"] else "[" + ", ".join(_ann(p["ty"]) for p in b["sig"]) + "]"
    return f"Callable[{params}, {_ann(b['ret'])}]"


def _callable_chunk(part: list[tuple[int, dict]]) -> list[dict]:
    lines = PRELUDE.splitlines()
    for j, (_tid, c) in enumerate(part):
        lines.append(def_source(c["bases"][0]["sig"], c["bases"][0]["ret"], f"f{j}", BODY))   # realises the expected type
        lines.append(def_source(c["child"]["sig"], c["child"]["ret"], f"g{j}", BODY))
        lines.append(f"def use{j}(cb: {_callable_type(c)}) -> None: pass")
    lines.append("def caller() -> None:")
    first = len(lines) + 1
    lines += [f"    use{j}(g{j})" for j in range(len(part))]
    src = "\n".join(lines) + "\n"
    mod, fails = _check(src)
    real = [{"verdict": "ok", "report": 0, "why": "", "reports": 0} for _ in part]
    for f in fails:
        code, lineno = getattr(f.get("code"), "name", None), f.get("lineno")
        if code != "incompatible_argument" or lineno is None or not (first <= lineno < first + len(part)):
            raise core.MachineryError(f"realisation raised unexpected diagnostic {code} at line {lineno}:\n{f.get('message')}\n{src}")
        real[lineno - first].update(verdict="err", report=1, why=_why(f["message"]), reports=1)
    return [{"tid": tid, "case": c, "real": real[j], "fresh": "none", "order": [], "mro": [],
             **_calls(c, [getattr(mod, f"f{j}")], getattr(mod, f"g{j}"), [], mod.__dict__)}
            for j, (tid, c) in enumerate(part)]


def _protocol_source(part: list[tuple[int, dict]]) -> tuple[str, int, list[tuple[int, int]]]:
    """Equal protocol / class definitions are shared between the cases of a chunk, so that the same K is matched
    against several protocols and the same protocol against several classes by ONE Checker (its positive cache)."""
    lines = PRELUDE.splitlines()
    ps: dict[str, int] = {}
    ks: dict[str, int] = {}
    pairs = []
    for _tid, c in part:
        pk, kk = core.canon(c["bases"][0]), core.canon(c["child"])
        if pk not in ps:
            ps[pk] = len(ps)
            lines += [f"class P{ps[pk]}(Protocol):", _method(c["bases"][0], "f"),
                      f"def use{ps[pk]}(p: P{ps[pk]}) -> None: pass"]
        if kk not in ks:
            ks[kk] = len(ks)
            lines += [f"class K{ks[kk]}:", _method(c["child"], "f")]
        pairs.append((ps[pk], ks[kk]))
    lines.append("def caller() -> None:")
    first = len(lines) + 1
    lines += [f"    use{p}(K{k}())" for p, k in pairs]
    return "\n".join(lines) + "\n", first, pairs


def _protocol_verdicts(src: str, first: int, n: int, checker=None):
    mod, fails = _check(src, checker)
    real = [{"verdict": "ok", "report": 0, "why": "", "reports": 0} for _ in range(n)]
    for f in fails:
        code, lineno = getattr(f.get("code"), "name", None), f.get("lineno")
        if code != "incompatible_argument" or lineno is None or not (first <= lineno < first + n):
            raise core.MachineryError(f"realisation raised unexpected diagnostic {code} at line {lineno}:\n{f.get('message')}\n{src}")
        real[lineno - first].update(verdict="err", report=1, why=_why(f["message"]), reports=1)
    return mod, real


def _protocol_chunk(arg: tuple[list[tuple[int, dict]], list[int]]) -> list[dict]:
    part, fresh_idx = arg
    src, first, pairs = _protocol_source(part)
    mod, real = _protocol_verdicts(src, first, len(part))
    fresh = ["none"] * len(part)
    for j in fresh_idx:     # the same pair alone, under a Checker that has seen nothing else
        s1, f1, _ = _protocol_source([part[j]])
        fresh[j] = _protocol_verdicts(s1, f1, 1, pyz.get_checker(SETTINGS, fresh=True))[1][0]["verdict"]
    out = []
    for j, (tid, c) in enumerate(part):
        p_cls, k_cls = getattr(mod, f"P{pairs[j][0]}"), getattr(mod, f"K{pairs[j][1]}")
        inst = k_cls()
        out.append({"tid": tid, "case": c, "real": real[j], "fresh": fresh[j], "order": [], "mro": [],
                    **_calls(c, [p_cls.__dict__["f"]], inst.f, [inst], mod.__dict__)})
    return out


def observe(cases: list[dict], rnd: random.Random, n_fresh: int, tid0: int = 0) -> list[dict]:
    pyz.get_checker(SETTINGS)       # create before forking
    items = list(enumerate(cases, start=tid0))
    obs: list[dict] = []
    for route, fn, size in (("override", _override_chunk, 60), ("callable", _callable_chunk, 80)):
        sel = [it for it in items if it[1]["route"] == route]
        chunks = [sel[i : i + size] for i in range(0, len(sel), size)]
        for res in core.pmap(fn, chunks, chunk=1):
            obs += res
    sel = [it for it in items if it[1]["route"] == "protocol"]
    rnd.shuffle(sel)                # mix the pairs so that a chunk re-uses protocols and classes in no fixed order
    chunks = [sel[i : i + 80] for i in range(0, len(sel), 80)]
    per = -(-n_fresh // max(1, len(chunks)))
    args = [(ch, sorted(rnd.sample(range(len(ch)), min(per, len(ch))))) for ch in chunks]
    for res in core.pmap(_protocol_chunk, args, chunk=1):
        obs += res
    return obs


# ----------------------------------------------------------------------------- adjudication


def show(c: dict) -> dict:
    if c["route"] == "callable":
        return {"expected": _callable_type(c), "actual": def_source(c["child"]["sig"], c["child"]["ret"], "g", "...")}
    out = {}
    for k, b in enumerate(c["bases"], start=1):
        who = "P" if c["route"] == "protocol" else f"B{k}({', '.join('B%d' % p for p in c['parents'][k - 1])})"
        out[who] = def_source(b["sig"], b["ret"], c["name"], "...") if b["def"] else "pass"
    who = "K" if c["route"] == "protocol" else f"C({', '.join('B%d' % p for p in c['cpar'])})"
    out[who] = def_source(c["child"]["sig"], c["child"]["ret"], c["name"], "...")
    return out


def judge(check: core.Check, cases: list[dict], label: str, rnd: Optional[random.Random] = None, n_fresh: int = 0,
          labels: Optional[list[str]] = None) -> list[dict]:
    """labels[i] (default: label) names the source of cases[i] in the payloads."""
    rnd = rnd or random.Random(0)
    obs = observe(cases, rnd, n_fresh)
    source = {i: (labels[i] if labels else label) for i in range(len(cases))}
    verdicts, stats = adjudicate_parallel("CallableRoutesTrace", "CallableRoutesTrace.cfg", obs, batch=2500, parallel=8)
    check.add_trace_stats(stats)
    check.evals(len(obs))
    counts = check.cov.setdefault("routes", {})
    for o in obs:
        c = o["case"]
        k = counts.setdefault(c["route"], {"observations": 0, "accepted": 0, "fresh_checker_observations": 0,
                                           "multi_base_accepted": 0})
        k["observations"] += 1
        k["fresh_checker_observations"] += o["fresh"] != "none"
        if o["real"]["verdict"] == "ok":
            k["accepted"] += 1
            ndef = sum(1 for b in c["bases"] if b["def"])
            k["multi_base_accepted"] += ndef >= 2
            if c["child"]["sig"] and any(b["sig"] for b in c["bases"]):
                check.nontrivial(core.canon(c))
        for v in verdicts.get(o["tid"], []):
            payload = {"case": c, **show(c), "real": o["real"], "fresh": o["fresh"], "source": source[o["tid"]],
                       "expected_binds": [[b[:2] for b in fb] for fb in o["fbs"]], "actual_binds": [b[:2] for b in o["gb"]]}
            if v.startswith("viol:"):
                check.violation(core.canon(c), v[5:], payload)
            elif v.startswith("dev:"):
                check.violation(v[4:], v[4:], payload)
            elif v.startswith("drift:"):
                check.drift({"verdict": v, **payload})
            else:
                raise core.MachineryError(f"{v} for {show(c)}: {o}")
    for o in obs[:: max(1, len(obs) // 3)][:3]:
        check.sample({"source": source[o["tid"]], **show(o["case"]), "real": o["real"], "fresh": o["fresh"],
                      "shapes_bound_by_expected": [len(fb) for fb in o["fbs"]], "shapes_bound_by_actual": len(o["gb"])}, limit=12)
    return obs


# ----------------------------------------------------------------------------- the slices of a tier

# (cfg, replay limit quick, replay limit thorough): the exhaustive configurations of CallableRoutes.tla
QUICK_CFGS = [("CallableRoutes.quick.cfg", None, True), ("CallableRoutes.quickself.cfg", 2000, True),
              ("CallableRoutes.quicktyped.cfg", 1500, False)]
THOROUGH_CFGS = [("CallableRoutes.thorough1.cfg", None, False),
                 ("CallableRoutes.thorough2.cfg", 30000, False), ("CallableRoutes.thorough3.cfg", 25000, False),
                 ("CallableRoutes.thoroughself.cfg", 25000, False), ("CallableRoutes.thoroughpc.cfg", 20000, False),
                 ("CallableRoutes.thoroughtyped.cfg", 25000, False)]
SENSITIVITY = [("CallableRoutes.sens_first.cfg", "OverrideSound"), ("CallableRoutes.sens_child.cfg", "OverrideSound"),
               ("CallableRoutes.sens_callable.cfg", "CallableParamSound"),
               # the behaviour before /repo a15c614 (a method that cannot receive the instance accepted for a protocol)
               ("CallableRoutes.sens_protocol.cfg", "ProtocolSound"),
               ("CallableRoutes.strict.cfg", "ProtocolSoundStrict")]


def _sample_by_route(res: core.TLCResult, limit: Optional[int], rnd: random.Random) -> tuple[list[dict], int]:
    """The emitted cases; when there are more than `limit`, every callable-route case (there are few) and a random
    sample of the others, half of it drawn from the cases with two or more defining base classes."""
    import json

    lines = [ln for ln in res.stdout.splitlines() if ln.startswith('"{')]
    total = len(lines)
    if limit is None or total <= limit:
        return [json.loads(json.loads(ln)) for ln in lines], total
    small = [ln for ln in lines if '\\"route\\":\\"callable\\"' in ln]
    rest = [ln for ln in lines if '\\"route\\":\\"callable\\"' not in ln]
    if len(small) > limit // 4:
        small = rnd.sample(small, limit // 4)
    multi = [ln for ln in rest if ln.count('\\"def\\":true') >= 2]
    single = [ln for ln in rest if ln.count('\\"def\\":true') < 2]
    n = limit - len(small)
    take_multi = min(len(multi), n // 2 if single else n)
    take_single = min(len(single), n - take_multi)
    picked = small + rnd.sample(multi, take_multi) + rnd.sample(single, take_single)
    return [json.loads(json.loads(ln)) for ln in picked], total


def run_slices(check: core.Check, quick: bool, rnd: random.Random) -> dict:
    from concurrent.futures import ThreadPoolExecutor

    check.assumptions += [
        "entry points (CallableRoutes.tla): method calls pass the receiver as first positional argument (data model 3.2), "
        "so 'b.f(..) binds' is RefBinds on the full parameter list; validated in every run by really calling B_i.f(inst, ..) "
        "and inst.f(..) on an instance of the derived class (resp. P.f(k, ..), k.f(..); f(..), g(..)) for every call shape",
        "override hierarchies are diamond-free: one base, chains of 2-3, 2-3 unrelated bases, and a chain of two beside an "
        "unrelated base in both orders; every base class optionally defines the method; names of the documented option "
        "ignored_for_incompatible_overrides are outside the property; Callable[..., R] promises nothing about arguments",
        "the realisation of a Callable[[T1, ..], R] type for the real calls is a def with positional-only parameters",
    ]
    cfgs = QUICK_CFGS if quick else QUICK_CFGS[:2] + THOROUGH_CFGS

    def model(item):
        cfg, _limit, cov = item
        for _ in range(50):
            try:
                return core.run_tlc("CallableRoutesEmit", cfg, coverage=cov, workers=4 if quick else core.NCPU, timeout=3000)
            except FileExistsError:
                continue
        raise core.MachineryError("could not create a scratch directory for TLC")

    def sens(item):
        scfg, _inv = item
        for _ in range(50):
            try:
                return core.run_tlc("CallableRoutes", scfg, timeout=600, workers=2)
            except FileExistsError:
                continue
        raise core.MachineryError("could not create a scratch directory for TLC")

    fired: dict[str, int] = {}
    batches: list[tuple[str, list[dict], int]] = []

    def take(item, res: core.TLCResult) -> None:
        cfg, limit, _cov = item
        core.require_ok(res, "CallableRoutes " + cfg)
        check.add_tlc(("exhaustive+coverage:" if res.coverage else "exhaustive:") + cfg, res)
        for a, (_n, cnt) in res.coverage.items():
            fired[a] = fired.get(a, 0) + cnt
        cases, total = _sample_by_route(res, limit, rnd)
        batches.append((cfg, cases, total))
        res.stdout = ""      # half a million JSON lines: keep only the sample

    with ThreadPoolExecutor(4) as ex2:
        sens_f = [ex2.submit(sens, it) for it in SENSITIVITY]
        if quick:
            with ThreadPoolExecutor(3) as ex:
                for item, res in zip(cfgs, list(ex.map(model, cfgs))):
                    take(item, res)
        else:
            for item in cfgs:
                take(item, model(item))
        sens_r = [f.result() for f in sens_f]
    need = GEN_ACTIONS + [a for acts in ROUTE_ACTIONS.values() for a in acts]
    missing = [a for a in need if not fired.get(a)]
    if missing:
        raise core.MachineryError(f"CallableRoutes: TLC coverage shows never-exercised actions: {missing}")
    notes = []
    for (scfg, inv), r in zip(SENSITIVITY, sens_r):
        if r.violated != inv:
            raise core.MachineryError(f"sensitivity self-test failed: {scfg} did not violate {inv} ({r.error})")
        notes.append(f"{scfg} violates {inv}")
    # beyond the bounds: simulation over every route, hierarchy, receiver kind, 3 parameters, types
    num = 500 if quick else 12000
    sim = core.require_ok(
        core.run_tlc("CallableRoutesEmit", "CallableRoutes.sim.cfg", workers=1, simulate=f"num={num}", depth=32,
                     seed=check.seed + 11, timeout=1800),
        "CallableRoutes simulate")
    check.add_tlc("simulate:CallableRoutes.sim.cfg", sim)
    uniq = {core.canon(c): c for c in core.emitted_json(sim)}
    if len(uniq) < num // 4:
        raise core.MachineryError(f"CallableRoutes simulation produced only {len(uniq)} distinct cases")
    model_cases = sum(t for _c, _cs, t in batches)
    replayed = sum(len(cs) for _c, cs, _t in batches)
    for cfg, cases, _total in batches:
        if not cases:
            raise core.MachineryError(f"no cases emitted by TLC for {cfg}")
    allcases = [c for _cfg, cs, _t in batches for c in cs]
    sims = list(uniq.values())
    judge(check, allcases + sims, "tlc-routes", rnd=rnd, n_fresh=180 if quick else 1900,
          labels=["tlc-exhaustive-routes"] * len(allcases) + ["tlc-simulate-routes"] * len(sims))
    for r, k in check.cov.get("routes", {}).items():
        if k["accepted"] == 0 or k["accepted"] == k["observations"]:
            raise core.MachineryError(f"route {r}: the real code accepted {k['accepted']} of {k['observations']} cases (vacuous)")
    if check.cov["routes"]["override"]["multi_base_accepted"] == 0:
        raise core.MachineryError("no accepted override with two or more defining base classes was observed (vacuous)")
    return {
        "sensitivity": "; ".join(notes),
        "model_cases": model_cases,
        "replayed_cases": replayed,
        "simulated_cases": len(uniq),
        "exhaustive": all(len(cs) == t for cfg, cs, t in batches if cfg == "CallableRoutes.quick.cfg"),
        "rule": (
            "entry-point cases = states with stage=done of CallableRoutes.tla: (hierarchy of 1-3 base classes each optionally "
            "defining f, derived class overriding f) / (Callable[[..], R] or Callable[..., R], function) / (protocol method, "
            "class method), signatures over 5 parameter kinds x defaults x names x receiver kinds (self, self positional-only, "
            "none) and x type ranks (typed runs); CallableRoutes.quick.cfg (single base, chain of two, two unrelated bases; "
            "<=1 base parameter, <=2 derived parameters after self) is replayed exhaustively, the other configurations as "
            "random samples stratified by route and by number of defining bases; non-trivial = accepted case with parameters "
            "on both sides"
        ),
    }


def selftest() -> None:
    """Corrupted-observation self-test of CallableRoutesTrace.tla: each oracle clause must flag the observation that
    breaks it (and nothing else)."""
    P = lambda kind, name, dflt=False, ty=ANY: {"kind": kind, "name": name, "dflt": dflt, "ty": ty}  # noqa: E731
    S = P("pk", "self")
    M = lambda sig, ret=ANY, selfk="pk", d=True: {"def": d, "selfk": selfk, "sig": sig, "ret": ret}  # noqa: E731
    K = lambda sig, ret=ANY, selfk="pk": {"selfk": selfk, "sig": sig, "ret": ret}  # noqa: E731
    ovr = lambda shape, parents, cpar, bases, child: {  # noqa: E731
        "route": "override", "shape": shape, "parents": parents, "cpar": cpar, "name": "f", "ell": False, "bases": bases, "child": child}
    other = lambda route, base, child, ell=False: {  # noqa: E731
        "route": route, "shape": route, "parents": [], "cpar": [], "name": "f", "ell": ell, "bases": [base], "child": child}
    accepted = {"verdict": "ok", "report": 0, "why": "", "reports": 0}
    # C(B1, B2): compatible with B1.f(self), not with B2.f(self, a=0)
    mi = ovr("multi2", [[], []], [1, 2], [M([S]), M([S, P("pk", "a", True)])], K([S]))
    typed = ovr("single", [[]], [1], [M([S, P("pk", "a", ty=1)], ret=1)], K([S, P("pk", "a", ty=1)], ret=2))
    cases = [
        mi,
        mi,
        other("callable", M([P("po", "a")], selfk="none"), K([P("pk", "a"), P("pk", "b")], selfk="none")),
        typed,
        other("protocol", M([S, P("pk", "a")]), K([S, P("pk", "a"), P("pk", "b", True)])),
        other("protocol", M([S]), K([], selfk="none")),
        other("protocol", M([P("po", "self"), P("vk", "a")], selfk="po"), K([S, P("vk", "a")])),
        other("protocol", M([S]), K([], selfk="none")),
    ]
    obs = observe(cases, random.Random(0), n_fresh=0)
    obs.sort(key=lambda o: o["tid"])
    names = ["unchanged C(B1, B2) reported against B2", "the report against the second base dropped (stop at the nearest base)",
             "rejected Callable[[Any], Any] <- g(a, b) recorded as accepted", "return type widened in the override, recorded as accepted",
             "a shape CPython bound for K.f removed", "protocol member without self (rejected since /repo a15c614)",
             "receiver also passed as keyword self", "protocol member without self recorded as accepted (the old behaviour)"]
    if obs[0]["real"]["report"] != 2 or any(obs[j]["real"]["verdict"] != "err" for j in (2, 3, 5, 7)):
        raise core.MachineryError(f"routes self-test: unexpected real verdicts {[o['real'] for o in obs]}")
    obs[1] = dict(obs[1], real=accepted)
    obs[2] = dict(obs[2], real=accepted)
    obs[3] = dict(obs[3], real=accepted)
    obs[4] = dict(obs[4], gb=obs[4]["gb"][1:])
    obs[7] = dict(obs[7], real=accepted)
    expect = {0: [], 1: ["viol:OverrideSound", "drift:verdict"], 2: ["viol:CallableParamSound", "drift:verdict"],
              3: ["viol:TypesSound-override", "drift:verdict"], 4: ["oracle:actual-binds"],
              5: [], 6: ["dev:keyword-also-positional"], 7: ["viol:ProtocolSound", "drift:verdict"]}
    verdicts, _ = core.adjudicate("CallableRoutesTrace", "CallableRoutesTrace.cfg", obs)
    for o, name in zip(obs, names):
        got = verdicts.get(o["tid"], [])
        print(f"selftest-binding (routes): {name}: TLC verdicts {got}")
        if sorted(got) != sorted(expect[o["tid"]]):
            raise core.MachineryError(f"routes self-test: {name}: expected {expect[o['tid']]}, TLC said {got}")
    print("selftest-binding (routes): ok")
