"""C01 -- inferred values are sound with respect to execution.

Spec: spec/MiniPy.tla -- a TLC generator of annotated functions (statements over catalogues of
expressions / tests / patterns, parameter types from the shared term universe, argument tuples =
Members of the declared types computed by TLC) and the acceptance condition Sound (Member(value,
inferred type) at every evaluated node).  Every generated function is (a) checked by the real visitor
with annotate=True, (b) instrumented and executed under CPython with every argument tuple; the recorded
(node, runtime value, inferred type) events are validated by TLC (MiniPyTrace.tla).
"""
from __future__ import annotations

import ast
import copy
import random
from typing import Any

from .. import codec, core, pyz

LEVEL = "exploration"

PRELUDE = codec.PRELUDE + '''from typing import TypeVar
T = TypeVar("T")
U = TypeVar("U")

def ident(a: T) -> T:
    return a

def first(a: Sequence[T]) -> T:
    return a[0]

def pair(a: T, b: U) -> tuple[T, U]:
    return (a, b)

def maybe(a: T) -> Optional[T]:
    return a if a else None

def tolist(a: T) -> list[T]:
    return [a]
'''
STEP_LIMIT = 400
RECORDED = (ast.Name, ast.Subscript, ast.Call, ast.BinOp, ast.IfExp, ast.BoolOp, ast.Compare, ast.Tuple, ast.List,
            ast.Dict, ast.Attribute, ast.UnaryOp)


def render_block(block: list[dict], ind: int, out: list[str]) -> None:
    pad = "    " * ind
    for s in block:
        k = s["k"]
        if k == "assign":
            out.append(f"{pad}{s['t']} = {s['e']}")
        elif k == "expr":
            out.append(f"{pad}{s['e']}")
        elif k == "return":
            out.append(f"{pad}return {s['e']}")
        elif k == "if":
            out.append(f"{pad}if {s['hdr']}:")
            render_block(s["parts"][0], ind + 1, out)
            if len(s["parts"]) > 1:
                out.append(f"{pad}else:")
                render_block(s["parts"][1], ind + 1, out)
        elif k == "while":
            out.append(f"{pad}while {s['hdr']}:")
            render_block(s["parts"][0], ind + 1, out)
        elif k == "for":
            out.append(f"{pad}for e in {s['hdr']}:")
            render_block(s["parts"][0], ind + 1, out)
        elif k == "try":
            out.append(f"{pad}try:")
            render_block(s["parts"][0], ind + 1, out)
            out.append(f"{pad}except Exception:")
            render_block(s["parts"][1], ind + 1, out)
            if len(s["parts"]) > 2:
                out.append(f"{pad}finally:")
                render_block(s["parts"][2], ind + 1, out)
        elif k == "match":
            out.append(f"{pad}match x:")
            for pat, body in zip(s["hdr"], s["parts"]):
                out.append(f"{pad}    case {pat}:")
                render_block(body, ind + 2, out)
        else:
            raise core.MachineryError(f"cannot render {s}")


def render(case: dict) -> str:
    ax = codec.term_to_annotation(case["tx"])
    ay = codec.term_to_annotation(case["ty"])
    lines = [f"def f(x: {ax}, y: {ay}):", "    v = 0", "    e = a = b = c = rest = None"]
    render_block(case["prog"], 1, lines)
    return PRELUDE + "\n" + "\n".join(lines) + "\n"


class _Stop(Exception):
    pass


class _Instrument(ast.NodeTransformer):
    """Wraps every recorded expression node of f's body in __rec__(index, <expr>)."""

    def __init__(self) -> None:
        self.nodes: list[ast.AST] = []

    def visit_Call(self, node: ast.Call) -> Any:
        # do not wrap the callee name itself (its value is a function object, which is not judged)
        new_args = [self.visit(a) for a in node.args]
        new_kw = [ast.keyword(arg=k.arg, value=self.visit(k.value)) for k in node.keywords]
        func = node.func if isinstance(node.func, ast.Name) else self.visit(node.func)
        inner = ast.Call(func=func, args=new_args, keywords=new_kw)
        return self._wrap(node, inner)

    def _wrap(self, orig: ast.AST, new: ast.AST) -> ast.AST:
        self.nodes.append(orig)
        call = ast.Call(func=ast.Name(id="__rec__", ctx=ast.Load()),
                        args=[ast.Constant(value=len(self.nodes) - 1), new], keywords=[])
        return ast.copy_location(call, orig)

    def generic_visit(self, node: ast.AST) -> ast.AST:
        if isinstance(node, (ast.match_case,)):
            # patterns are not expressions; only guards and bodies are visited
            node.body = [self.visit(s) for s in node.body]
            if node.guard is not None:
                node.guard = self.visit(node.guard)
            return node
        if isinstance(node, ast.Starred):
            node.value = self.visit(node.value)
            return node
        orig = node
        if isinstance(node, RECORDED) and isinstance(getattr(node, "ctx", ast.Load()), ast.Load):
            new = super().generic_visit(copy.copy(node))
            return self._wrap(orig, new)
        return super().generic_visit(node)


def encode_inferred(value: Any):
    try:
        t = codec.value_to_term(value)
    except core.MachineryError:
        return None
    return None if _has_other(t) else t


def _too_deep(x: Any, d: int = 0) -> bool:
    if d > 3:
        return True
    if isinstance(x, (list, tuple, set)):
        return any(_too_deep(e, d + 1) for e in x)
    if isinstance(x, dict):
        return any(_too_deep(k, d + 1) or _too_deep(v, d + 1) for k, v in x.items())
    return False


def _has_other(t: Any) -> bool:
    if isinstance(t, dict):
        if t.get("c") == "other" or t.get("v") == "other" and t.get("c") == "type":
            return True
        if t.get("k") == "typevar":       # Member is not defined on unsolved type variables
            return True
        return any(_has_other(v) for v in t.values())
    if isinstance(t, list):
        return any(_has_other(v) for v in t)
    return False


def observe_case(arg: tuple[int, dict]) -> list[dict]:
    base_tid, case = arg
    src = render(case)
    try:
        tree = ast.parse(src)
    except SyntaxError as exc:
        raise core.MachineryError(f"generated function is not valid syntax: {exc}\n{src}")
    try:
        fails, visitor, checked_tree = pyz.check_source(src, annotate=True, want_visitor=True)
    except Exception as exc:  # noqa: BLE001   (a crash is a C12 matter; here the case is just unusable)
        return [{"tid": base_tid, "evals": [], "note": f"checker raised {type(exc).__name__}", "src": src}]
    # inferred values by source position (the annotated nodes themselves cannot be deep-copied: their inferred
    # values may reference the visitor)
    by_pos: dict[tuple, Any] = {}
    for nd in ast.walk(checked_tree.body[-1]):
        if hasattr(nd, "inferred_value") and hasattr(nd, "lineno"):
            by_pos[(type(nd).__name__, nd.lineno, nd.col_offset, nd.end_lineno, nd.end_col_offset)] = nd.inferred_value
    fresh = ast.parse(src)
    fdef = fresh.body[-1]
    inst = _Instrument()
    fdef.body = [inst.visit(s) for s in fdef.body]
    module = fresh
    ast.fix_missing_locations(module)
    inferred = []
    for nd in inst.nodes:
        key = (type(nd).__name__, nd.lineno, nd.col_offset, nd.end_lineno, nd.end_col_offset)
        inferred.append(encode_inferred(by_pos[key]) if key in by_pos else None)
    out = []
    combos = [(ax, ay) for ax in case["argsx"] for ay in case["argsy"]]
    rnd = random.Random(base_tid)
    if len(combos) > 6:
        combos = rnd.sample(combos, 6)
    code = compile(module, "<c01>", "exec", dont_inherit=True)
    for j, (ax, ay) in enumerate(combos):
        events: list[list] = []
        state = {"n": 0}

        def rec(i: int, value: Any, _events=events, _state=state) -> Any:
            _state["n"] += 1
            if _state["n"] > STEP_LIMIT:
                raise _Stop()
            inf = inferred[i]
            if inf is None or len(_events) >= 80 or _too_deep(value):
                return value
            obj = codec.py_to_obj(value)
            if not _has_other(obj):
                _events.append([i, obj, inf])
            return value

        ns: dict[str, Any] = {"__rec__": rec}
        try:
            exec(code, ns)
            ns["f"](codec.obj_to_py(ax), codec.obj_to_py(ay))
        except BaseException:  # noqa: BLE001  the program may raise; everything evaluated before still counts
            pass
        if events:
            out.append({"tid": base_tid + j, "evals": events, "args": [ax, ay], "src": src, "case": case,
                        "nodes": {str(i): ast.unparse(inst.nodes[i]) for i in {e[0] for e in events}}})
    return out


def judge(check: core.Check, cases: list[dict], label: str) -> None:
    parts = core.pmap(observe_case, [(i * 10, c) for i, c in enumerate(cases)], chunk=25)
    obs = [o for p in parts for o in p if o.get("evals")]
    slim = [{"tid": o["tid"], "evals": o["evals"], "tx": o["case"]["tx"], "ty": o["case"]["ty"], "prog": o["case"]["prog"]}
            for o in obs]
    verdicts, stats = core.adjudicate("MiniPyTrace", "MiniPyTrace.cfg", slim, batch=4000, parallel=8)
    check.add_trace_stats(stats)
    check.evals(len(obs))
    check.cov["node_evaluations_judged"] = check.cov.get("node_evaluations_judged", 0) + sum(len(o["evals"]) for o in obs)
    by_tid = {o["tid"]: o for o in obs}
    for tid, vs in verdicts.items():
        o = by_tid[tid]
        for v in set(vs):
            if v.startswith("dev:"):
                check.violation(v[4:], v[4:], {"case": {**o["case"], "argsx": [o["args"][0]], "argsy": [o["args"][1]]},
                                               "src": o["src"], "args": o["args"], "source": label})
            elif v.startswith("viol:"):
                clause, _, idx = v[5:].partition(":")
                bad = [o["evals"][int(idx) - 1]]
                node = str(bad[0][0])
                key = core.canon({"src": o["src"].split("def f(")[1], "node": o["nodes"].get(node), "args": o["args"]})
                check.violation(key, clause, {"case": {**o["case"], "argsx": [o["args"][0]], "argsy": [o["args"][1]]},
                                              "src": o["src"], "args": o["args"], "node": o["nodes"].get(node),
                                              "event": bad, "source": label})
    for o in obs:
        check.nontrivial(o["src"])
    for o in obs[:: max(1, len(obs) // 3)][:3]:
        check.sample({"source": label, "src": o["src"].split("def f(")[1], "args": o["args"], "evals": o["evals"][:4]})


def run(check: core.Check) -> None:
    quick = check.tier == "quick"
    rnd = random.Random(check.seed)
    check.assumptions += [
        "runtime values come from instrumented execution of the same source under CPython 3.12; values and inferred types "
        "outside the term universe (other classes, callables, TypedDict) are not judged (counted in the evidence)",
        "programs do not mutate containers; loops are cut after 400 recorded evaluations",
    ]
    em = core.require_ok(core.run_tlc("MiniPyEmit", "MiniPy.emit1.cfg", timeout=1800), "MiniPy emit")
    check.add_tlc("emit1", em)
    cases = core.emitted_json(em)
    n1 = 3000 if quick else 54000
    if len(cases) > n1:
        cases = rnd.sample(cases, n1)
    sim = core.simulate_cases("MiniPyEmit", "MiniPy.sim.cfg", 3000 if quick else 60000, depth=16, seed=check.seed + 6,
                              check=check, first_num=2)
    check.cov["exhaustive"] = False
    check.cov["rule"] = ("functions generated by TLC (every single-statement body x every pair of parameter types, sampled; longer "
                         "bodies by simulation) x argument tuples drawn by TLC from the declared types; non-trivial = distinct "
                         "source texts with at least one judged node evaluation")
    judge(check, cases, "tlc-single-statement")
    judge(check, sim, "tlc-simulate")


def replay(check: core.Check, witness: dict) -> None:
    judge(check, [witness["case"]], "replay")
