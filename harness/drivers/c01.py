"""C01 -- inferred values are sound with respect to execution.

Spec: spec/MiniPy.tla -- a TLC generator of annotated functions (statement lines composed by TLC from catalogues of
expressions / tests / targets / patterns, parameter types from the shared term universe, argument tuples = Members of
the declared types computed by TLC) and the acceptance condition Sound (Member(value, inferred type) at every
evaluated node).  Every generated function is (a) checked by the real visitor with annotate=True, (b) instrumented and
executed under CPython with every argument tuple; the recorded events (node evaluations with runtime value and inferred
type, completed assignments, loop iterations) are validated by TLC (MiniPyTrace.tla), which also replays the mechanisms
of the known deviation classes over the events, so that an unsound event is filed under a class only if that class's
mechanism explains this very event.
"""
from __future__ import annotations

import ast
import copy
import random
import signal
import sys
from typing import Any, Optional

from .. import codec, core, pyz
from .. import universe as U

LEVEL = "exploration"

PRELUDE = codec.PRELUDE + "from harness.c01_lib import *\n"
INIT_LINES = ["v = 0", "e = a = b = c = rest = w = cm = None", "ok = False", "m = []", "d = {}"]
EPILOGUE = ["x", "y", "v", "a", "b", "c", "rest", "e", "w", "ok", "m", "d"]
# the variables of the generated function (= MiniPy!VarNames); q / k are comprehension variables
LOCALS = {"x", "y", "v", "w", "ok", "a", "b", "c", "rest", "e", "m", "d", "cm"}
COMP_VARS = {"q", "k"}
EVENT_CAP = 160
# diagnostics that reject an expression (its inferred value is then not claimed); stylistic / reachability codes are not
REJECT_CODES = {"unsupported_operation", "incompatible_argument", "incompatible_call", "undefined_attribute", "not_callable",
                "bad_unpack", "type_does_not_support_bool", "undefined_name", "incompatible_assignment", "invalid_typeddict_key",
                "bad_format_string", "already_declared", "inference_failure", "internal_error", "bad_star_import",
                "incompatible_return_value", "unhashable_key", "bad_match", "bad_evaluator", "disallowed_import"}
MAX_LOOPS = 10
RECORDED = (ast.Name, ast.Subscript, ast.Call, ast.BinOp, ast.IfExp, ast.BoolOp, ast.Compare, ast.Tuple, ast.List,
            ast.Dict, ast.Set, ast.Attribute, ast.UnaryOp, ast.Constant, ast.NamedExpr, ast.JoinedStr, ast.ListComp,
            ast.SetComp, ast.DictComp)
MUTATORS = {"append", "extend", "insert", "add", "update", "setdefault", "pop", "popitem", "clear", "remove", "sort", "reverse"}
_OPS = {ast.Add: "+", ast.Sub: "-", ast.Mult: "*", ast.Div: "/", ast.FloorDiv: "//", ast.Mod: "%", ast.Pow: "**",
        ast.BitOr: "|", ast.BitAnd: "&", ast.BitXor: "^", ast.LShift: "<<", ast.RShift: ">>", ast.MatMult: "@",
        ast.Eq: "==", ast.NotEq: "!=", ast.Lt: "<", ast.LtE: "<=", ast.Gt: ">", ast.GtE: ">=", ast.Is: "is",
        ast.IsNot: "is not", ast.In: "in", ast.NotIn: "not in", ast.And: "and", ast.Or: "or", ast.Not: "not",
        ast.USub: "-", ast.UAdd: "+", ast.Invert: "~"}


# --------------------------------------------------------------------------- rendering
def render_block(block: list[dict], ind: int, out: list[str]) -> None:
    pad = "    " * ind
    for s in block:
        if s["k"] in ("line", "jump"):
            out.append(pad + s["line"])
        elif s["k"] == "block":
            extra = 0
            if s["hdr"]:
                out.append(pad + s["hdr"])
                extra = 1
            for head, part in zip(s["heads"], s["parts"]):
                out.append("    " * (ind + extra) + head)
                render_block(part, ind + extra + 1, out)
        else:
            raise core.MachineryError(f"cannot render {s}")


def render(case: dict) -> str:
    if "header" in case:        # canned functions of the self-tests: header and body lines are given literally
        lines = [case["header"]] + ["    " + ln for ln in INIT_LINES] + ["    " + ln for ln in case["body"]]
        lines += ["    " + ln for ln in EPILOGUE]
        return PRELUDE + "\n" + "\n".join(lines) + "\n"
    ax = codec.term_to_annotation(case["tx"])
    ay = codec.term_to_annotation(case["ty"])
    lines = [f"def f(x: {ax}, y: {ay}):"] + ["    " + ln for ln in INIT_LINES]
    render_block(case["prog"], 1, lines)
    lines += ["    " + ln for ln in EPILOGUE]
    return PRELUDE + "\n" + "\n".join(lines) + "\n"


# --------------------------------------------------------------------------- instrumentation
class _Stop(BaseException):
    pass


def _class_name(node: ast.AST) -> str:
    if isinstance(node, ast.Name):
        return node.id if node.id in U.CLASSES else "other"
    return "other"


def _literal_obj(node: ast.AST) -> Optional[dict]:
    """object term of a literal pattern value (None if it is not a literal of the universe's classes)"""
    try:
        if isinstance(node, ast.Constant):
            return codec.py_to_obj(node.value)
        if isinstance(node, ast.Attribute) and isinstance(node.value, ast.Name) and node.value.id == "Color":
            return codec.py_to_obj(getattr(U.Color, node.attr))
        if isinstance(node, ast.UnaryOp) and isinstance(node.op, ast.USub) and isinstance(node.operand, ast.Constant):
            return codec.py_to_obj(-node.operand.value)
    except Exception:  # noqa: BLE001
        return None
    return None


def _pattern_facts(pat: ast.AST) -> dict:
    """class patterns (one class list per class pattern) and literal values anywhere inside a match pattern"""
    cls: list[list[str]] = []
    lits: list[dict] = []
    for p in ast.walk(pat):
        if isinstance(p, ast.MatchClass):
            cls.append([_class_name(p.cls)])
        elif isinstance(p, ast.MatchValue):
            o = _literal_obj(p.value)
            if o is not None and not _has_other(o):
                lits.append(o)
        elif isinstance(p, ast.MatchSingleton):
            lits.append(codec.py_to_obj(p.value))
        elif isinstance(p, ast.MatchMapping):
            for key in p.keys:
                o = _literal_obj(key)
                if o is not None and not _has_other(o):
                    lits.append(o)
    return {"cls": cls, "lits": lits}


class _Instrument:
    """Rewrites the body of f: every recorded expression node becomes __rec__(index, <expr>); every completed
    assignment is followed by __mk__("s", site); loops announce entry / iteration / exit.  Collects the node table
    (syntactic facts read from the pristine tree) and the table of assignment sites."""

    def __init__(self, alias: dict[str, list[str]]) -> None:
        self.orig: list[ast.AST] = []
        self.info: list[dict] = []
        self.stores: list[dict] = []
        self.anc: list[int] = []          # indices (1-based) of the recorded ancestors of the node being visited
        self.sid = 0
        self.nloops = 0
        self.loopstack: list[int] = []
        self.ntry = 0
        self.else_assigned: list[set[str]] = []
        self.loop_narrowed: list[set[str]] = []
        self.alias = alias

    # -- syntactic facts
    def reads(self, node: Optional[ast.AST]) -> list[str]:
        out: set[str] = set()
        if node is None:
            return []
        for nd in ast.walk(node):
            if isinstance(nd, ast.Name) and isinstance(nd.ctx, ast.Load):
                if nd.id in LOCALS:
                    out.add(nd.id)
                elif nd.id in self.alias:
                    out.update(self.alias[nd.id])
        return sorted(out)

    def _register(self, node: ast.AST, pseudo: bool = False) -> int:
        self.orig.append(node)
        idx = len(self.orig)
        info = {"k": type(node).__name__, "t": ast.unparse(node), "r": self.reads(node), "ch": [], "d": [], "op": [],
                "fn": "", "cls": [], "pats": [], "s": self.sid, "st": 0, "err": False, "wt": False, "lc": False,
                "pos": ("pseudo", 0, 0, 0, 0) if pseudo else _pos(node)}
        if pseudo:
            info["k"] = "OldValue"
        info["wt"] = any(set(info["r"]) & names for names in self.else_assigned)
        info["lc"] = isinstance(node, (ast.Subscript, ast.Attribute)) and any(info["t"] in ts for ts in self.loop_narrowed)
        if isinstance(node, (ast.BinOp, ast.UnaryOp, ast.BoolOp)):
            info["op"] = [_OPS.get(type(node.op), "?")]
        elif isinstance(node, ast.Compare):
            info["op"] = [_OPS.get(type(o), "?") for o in node.ops]
        elif isinstance(node, ast.Call):
            if isinstance(node.func, ast.Name):
                info["fn"] = node.func.id
                if node.func.id == "isinstance" and len(node.args) == 2:
                    second = node.args[1]
                    info["cls"] = ([_class_name(e) for e in second.elts] if isinstance(second, ast.Tuple)
                                   else [_class_name(second)])
            elif isinstance(node.func, ast.Attribute):
                info["fn"] = "." + node.func.attr
        self.info.append(info)
        if self.anc:
            self.info[self.anc[-1] - 1]["ch"].append(idx)
            for a in self.anc:
                self.info[a - 1]["d"].append(idx)
        return idx

    def new_store(self, names: list[str], reads: list[str], node_idx: int, via: str = "", recv: int = 0, arg: int = 0) -> int:
        """via / recv / arg: the store updates a container (method name, "[]=", "del[]", "aug<op>"; node of the receiver or of
        the old value of an augmented assignment; node of the first argument / right operand)"""
        self.stores.append({"names": sorted(set(n for n in names if n in LOCALS)), "r": sorted(set(reads)), "n": node_idx,
                            "d": list(self.info[node_idx - 1]["d"]) if node_idx else [], "via": via, "recv": recv, "arg": arg})
        return len(self.stores)

    # -- expressions
    def expr(self, node: Optional[ast.AST]) -> Any:
        if node is None:
            return None
        if isinstance(node, ast.expr) and isinstance(node, RECORDED) and isinstance(getattr(node, "ctx", None) or ast.Load(), ast.Load):
            idx = self._register(node)
            self.anc.append(idx)
            new = self._children(node, skip_func=True)
            self.anc.pop()
            info = self.info[idx - 1]
            if isinstance(node, ast.NamedExpr) and isinstance(node.target, ast.Name):
                vidx = info["ch"][0] if info["ch"] else 0
                info["st"] = self.new_store([node.target.id], self.reads(node.value), vidx)
            elif (isinstance(node, ast.Call) and isinstance(node.func, ast.Attribute) and node.func.attr in MUTATORS
                  and isinstance(node.func.value, ast.Name) and node.func.value.id in LOCALS):
                base = node.func.value.id
                info["st"] = self.new_store([base], self.reads(node), idx, via="." + node.func.attr,
                                            recv=info["ch"][0] if info["ch"] else 0,
                                            arg=info["ch"][1] if len(info["ch"]) > 1 and node.args else 0)
            call = ast.Call(func=ast.Name(id="__rec__", ctx=ast.Load()), args=[ast.Constant(value=idx), new], keywords=[])
            return ast.copy_location(call, node)
        return self._children(node, skip_func=False)

    def _children(self, node: ast.AST, skip_func: bool) -> ast.AST:
        """a shallow copy of node whose expression children are instrumented (the original tree stays pristine)"""
        new = copy.copy(node)
        if isinstance(node, ast.JoinedStr):     # only FormattedValue / Constant may be children of an f-string
            new.values = [ast.FormattedValue(value=self.expr(v.value), conversion=v.conversion, format_spec=v.format_spec)
                          if isinstance(v, ast.FormattedValue) else v for v in node.values]
            return new
        for field, old in ast.iter_fields(node):
            if isinstance(node, ast.Call) and field == "func":
                # the callee (a function object / bound method) is never judged; the receiver of a method call is
                if isinstance(old, ast.Attribute):
                    new.func = ast.Attribute(value=self.expr(old.value), attr=old.attr, ctx=ast.Load())
                elif not isinstance(old, ast.Name):
                    new.func = self.expr(old)
                continue
            if isinstance(old, list):
                setattr(new, field, [self.expr(x) if isinstance(x, ast.AST) else x for x in old])
            elif isinstance(old, ast.AST) and not isinstance(old, (ast.expr_context, ast.operator, ast.unaryop, ast.boolop, ast.cmpop)):
                setattr(new, field, self.expr(old))
        return new

    # -- statements
    def mark(self, kind: str, arg: int) -> ast.stmt:
        return ast.Expr(value=ast.Call(func=ast.Name(id="__mk__", ctx=ast.Load()),
                                       args=[ast.Constant(value=kind), ast.Constant(value=arg)], keywords=[]))

    def _target_names(self, tgt: ast.AST) -> tuple[list[str], list[str]]:
        """(names bound by the target, variables read or mutated by it)"""
        names, extra = [], []
        for nd in ast.walk(tgt):
            if isinstance(nd, ast.Name) and isinstance(nd.ctx, ast.Store):
                names.append(nd.id)
        if isinstance(tgt, (ast.Subscript, ast.Attribute)):
            base = tgt.value
            if isinstance(base, ast.Name):
                names.append(base.id)
                extra.append(base.id)
        return names, extra

    def _root(self, new: ast.AST) -> int:
        """node index of an instrumented expression (0 if the expression itself is not recorded)"""
        if isinstance(new, ast.Call) and isinstance(new.func, ast.Name) and new.func.id == "__rec__":
            return new.args[0].value
        return 0

    def block(self, stmts: list[ast.stmt], top: bool = False) -> list[ast.stmt]:
        out: list[ast.stmt] = []
        for s in stmts:
            out.extend(self.stmt(s))
        return out

    @staticmethod
    def _narrowed_composites(loop: ast.stmt) -> set[str]:
        """texts of the subscripts / attributes that a test, assert or comparison inside the loop narrows"""
        out: set[str] = set()
        for nd in ast.walk(loop):
            subj: list[ast.AST] = []
            if isinstance(nd, ast.Call) and isinstance(nd.func, ast.Name) and nd.func.id == "isinstance" and nd.args:
                subj.append(nd.args[0])
            elif isinstance(nd, ast.Compare):
                subj.append(nd.left)
            elif isinstance(nd, ast.BoolOp):
                subj += nd.values
            elif isinstance(nd, ast.UnaryOp) and isinstance(nd.op, ast.Not):
                subj.append(nd.operand)
            elif isinstance(nd, (ast.If, ast.While, ast.Assert, ast.IfExp)):
                subj.append(nd.test)
            out.update(ast.unparse(x) for x in subj if isinstance(x, (ast.Subscript, ast.Attribute)))
        return out

    def stmt(self, s: ast.stmt) -> list[ast.stmt]:
        self.sid += 1
        if isinstance(s, (ast.For, ast.While)):
            self.loop_narrowed.append(self._narrowed_composites(s))
            try:
                return self._stmt(s)
            finally:
                self.loop_narrowed.pop()
        return self._stmt(s)

    def _stmt(self, s: ast.stmt) -> list[ast.stmt]:
        if isinstance(s, ast.Assign):
            val = self.expr(s.value)
            names, extra = [], []
            tgts = []
            via, recv = "", 0
            for t in s.targets:
                nm, ex = self._target_names(t)
                names += nm
                extra += ex
                tnew = self.expr(t)
                tgts.append(tnew)
                if isinstance(t, ast.Subscript) and isinstance(t.value, ast.Name):
                    via, recv = "[]=", self._root(tnew.value)
            k = self.new_store(names, self.reads(s.value) + extra, self._root(val), via, recv)
            new = ast.copy_location(ast.Assign(targets=tgts, value=val), s)
            return [new, self.mark("s", k)]
        if isinstance(s, ast.AugAssign):
            pre, recv = [], 0
            names, extra = self._target_names(s.target)
            if isinstance(s.target, ast.Name):
                extra.append(s.target.id)
                # the old value of the target is read first (a pseudo node: it has no inferred type and is never judged)
                old = ast.copy_location(ast.Name(id=s.target.id, ctx=ast.Load()), s.target)
                recv = self._register(old, pseudo=True)
                pre = [ast.Expr(value=ast.Call(func=ast.Name(id="__rec__", ctx=ast.Load()), args=[ast.Constant(value=recv), old], keywords=[]))]
            val = self.expr(s.value)
            k = self.new_store(names, self.reads(s.value) + extra, self._root(val), "aug" + _OPS.get(type(s.op), "?"), recv,
                               self._root(val))
            new = ast.copy_location(ast.AugAssign(target=self.expr(s.target), op=s.op, value=val), s)
            return pre + [new, self.mark("s", k)]
        if isinstance(s, ast.For):
            self.nloops += 1
            L = self.nloops
            it = self.expr(s.iter)
            names, extra = self._target_names(s.target)
            k = self.new_store(names, self.reads(s.iter) + extra, self._root(it))
            self.loopstack.append(L)
            self.else_assigned.append({nd.id for st_ in s.orelse for nd in ast.walk(st_)
                                       if isinstance(nd, ast.Name) and isinstance(nd.ctx, ast.Store)})
            body = [self.mark("it", L), self.mark("s", k)] + self.block(s.body)
            self.else_assigned.pop()
            self.loopstack.pop()
            orelse = ([self.mark("lx", L)] + self.block(s.orelse)) if s.orelse else []
            new = ast.copy_location(ast.For(target=s.target, iter=it, body=body, orelse=orelse), s)
            return [self.mark("le", L), new, self.mark("lx", L)]
        if isinstance(s, ast.While):
            self.nloops += 1
            L = self.nloops
            # names assigned in the else clause: the checker lets them reach the test and the body (see MiniPyTrace nd.wt)
            self.else_assigned.append({nd.id for st_ in s.orelse for nd in ast.walk(st_)
                                       if isinstance(nd, ast.Name) and isinstance(nd.ctx, ast.Store)})
            test = ast.BoolOp(op=ast.And(), values=[ast.Call(func=ast.Name(id="__mk__", ctx=ast.Load()),
                                                             args=[ast.Constant(value="it"), ast.Constant(value=L)], keywords=[]),
                                                    self.expr(s.test)])
            self.loopstack.append(L)
            body = self.block(s.body)
            self.loopstack.pop()
            self.else_assigned.pop()
            orelse = ([self.mark("lx", L)] + self.block(s.orelse)) if s.orelse else []
            new = ast.copy_location(ast.While(test=test, body=body, orelse=orelse), s)
            return [self.mark("le", L), new, self.mark("lx", L)]
        if isinstance(s, ast.If):
            test = self.expr(s.test)
            return [ast.copy_location(ast.If(test=test, body=self.block(s.body), orelse=self.block(s.orelse)), s)]
        if isinstance(s, ast.Try):
            self.ntry += 1
            T = self.ntry
            body = self.block(s.body) + [self.mark("tn", T)]
            handlers = [ast.copy_location(ast.ExceptHandler(type=h.type or ast.Name(id="Exception", ctx=ast.Load()), name=h.name, body=[self.mark("xh", T)] + self.block(h.body)), h) for h in s.handlers]
            final = ([self.mark("xf", T)] + self.block(s.finalbody)) if s.finalbody else []
            return [self.mark("te", T), ast.copy_location(ast.Try(body=body, handlers=handlers, orelse=self.block(s.orelse),
                                                                  finalbody=final), s)]
        if isinstance(s, ast.With):
            items, marks = [], []
            for it in s.items:
                ce = self.expr(it.context_expr)
                items.append(ast.withitem(context_expr=ce, optional_vars=it.optional_vars))
                if it.optional_vars is not None:
                    names, extra = self._target_names(it.optional_vars)
                    marks.append(self.mark("s", self.new_store(names, self.reads(it.context_expr) + extra, self._root(ce))))
            self.ntry += 1
            T = self.ntry
            return [self.mark("we", T), ast.copy_location(ast.With(items=items, body=marks + self.block(s.body, top=True) + [self.mark("wn", T)]), s),
                    self.mark("wq", T)]
        if isinstance(s, ast.Match):
            subj = self.expr(s.subject)
            sidx = self._root(subj)
            cases = []
            for c in s.cases:
                if sidx:
                    self.info[sidx - 1]["pats"].append(_pattern_facts(c.pattern))
                names = [nd.name for nd in ast.walk(c.pattern) if isinstance(nd, (ast.MatchAs, ast.MatchStar)) and nd.name]
                names += [nd.rest for nd in ast.walk(c.pattern) if isinstance(nd, ast.MatchMapping) and nd.rest]
                guard = self.expr(c.guard)
                k = self.new_store(names, self.reads(s.subject), sidx, via="guard" if c.guard is not None else "")
                # the captures are bound before the guard runs
                if guard is not None:
                    guard = ast.BoolOp(op=ast.And(), values=[ast.Call(func=ast.Name(id="__mk__", ctx=ast.Load()),
                                                                      args=[ast.Constant(value="s"), ast.Constant(value=k)], keywords=[]), guard])
                    body = [self.mark("cb", 0)] + self.block(c.body)
                else:
                    body = [self.mark("s", k), self.mark("cb", 0)] + self.block(c.body)
                cases.append(ast.match_case(pattern=c.pattern, guard=guard, body=body))
            return [ast.copy_location(ast.Match(subject=subj, cases=cases), s), self.mark("mx", 0)]
        if isinstance(s, ast.Delete):
            new = self._children(s, skip_func=False)
            out = [new]
            for t, tnew in zip(s.targets, new.targets):
                if isinstance(t, ast.Subscript) and isinstance(t.value, ast.Name):
                    out.append(self.mark("s", self.new_store([t.value.id], self.reads(t), 0, "del[]", self._root(tnew.value))))
            return out
        if isinstance(s, (ast.Return, ast.Expr, ast.Assert, ast.Raise)):
            return [self._children(s, skip_func=False)]
        if isinstance(s, (ast.Break, ast.Continue, ast.Pass)):
            return [s]
        raise core.MachineryError(f"cannot instrument statement {ast.dump(s)[:200]}")


def _pos(nd: ast.AST) -> tuple:
    return (type(nd).__name__, nd.lineno, nd.col_offset, nd.end_lineno, nd.end_col_offset)


def _comp_alias(fdef: ast.AST) -> dict[str, list[str]]:
    """comprehension variable -> function variables its values are drawn from"""
    alias: dict[str, list[str]] = {}
    comps = [nd for nd in ast.walk(fdef) if isinstance(nd, ast.comprehension)]
    for _ in range(3):      # nested generators refer to earlier comprehension variables
        for comp in comps:
            rd: set[str] = set()
            for nd in ast.walk(comp.iter):
                if isinstance(nd, ast.Name) and isinstance(nd.ctx, ast.Load):
                    if nd.id in LOCALS:
                        rd.add(nd.id)
                    elif nd.id in alias:
                        rd.update(alias[nd.id])
            for nd in ast.walk(comp.target):
                if isinstance(nd, ast.Name):
                    alias[nd.id] = sorted(rd)
    return alias


def _has_other(t: Any) -> bool:
    """the term mentions something outside the term universe (an object / class / payload called "other", an unsolved
    type variable): Member is not defined on it, the event is not judged"""
    if isinstance(t, dict):
        if t.get("c") == "other" or t.get("v") == "other":
            return True
        if t.get("k") in ("typevar", "skip"):
            return True
        return any(_has_other(v) for v in t.values())
    if isinstance(t, list):
        return any(_has_other(v) for v in t)
    return False


def _too_deep(x: Any, d: int = 0) -> bool:
    if d > 3:
        return True
    if isinstance(x, (list, tuple, set)):
        return len(x) > 8 or any(_too_deep(e, d + 1) for e in x)
    if isinstance(x, dict):
        return len(x) > 8 or any(_too_deep(k, d + 1) or _too_deep(v, d + 1) for k, v in x.items())
    if isinstance(x, (str, bytes)):
        return len(x) > 60
    if isinstance(x, int):
        return abs(x) > 10 ** 9
    if isinstance(x, float):
        return abs(x) > 1e12
    return False


def _holds(x: Any, obj: Any, depth: int) -> bool:
    """x is obj or contains it (by identity)"""
    if x is obj:
        return True
    if depth > 4:
        return False
    if isinstance(x, (list, tuple, set, frozenset)):
        return any(_holds(e, obj, depth + 1) for e in x)
    if isinstance(x, dict):
        return any(_holds(v, obj, depth + 1) for v in x.values())
    if hasattr(x, "__dict__") and not isinstance(x, type):
        return any(_holds(v, obj, depth + 1) for v in vars(x).values())
    return False


SKIP_T = {"k": "skip"}
NO_OBJ = {"c": "other", "v": "other", "items": []}


def _unorder_sets(t: Any) -> Any:
    """SequenceValue(set, members) lists the element types of a set display in source order; a set has no order (and
    the codec sorts the elements of a runtime set), so the type is read as set[union of the member types]"""
    if isinstance(t, list):
        return [_unorder_sets(x) for x in t]
    if isinstance(t, dict):
        t = {k: _unorder_sets(v) for k, v in t.items()}
        if t.get("k") == "seq" and t.get("c") == "set":
            ms = []
            for m in t["ms"]:
                if m["t"] not in ms:
                    ms.append(m["t"])
            return {"k": "generic", "c": "set", "args": [ms[0] if len(ms) == 1 else {"k": "union", "ms": ms}]}
    return t


def encode_inferred(value: Any) -> Optional[dict]:
    try:
        t = codec.value_to_term(value)
    except core.MachineryError:
        return None
    return None if _has_other(t) else _unorder_sets(t)


def prepare(src: str) -> dict:
    """check the source with the real visitor, instrument it; returns everything an execution needs"""
    codec.WIDE = True
    try:
        tree = ast.parse(src)
    except SyntaxError as exc:
        raise core.MachineryError(f"generated function is not valid syntax: {exc}\n{src}")
    # Observation (no change of the checker's behaviour; the wrappers call the original method and return its result):
    # the value the checking phase inferred for every expression node at the time of each visit (a node inside a
    # comprehension over a tuple of known length or inside a finally block is visited several times: the inferred type
    # of the node is the union over its visits; taken at visit time because a later in-place operation on a known
    # list can change the object a KnownValue holds).
    from pyanalyze import name_check_visitor as ncv

    visits: dict[tuple, dict[str, Optional[dict]]] = {}
    orig_visit = ncv.NameCheckVisitor.visit
    orig_composite = ncv.NameCheckVisitor.composite_from_node
    check_state = ncv.VisitorState.check_names
    first_line = len(src.split("\ndef f(")[0].split("\n")) + 1

    def spy_visit(self, node):  # type: ignore[no-untyped-def]
        ret = orig_visit(self, node)
        if self.state is check_state and isinstance(node, ast.expr) and getattr(node, "lineno", 0) >= first_line:
            t = encode_inferred(ret)
            visits.setdefault(_pos(node), {})[core.canon(t)] = t
        return ret

    def spy_composite(self, node):  # type: ignore[no-untyped-def]     (names, attributes, subscripts, walrus)
        ret = orig_composite(self, node)
        if self.state is check_state and isinstance(node, ast.expr) and getattr(node, "lineno", 0) >= first_line:
            t = encode_inferred(ret.value)
            visits.setdefault(_pos(node), {})[core.canon(t)] = t
        return ret

    ncv.NameCheckVisitor.visit = spy_visit
    ncv.NameCheckVisitor.composite_from_node = spy_composite
    try:
        fails, visitor, checked_tree = pyz.check_source(src, annotate=True, want_visitor=True)
    except Exception as exc:  # noqa: BLE001   (a crash is a C12 matter; here the case is just unusable)
        return {"error": f"checker raised {type(exc).__name__}: {exc}"}
    finally:
        ncv.NameCheckVisitor.visit = orig_visit
        ncv.NameCheckVisitor.composite_from_node = orig_composite
    by_pos: dict[tuple, Optional[dict]] = {}
    for pos, terms in visits.items():
        ts = list(terms.values())
        if any(t is None for t in ts):
            by_pos[pos] = None
        elif len(ts) == 1:
            by_pos[pos] = ts[0]
        else:
            by_pos[pos] = {"k": "union", "ms": ts}
    fdef = tree.body[-1]
    inst = _Instrument(_comp_alias(fdef))
    new_body = inst.block(fdef.body, top=True)
    if inst.nloops > MAX_LOOPS or inst.ntry > MAX_LOOPS:
        return {"error": "too many loops"}
    new_def = ast.FunctionDef(name=fdef.name, args=fdef.args, body=new_body, decorator_list=[], returns=None, type_params=[])
    module = ast.Module(body=tree.body[:-1] + [ast.copy_location(new_def, fdef)], type_ignores=[])
    ast.fix_missing_locations(module)
    # expressions the checker rejected with an error: their inferred value is not claimed to describe the runtime value
    rejected = {(f.get("lineno"), f.get("col_offset")) for f in fails if getattr(f.get("code"), "name", "") in REJECT_CODES}
    in_call = {(f.get("lineno"), f.get("col_offset")) for f in fails
               if getattr(f.get("code"), "name", "") in ("incompatible_argument", "incompatible_call")}
    inferred: list[Optional[dict]] = []
    why: list[str] = []
    for info in inst.info:
        pos = tuple(info.pop("pos"))
        start, end = (pos[1], pos[2]), (pos[3], pos[4])
        info["err"] = start in rejected or (info["k"] == "Call" and any(start <= q < end for q in in_call))
        if pos not in by_pos:
            inferred.append(None)
            why.append("pseudo-node" if info["k"] == "OldValue" else "not-annotated")
        else:
            t = by_pos[pos]
            inferred.append(t)
            why.append("" if t is not None else "inferred-outside-universe")
    try:
        code = compile(module, "<c01>", "exec", dont_inherit=True)
    except Exception as exc:  # noqa: BLE001
        raise core.MachineryError(f"instrumented function does not compile: {exc}\n{ast.unparse(module)[-1500:]}")
    return {"code": code, "nodes": inst.info, "stores": inst.stores, "inferred": inferred, "why": why,
            "diagnostics": len(fails)}


def execute(prep: dict, ax: dict, ay: dict) -> tuple[list[dict], dict[str, int]]:
    """one instrumented execution under CPython: (events, counters)"""
    codec.WIDE = True
    events: list[dict] = []
    nodes, inferred, why = prep["nodes"], prep["inferred"], prep["why"]
    cnt = {"judged": 0, "skipped:constant": 0, "skipped:pseudo-node": 0, "skipped:not-annotated": 0, "skipped:inferred-outside-universe": 0,
           "skipped:value-outside-universe": 0, "skipped:value-too-big": 0}
    state = {"stop": False}

    def rec(i: int, value: Any) -> Any:
        if state["stop"]:           # a finally / loop of the generated function swallowed the stop: stop again
            raise _Stop()
        if len(events) >= EVENT_CAP:
            state["stop"] = True
            raise _Stop()
        info = nodes[i - 1]
        inf = inferred[i - 1]
        if _too_deep(value):
            # values that grow in a loop (x = x ** 2, x = x * 2) end the execution before they exhaust the machine
            cnt["skipped:value-too-big"] += 1
            state["stop"] = True
            raise _Stop()
        obj = codec.py_to_obj(value)
        ok = not _has_other(obj)
        if not ok:
            obj = {"c": obj["c"], "v": "other", "items": []}
            if info["k"] != "Constant":
                cnt["skipped:value-outside-universe"] += 1
        judged = ok and inf is not None and info["k"] != "Constant"
        if ok and info["k"] == "Constant":
            cnt["skipped:constant"] += 1
        elif ok and inf is None:
            cnt["skipped:" + why[i - 1]] += 1
        if judged:
            cnt["judged"] += 1
        events.append({"k": "e", "n": i, "v": obj, "i": inf if inf is not None else SKIP_T, "j": judged})
        if info["st"]:
            events.append({"k": "s", "site": info["st"]})
            aliased(info["st"], sys._getframe(1))
        return value

    def aliased(site: int, frame: Any) -> None:
        """Observation for the property's premise (no container is mutated through an alias): after an in-place update of
        the container held by the store's target, the other variables of the function that hold or contain that very
        object (identity) are reported; TLC files unsound events reading them as outside the property's domain."""
        st = prep["stores"][site - 1]
        if not st["via"] or not st["names"]:
            return
        loc = frame.f_locals
        tgt = loc.get(st["names"][0])
        if not isinstance(tgt, (list, dict, set)):
            return
        names = sorted(n for n in LOCALS if n not in st["names"] and n in loc and _holds(loc[n], tgt, 0))
        if names:
            events.append({"k": "al", "names": names})

    def mk(kind: str, arg: int) -> bool:
        if state["stop"] or len(events) >= EVENT_CAP:        # also ends loops that evaluate nothing
            state["stop"] = True
            raise _Stop()
        events.append({"k": "s", "site": arg} if kind == "s" else {"k": kind, "loop": arg})
        if kind == "s":
            aliased(arg, sys._getframe(1))
        return True

    def alarm(signum: int, frame: Any) -> None:
        state["stop"] = True
        raise _Stop()

    ns: dict[str, Any] = {"__rec__": rec, "__mk__": mk}
    old_handler = signal.signal(signal.SIGALRM, alarm)
    signal.setitimer(signal.ITIMER_REAL, 10.0)      # safety net; the event cap and the size cap end every loop earlier
    try:
        exec(prep["code"], ns)
        ns["f"](codec.obj_to_py(ax), codec.obj_to_py(ay))
    except BaseException:  # noqa: BLE001  the program may raise; everything evaluated before still counts
        pass
    finally:
        signal.setitimer(signal.ITIMER_REAL, 0)
        signal.signal(signal.SIGALRM, old_handler)
    return events, cnt


def observe_case(arg: tuple[int, dict]) -> list[dict]:
    base_tid, case = arg
    src = render(case)
    prep = prepare(src)
    if "error" in prep:
        return [{"tid": base_tid, "ev": [], "note": prep["error"], "src": src, "case": case}]
    out = []
    combos = [(ax, ay) for ax in case["argsx"] for ay in case["argsy"]]
    rnd = random.Random(base_tid)
    cap = case.get("maxargs", 6)
    if len(combos) > cap:
        combos = rnd.sample(combos, cap)
    for j, (ax, ay) in enumerate(combos):
        events, cnt = execute(prep, ax, ay)
        if cnt["judged"]:
            out.append({"tid": base_tid + j, "ev": events, "nodes": prep["nodes"], "stores": prep["stores"], "args": [ax, ay],
                        "src": src, "case": case, "cnt": cnt, "diagnostics": prep["diagnostics"]})
    return out


def slim(o: dict) -> dict:
    """the trace line TLC reads"""
    return {"tid": o["tid"], "nodes": o["nodes"], "stores": o["stores"], "ev": o["ev"]}


def adjudicate(obs: list[dict]) -> tuple[dict, dict]:
    """TLC judges every judged event through its (value, inferred type) pair (phase 1: the distinct pairs); executions
    with an unsound pair are then replayed in full (phase 2: MiniPyTrace!Fold classifies every unsound event)."""
    pair_id: dict[str, int] = {}
    pairs: list[list] = []
    per_obs: list[set[int]] = []
    for o in obs:
        mine = set()
        for e in o["ev"]:
            if e["k"] == "e" and e["j"]:
                key = core.canon([e["v"], e["i"]])
                pid = pair_id.get(key)
                if pid is None:
                    pid = pair_id[key] = len(pairs) + 1
                    pairs.append([pid, e["v"], e["i"]])
                mine.add(pid)
        per_obs.append(mine)
    lines = [{"tid": i, "pairs": pairs[i:i + 100]} for i in range(0, len(pairs), 100)]
    v1, stats = core.adjudicate("MiniPyTrace", "MiniPyTrace.cfg", lines, batch=400, parallel=8, timeout=1200)
    unsound = set()
    for vs in v1.values():
        for v in vs:
            kind, _, pid = v.partition(":")
            if kind != "unsound":
                raise core.MachineryError(f"unexpected phase-1 verdict {v}")
            unsound.add(int(pid))
    full = [o for o, mine in zip(obs, per_obs) if mine & unsound]
    verdicts, stats2 = core.adjudicate("MiniPyTrace", "MiniPyTrace.cfg", [slim(o) for o in full], batch=500, parallel=8,
                                       timeout=1200)
    for o in full:
        vs = verdicts.get(o["tid"], [])
        if not vs or "allsound" in vs:
            raise core.MachineryError(f"phase 1 and phase 2 of the trace validation disagree on execution {o['tid']}")
    stats = {k: stats[k] + stats2[k] for k in stats}
    stats["observations"] = len(obs)
    stats["distinct_pairs"] = len(pairs)
    stats["executions_replayed_in_full"] = len(full)
    return verdicts, stats


def parse_verdict(v: str) -> tuple[str, str, int]:
    kind, _, rest = v.partition(":")
    key, _, idx = rest.rpartition(":")
    return kind, key, int(idx)


def judge(check: core.Check, cases: list[dict], label: str) -> None:
    parts = core.pmap(observe_case, [(i * 20, c) for i, c in enumerate(cases)], chunk=25)
    flat = [o for p in parts for o in p]
    unusable = [o for o in flat if not o.get("ev")]
    obs = [o for o in flat if o.get("ev")]
    verdicts, stats = adjudicate(obs)
    check.add_trace_stats(stats)
    check.evals(len(obs))
    cov = check.cov
    ev_cnt = cov.setdefault("node_evaluations", {})
    for o in obs:
        for k, n in o["cnt"].items():
            ev_cnt[k] = ev_cnt.get(k, 0) + n
    cov["node_evaluations_judged"] = ev_cnt.get("judged", 0)
    cov["functions_checker_raised"] = cov.get("functions_checker_raised", 0) + len(unusable)
    cov["executions_of_functions_with_diagnostics"] = cov.get("executions_of_functions_with_diagnostics", 0) + sum(
        1 for o in obs if o["diagnostics"])
    excused = cov.setdefault("unsound_events_by_verdict", {})
    by_tid = {o["tid"]: o for o in obs}
    for tid, vs in verdicts.items():
        o = by_tid[tid]
        for v in sorted(set(vs)):
            kind, key, idx = parse_verdict(v)
            ev = o["ev"][idx - 1]
            node = o["nodes"][ev["n"] - 1]["t"]
            excused[f"{kind}:{key}"] = excused.get(f"{kind}:{key}", 0) + 1
            payload = {"case": {**o["case"], "argsx": [o["args"][0]], "argsy": [o["args"][1]]}, "src": o["src"],
                       "args": o["args"], "node": node, "event": ev, "source": label}
            if kind == "dev":
                check.violation(key, key, payload)
            elif kind == "viol":
                vkey = core.canon({"src": o["src"].split("def f(")[1], "node": node, "args": o["args"]})
                check.violation(vkey, key, payload)
            elif kind != "dom":
                raise core.MachineryError(f"unknown verdict {v}")
    for o in obs:
        check.nontrivial(o["src"])
    for o in obs[:: max(1, len(obs) // 3)][:3]:
        evs = [[o["nodes"][e["n"] - 1]["t"], e["v"], e["i"]] for e in o["ev"] if e["k"] == "e" and e["j"]][:4]
        check.sample({"source": label, "src": o["src"].split("def f(")[1], "args": o["args"], "evals": evs})


# --------------------------------------------------------------------------- self-tests (sensitivity)
def _o(x: Any) -> dict:
    codec.WIDE = True
    return codec.py_to_obj(x)


# canned functions: (name, header, body lines, x, y, verdict every unsound event of the execution must get)
CANNED = [
    ("numeric", "def f(x: Union[int, None], y: int):",
     ["if isinstance(x, float):", "    v = 1", "else:", "    v = tolist(x)"], 1, 0, "dev:numeric-promotion-lost-by-isinstance"),
    ("loop", "def f(x: Optional[str], y: int):", ["for e in (1, 'a'):", "    x = tolist(x)"], "a", 0,
     "dev:loop-carried-growth-not-at-fixpoint"),
    ("tuple-add", "def f(x: tuple[int, str], y: tuple[float, ...]):", ["v = x + y"], (1, "a"), (1.5,),
     "dev:tuple-add-drops-left-operand"),
    ("tuple-iadd", "def f(x: tuple[int, str], y: tuple[float, ...]):", ["x += y"], (1, "a"), (1.5,),
     "dev:tuple-add-drops-left-operand"),
    # repaired in the code (38601f1): sound now; REPAIRED below re-creates what the old code inferred
    ("match-leaves", "def f(x: object, y: int):",
     ["if isinstance(x, str):", "    pass", "else:", "    match x:", "        case int():", "            pass", "        case _:",
      "            v = 'a'"], 1.5, 0, ""),
    ("unmodelled", "def f(x: int, y: int):", ["m.insert(0, x)"], 1, 0, "dev:unmodelled-container-mutator"),
    ("mutation-lost", "def f(x: int, y: int):", ["try:", "    m.append(None)", "    firstkey(x)", "except Exception:", "    v = len(m)"], 1, 0,
     "dev:mutation-lost-on-exception-path"),
    ("with-mutation", "def f(x: int, y: int):", ["with maybe_suppress():", "    m.append(1)"], 1, 0, "dev:mutation-lost-on-exception-path"),
    # repaired in the code (440760d)
    ("jump-in-with", "def f(x: int, y: int):", ["with suppress(Exception):", "    while y:", "        continue", "    v = 'a'"], 1, 0, ""),
    ("failed-guard", "def f(x: list[int], y: int):", ["match x:", "    case [a, *rest] if rest:", "        return 1", "    case _:", "        v = 1"],
     [1], 0, "dev:capture-kept-after-failed-guard"),
    ("known-list-iadd", "def f(x: int, y: int):", ["if y:", "    m += [1]"], 1, 0, "dev:known-list-mutated-in-place"),
    ("loop-else", "def f(x: list[tuple[int, str]], y: int):",
     ["y", "while x and isinstance(x[0], int):", "    x * 2", "else:", "    x -= 'a'"], [(1, "a")], 0, "dev:loop-else-assignment-seen-in-loop"),
    ("composite-in-loop", "def f(x: list[Union[int, Literal[None]]], y: Iterable[str]):",
     ["y", "while (w := y):", "    if x[0] == 1:", "        v = 1", "    else:", "        assert isinstance(x[0], int)"], [None, 1], ("a",),
     "dev:composite-narrowing-carried-around-loop"),
    ("alias", "def f(x: list[int], y: int):", ["v = x", "v += [None]"], [1], 0, "dom:mutated-through-alias"),
    ("dict-union", "def f(x: int, y: int):", ["if x:", "    d['a'] = 1", "d['j'] = 1"], 1, 0, "dev:dict-mutation-on-union-forgets-keys"),
    ("plain-dict-for-typeddict", "def f(x: dict[str, int], y: HU.TD_aNwint_bRwstr):", ["v = bothof(x, y)"], {}, {"b": "a"},
     "dev:plain-dict-accepted-for-typeddict"),
    ("from-any", "def f(x: bool, y: Union[Literal[1], Literal[2]]):", ["x = Box(x).first", "v = min(x, y)"], True, 1, "dom:flows-from-any"),
    ("abstract-truthy", "def f(x: Iterable[str], y: int):", ["y", "v = (not x)"], [], 0, "dev:abstract-type-assumed-truthy"),
    ("extend-literal", "def f(x: list[int], y: int):", ["x += 'a'"], [1], 0, "dev:list-extend-literal-str-unchecked"),
    ("cross-eq", "def f(x: float, y: int):", ["if x == 1:", "    v = [x]"], 1.0, 0, "dom:cross-type-equality"),
    ("variadic", "def f(x: tuple[str, *tuple[int, ...]], y: tuple[int, ...]):", ["v = min(x, y)"], ("a", 1), (), "dom:variadic-tuple-leniency"),
    ("rejected", "def f(x: str, y: int):",
     ["while x == 'a':", "    match x:", "        case Color.RED:", "            x = [x]", "        case (a, b):", "            x = (not x)",
      "    return x[0]"], "a", 0, "dom:value-of-rejected-expression"),
    ("clean", "def f(x: Union[int, None], y: int):", ["if x is None:", "    v = 'a'", "else:", "    v = x + 1", "for e in (1, 2):", "    w = e"],
     1, 0, ""),
]


# defects repaired in /repo whose mechanism is kept as a sensitivity test only: what the old code inferred for the last
# read of v (Literal[0], the value before the block)
REPAIRED = {"match-leaves": {"k": "known", "o": {"c": "int", "v": "0", "items": []}},
            "jump-in-with": {"k": "known", "o": {"c": "int", "v": "0", "items": []}}}


def selftest(check: core.Check) -> None:
    """Sensitivity of the trace specification, on real executions of canned functions:
    (1) every known-deviation / domain class is reachable: the canned function of the class yields unsound events, and TLC
        files all of them under exactly that class;
    (2) no class masks anything else: in the same executions, an additional unsound observation that the mechanism does
        not explain (the inferred type of an untouched variable's read replaced by Literal[None] / Never) is reported as
        viol:Sound / viol:NeverIsNeverReached, although the program contains the deviating construct (the former
        program-level classes excused it)."""
    obs, expect = [], {}
    none_t = {"k": "known", "o": {"c": "NoneType", "v": "None", "items": []}}
    never_t = {"k": "union", "ms": []}
    for ci, (name, header, body, ax, ay, verdict) in enumerate(CANNED):
        case = {"header": header, "body": body, "argsx": [_o(ax)], "argsy": [_o(ay)]}
        got = observe_case((1000 * (ci + 1), case))
        if len(got) != 1 or not got[0].get("ev"):
            raise core.MachineryError(f"self-test {name}: the canned function produced no execution: {got[:1]}")
        o = got[0]
        obs.append(o)
        expect[o["tid"]] = (name, verdict, None)
        # corrupted copies: the read of y in the epilogue (match-leaves: the first read of x, before the block ends)
        # the observation to corrupt must lie outside what the class's mechanism explains: by default the read of y in the
        # epilogue; for the classes that put the whole state in doubt from some point on, a read before that point
        target, which = {"rejected": ("x", "first"), "abstract-truthy": ("y", "first")}.get(name, ("y", "last"))
        idxs = [i for i, e in enumerate(o["ev"]) if e["k"] == "e" and e["j"] and o["nodes"][e["n"] - 1]["t"] == target]
        if not idxs:
            raise core.MachineryError(f"self-test {name}: no judged read of {target}")
        at = idxs[0] if which == "first" else idxs[-1]
        corruptions = [(at, none_t, "viol:Sound"), (at, never_t, "viol:NeverIsNeverReached")]
        if name in REPAIRED:
            # the observation the repaired defect used to produce (v read after the block, typed as before the block)
            # is not excused by anything any more
            vs_ = [i for i, e in enumerate(o["ev"]) if e["k"] == "e" and e["j"] and o["nodes"][e["n"] - 1]["t"] == "v"]
            if not vs_ or o["ev"][vs_[-1]]["v"] != _o("a"):
                raise core.MachineryError(f"self-test {name}: the canned function does not reach the read of v with 'a'")
            corruptions.append((vs_[-1], REPAIRED[name], "viol:Sound"))
        for k, (pos, bad, clause) in enumerate(corruptions, start=1):
            ev = [dict(e) for e in o["ev"]]
            ev[pos]["i"] = bad
            oc = {**o, "tid": o["tid"] + k, "ev": ev}
            obs.append(oc)
            expect[oc["tid"]] = (name + "+corrupted", verdict, (pos + 1, clause))
    verdicts, stats = adjudicate(obs)
    check.add_trace_stats(stats)
    seen = {}
    not_reached: set[str] = set()
    for o in obs:
        name, verdict, corrupted = expect[o["tid"]]
        vs = [parse_verdict(v) for v in verdicts.get(o["tid"], [])]
        got = {f"{k}:{key}" for k, key, idx in vs if corrupted is None or idx != corrupted[0]}
        want = {verdict} if verdict else set()
        real_viol = [(k, key, idx) for k, key, idx in vs if k == "viol" and (corrupted is None or idx != corrupted[0])]
        if real_viol:
            # a real, uncorrupted observation of a canned function violates the property on this tree: that is a finding
            # about the tree, reported like any other violation, not a problem of the machinery
            if corrupted is None:
                for k, key, idx in real_viol:
                    ev = o["ev"][idx - 1]
                    node = o["nodes"][ev["n"] - 1]["t"]
                    check.violation(core.canon({"src": o["src"].split("def f(")[1], "node": node, "args": o["args"]}), key,
                                    {"case": o["case"], "src": o["src"], "args": o["args"], "node": node, "event": ev,
                                     "source": "self-test:" + name})
            got = {g for g in got if not g.startswith("viol:")}
            if not got:
                continue
        if verdict and not got:
            # the canned function shows no unsound event on this tree (the defect of the class was repaired, or a seeded
            # change hides it): recorded, not an error -- what must never happen is a wrong classification
            not_reached.add(verdict)
        elif got != want:
            raise core.MachineryError(f"self-test {name}: expected the unsound events to be filed as {want or 'none'}, TLC said {sorted(got)}")
        if corrupted is not None:
            mine = {f"{k}:{key}" for k, key, idx in vs if idx == corrupted[0]}
            if mine != {corrupted[1]}:
                raise core.MachineryError(f"self-test {name}: the corrupted observation must be {corrupted[1]}, TLC said {sorted(mine)}")
        seen[name] = sorted(got)
    check.cov["selftest"] = {"canned_functions": len(CANNED), "observations": len(obs),
                             "classes_reached": sorted({v for vs in seen.values() for v in vs}),
                             "classes_not_reached_on_this_tree": sorted(not_reached),
                             "corrupted_observations_rejected": 2 * len(CANNED) + len(REPAIRED),
                             "repaired_mechanisms_rejected": sorted(REPAIRED)}


def run(check: core.Check) -> None:
    quick = check.tier == "quick"
    rnd = random.Random(check.seed)
    check.assumptions += [
        "runtime values come from instrumented execution of the same source under CPython 3.12; values and inferred types "
        "outside the term universe (other classes, generators, bound methods, unsolved type variables) are not judged "
        "(counted per reason in coverage.node_evaluations)",
        "the inferred type of a node is the union of the values the checking phase computed for it (a node inside a "
        "comprehension over a tuple of known length is visited once per element), read at visit time through wrappers around "
        "NameCheckVisitor.visit / composite_from_node that do not change the checker's behaviour",
        "domain (not findings, counted as dom:* in coverage.unsound_events_by_verdict): narrowing by == / in / literal patterns is "
        "claimed only for type-respecting equality (as in C02); the value of an expression the checker rejected with an error is "
        "not claimed; a variadic tuple[T, ...] accepted for a shaped tuple is the leniency documented for C04",
        "programs mutate only the two local containers m and d, never through an alias; executions are cut after "
        f"{EVENT_CAP} recorded events or when a value outgrows the universe's bounds",
    ]
    selftest(check)
    # every single-statement body over x (exhaustive over statements x TX); bodies mentioning y and longer bodies by simulation
    em = core.require_ok(core.run_tlc("MiniPyEmit", "MiniPy.emit1.cfg", timeout=1800), "MiniPy emit")
    check.add_tlc("emit1", em)
    singles = core.emitted_json(em)
    check.cov["single_statement_functions_enumerated"] = len(singles)
    n1 = 1600 if quick else 31000
    if len(singles) > n1:
        singles = rnd.sample(singles, n1)
    # the narrowing slice: every test in if / if-else / early return, every pattern (with and without guard) followed by
    # a second case, each branch just reading x
    nr = core.require_ok(core.run_tlc("MiniPyEmit", "MiniPy.narrow.cfg", timeout=1800), "MiniPy narrowing slice")
    check.add_tlc("narrow", nr)
    narrow = core.emitted_json(nr)
    check.cov["narrowing_slice_functions_enumerated"] = len(narrow)
    n2 = 1800 if quick else 30000
    if len(narrow) > n2:
        narrow = rnd.sample(narrow, n2)
    # the indexing slice (always run in full): a literal index / slice at every position of x and of sequences with an
    # unpacked part, x every parameter type x every argument the type admits (empty and one-element containers included)
    ix = core.require_ok(core.run_tlc("MiniPyEmit", "MiniPy.index.cfg", timeout=1800), "MiniPy indexing slice")
    check.add_tlc("index", ix)
    index = [{**c, "maxargs": 10} for c in core.emitted_json(ix)]
    check.cov["indexing_slice_functions"] = len(index)
    singles_y = core.simulate_cases("MiniPyEmit", "MiniPy.sim1y.cfg", 1000 if quick else 12000, depth=12, seed=check.seed + 3,
                                    check=check, first_num=400 if quick else 4000)
    sim = core.simulate_cases("MiniPyEmit", "MiniPy.sim.cfg", 2200 if quick else 40000, depth=45, seed=check.seed + 6,
                              check=check, first_num=1200 if quick else 12000)
    check.cov["exhaustive"] = False
    check.cov["rule"] = (
        "functions generated by TLC: every single-statement body over x (assignment, unpacking, augmented assignment, expression, "
        "return, assert, saved condition, container mutation; 219 expressions, 97 tests, 9 unpack targets) x each of 29 "
        "parameter types (sampled in quick); single statements mentioning y x pairs of types and bodies of up to 6 statements / "
        "depth 3 (if/else, while/for with else, break/continue, try/except/else/finally, with, match with guards, early "
        "return/raise) by TLC simulation; x argument tuples drawn by TLC from the declared types (at most 6 per function); "
        "non-trivial = distinct source texts with at least one judged node evaluation")
    judge(check, singles, "tlc-single-statement")
    judge(check, narrow, "tlc-narrowing-slice")
    judge(check, index, "tlc-indexing-slice")
    judge(check, singles_y, "tlc-single-statement-xy")
    judge(check, sim, "tlc-simulate")
    ev = check.cov.get("node_evaluations", {})
    tot = sum(v for k, v in ev.items() if k not in ("skipped:constant", "skipped:pseudo-node"))
    check.cov["skipped_share"] = round(1 - ev.get("judged", 0) / tot, 4) if tot else None


def replay(check: core.Check, witness: dict) -> None:
    judge(check, [witness["case"]], "replay")
