"""C14 -- value algebra: unions form a semilattice; equality, hashing, substitution.

Model: spec/ValueAlgebra.tla (ImplEq, ImplSameHash, ImplUnite) + spec/Algebra.tla (ImplSubst, the laws,
named deviation classes).  TLC checks the laws on every triple of the bounded term space; every
triple is replayed through the real unite_values / == / hash / can_assign / substitute_typevars and
TLC adjudicates the real results (AlgebraTrace.tla).

Context slice: spec/SubstContexts.tla generates terms as CONTEXTS WITH A HOLE (one frame per sub-value position of
every Value class, nested) x filler x type-variable map, and pairs of contexts for the equality / hash laws.  TLC
checks the laws on the model (ImplSubstF, ImplEq, ImplSameHash, ImplWalkVars against the structural oracle FreeVars /
RefSubst / Norm / RefSame) and emits every case in the same run; each case is replayed through the real
substitute_typevars / unite_values / == / hash / extract_typevars and adjudicated by SubstContextsTrace.tla.
"""
from __future__ import annotations

import random
import re

from .. import assign_common as ac
from .. import codec, core, pyz
from .. import universe as U

LEVEL = "model_checking"

MAPS = {
    "T->int": {"T": {"k": "typed", "c": "int"}},
    "T->int|str": {"T": {"k": "union", "ms": [{"k": "typed", "c": "int"}, {"k": "typed", "c": "str"}]}},
    "T->str,S->1": {"T": {"k": "typed", "c": "str"}, "S": {"k": "known", "o": {"c": "int", "v": "1", "items": []}}},
    "T->S": {"T": {"k": "typevar", "n": "S"}},
    "T->Any": {"T": {"k": "any", "src": "explicit"}},
    "S->bool": {"S": {"k": "typed", "c": "bool"}},
}


def observe(arg):
    from pyanalyze.value import NO_RETURN_VALUE, unite_values

    tid, t = arg
    ck = pyz.get_checker()
    try:
        # every operand occurrence is decoded afresh: literals of unhashable objects hash by id(), so sharing one
        # Python object between occurrences would hide what happens to separately inferred equal literals
        def A():
            return codec.term_to_value(t["a"])

        def B():
            return codec.term_to_value(t["b"])

        def C():
            return codec.term_to_value(t["c"])

        a, b = A(), B()
        tvm = {U.TYPEVARS[n]: codec.term_to_value(v) for n, v in MAPS[t["m"]].items()}
        def tt(v):
            return codec.value_to_term(v, dictinc=True)

        u_ab, u_ba, u_aa = unite_values(A(), B()), unite_values(B(), A()), unite_values(A(), A())
        u_ab_c, u_a_bc = unite_values(unite_values(A(), B()), C()), unite_values(A(), unite_values(B(), C()))
        u_an, u_na = unite_values(A(), NO_RETURN_VALUE), unite_values(NO_RETURN_VALUE, A())
        s_a = A().substitute_typevars(tvm)
        s_uab = unite_values(A(), B()).substitute_typevars(tvm)
        u_sab = unite_values(A().substitute_typevars(tvm), B().substitute_typevars(tvm))
        closed = not (t["a"].get("k") == "typevar") 
        o = {
            "tid": tid, "kind": "alg", "a": t["a"], "b": t["b"], "c": t["c"], "m": t["m"],
            "u_ab": tt(u_ab), "u_ba": tt(u_ba), "u_aa": tt(u_aa), "u_ab_c": tt(u_ab_c), "u_a_bc": tt(u_a_bc),
            "eq_idem": u_aa == a, "eq_comm": u_ab == u_ba, "eq_assoc": u_ab_c == u_a_bc,
            "eq_never_r": u_an == a, "eq_never_l": u_na == a,
            "eq_ab": a == b, "hash_ab": hash(a) == hash(b),
            "s_a": tt(s_a), "s_uab": tt(s_uab), "u_sab": tt(u_sab),
            "eq_subst_closed": s_a == a, "eq_subst_unite": s_uab == u_sab,
        }
        static = True
        try:
            o["acc_a"] = ac.accepted(u_ab, a, ck)
            o["acc_b"] = ac.accepted(u_ab, b, ck)
        except Exception as exc:
            return {"tid": tid, "kind": "raised", **t, "exc": f"can_assign: {type(exc).__name__}: {exc}"}
        return o
    except core.MachineryError:
        raise
    except Exception as exc:
        return {"tid": tid, "kind": "raised", **t, "exc": f"{type(exc).__name__}: {exc}"}


def judge(check: core.Check, triples: list[dict], label: str) -> None:
    obs = core.pmap(observe, list(enumerate(triples)), chunk=1000)
    good = [o for o in obs if o["kind"] != "raised"]
    for o in obs:
        if o["kind"] == "raised":
            check.violation(core.canon({k: o[k] for k in ("a", "b", "c", "m")}), "PublicApiRaised", {"case": o, "source": label})
    verdicts, stats = core.adjudicate("AlgebraTrace", "AlgebraTrace.cfg", good, batch=8000, parallel=8)
    check.add_trace_stats(stats)
    check.evals(len(obs))
    by_tid = {o["tid"]: o for o in good}
    for tid, vs in verdicts.items():
        o = by_tid[tid]
        case = {k: o[k] for k in ("a", "b", "c", "m")}
        for v in vs:
            if v.startswith("viol:"):
                check.violation(core.canon(case), v[5:], {"case": o, "source": label})
            elif v.startswith("dev:"):
                check.violation(v[4:], v[4:], {"case": o, "source": label})
            else:
                check.drift({"verdict": v, "case": o, "source": label})
    for t in triples:
        if t["a"]["k"] not in ("typed", "any") and t["b"]["k"] not in ("typed", "any"):
            check.nontrivial(core.canon(t))
    for o in good[:: max(1, len(good) // 3)][:3]:
        check.sample({"source": label, **o})


# --------------------------------------------------------------------------- context slice (spec/SubstContexts.tla)
_INT = {"k": "typed", "c": "int"}
CTX_MAPS = {
    **MAPS,
    "T->list[S],S->int": {"T": {"k": "generic", "c": "list", "args": [{"k": "typevar", "n": "S"}]}, "S": _INT},
    "T->S,S->T": {"T": {"k": "typevar", "n": "S"}, "S": {"k": "typevar", "n": "T"}},
}


def _tv_names(v) -> list[str]:
    from pyanalyze.value import extract_typevars

    return sorted({getattr(tv, "__name__", "other") for tv in extract_typevars(v)})


def observe_ctx(arg):
    """One context case (a = C[filler], map m, companions bs) or one equality pair through the real code."""
    from pyanalyze.value import unite_values

    tid, t = arg
    tt = codec.value_to_term_wide
    try:
        if t["kind"] == "pair":
            a, b = codec.term_to_value(t["a"]), codec.term_to_value(t["b"])
            if tt(a) != t["a"] or tt(b) != t["b"]:
                raise core.MachineryError(f"codec is not faithful on {t['a']} / {t['b']}")
            return {"tid": tid, "kind": "pair", "a": t["a"], "b": t["b"], "eq_ab": a == b, "eq_ba": b == a,
                    "hash_ab": hash(a) == hash(b)}

        def A():  # every occurrence is decoded afresh (see observe)
            return codec.term_to_value(t["a"])

        tvm = {U.TYPEVARS[n]: codec.term_to_value(v) for n, v in CTX_MAPS[t["m"]].items()}
        a, a2 = A(), A()
        if tt(a) != t["a"]:
            raise core.MachineryError(f"codec is not faithful on {t['a']}: decodes to {a}, which encodes to {tt(a)}")
        s_a, s_a2 = A().substitute_typevars(tvm), A().substitute_typevars(tvm)
        comm = []
        for bt in t["bs"]:
            def B():
                return codec.term_to_value(bt)

            s_uab = unite_values(A(), B()).substitute_typevars(tvm)
            u_sab = unite_values(A().substitute_typevars(tvm), B().substitute_typevars(tvm))
            comm.append({"s_uab": tt(s_uab), "u_sab": tt(u_sab), "eq": s_uab == u_sab})
        return {
            "tid": tid, "kind": "ctx", "a": t["a"], "m": t["m"], "bs": t["bs"], "s_a": tt(s_a),
            "eq_id": s_a == a, "hash_id": hash(s_a) == hash(a), "eq_ss": s_a == s_a2, "hash_ss": hash(s_a) == hash(s_a2),
            "eq_fresh": a == a2, "hash_fresh": hash(a) == hash(a2), "tv_a": _tv_names(a), "tv_s": _tv_names(s_a), "comm": comm,
        }
    except core.MachineryError:
        raise
    except Exception as exc:
        return {"tid": tid, "kind": "raised", "case": t, "exc": f"{type(exc).__name__}: {exc}"}


def _ctx_case(o: dict) -> dict:
    if o["kind"] == "pair":
        return {"kind": "pair", "a": o["a"], "b": o["b"]}
    return {"kind": "ctx", "a": o["a"], "m": o["m"], "bs": o["bs"]}


def adjudicate_ctx(observations: list[dict]) -> tuple[dict, dict]:
    return core.adjudicate("SubstContextsTrace", "SubstContextsTrace.cfg", observations, batch=4000, parallel=8)


def judge_ctx(check: core.Check, cases: list[dict], label: str) -> None:
    obs = core.pmap(observe_ctx, list(enumerate(cases)), chunk=500)
    good = [o for o in obs if o["kind"] != "raised"]
    for o in obs:
        if o["kind"] == "raised":
            check.violation(core.canon(o["case"]), "PublicApiRaised", {"case": o["case"], "exc": o["exc"], "source": label})
    verdicts, stats = adjudicate_ctx(good)
    check.add_trace_stats(stats)
    check.evals(len(obs))
    by_tid = {o["tid"]: o for o in good}
    for tid, vs in verdicts.items():
        o = by_tid[tid]
        for v in vs:
            if v.startswith("viol:"):
                check.violation(core.canon(_ctx_case(o)), v[5:], {"case": _ctx_case(o), "observed": o, "source": label})
            elif v.startswith("dev:"):
                check.violation(v[4:], v[4:], {"case": _ctx_case(o), "observed": o, "source": label})
            else:
                check.drift({"verdict": v, "case": o, "source": label})
    for c in cases:
        if c["kind"] == "ctx" and c["fs"] and c["h"] in ("T", "S"):
            check.nontrivial(core.canon([c["fs"], c["h"], c["m"]]))
        elif c["kind"] == "pair":
            check.nontrivial(core.canon([c["fa"], c["fb"], c["ha"], c["hb"]]))
    for o in good[:: max(1, len(good) // 2)][:2]:
        check.sample({"source": label, **o})


# sensitivity self-tests of the context slice: (cfg, invariant TLC must report as violated, what it shows)
CTX_SENSITIVITY = [
    ("SubstContexts.skipgeneric.cfg", "InvReplacesAll", "an ImplSubst that skips type[Generic[..]] (seed C14-3's family) breaks 'replaces every occurrence'"),
    ("SubstContexts.strict_replaces.cfg", "InvReplacesAllStrict", "UnpackedValue is not substituted (deviation is real on the model)"),
    ("SubstContexts.strict_structure.cfg", "InvStructureStrict", "the structural law sees the same deviation"),
    ("SubstContexts.strict_identity.cfg", "InvIdentityStrict", "a literal of a callable object is re-hashed by substitution"),
    ("SubstContexts.strict_walk.cfg", "InvWalkStrict", "walk_values misses UnpackedValue.value"),
    ("SubstContexts.bug_extrakeys.cfg", "InvWalk", "a walk_values that skips TypedDict extra_keys (the behaviour before fix b707bb5) is rejected"),
    ("SubstContexts.strict_paireqhash.cfg", "InvPairEqHashStrict", "Signature == ignores the parameter order, its hash does not"),
    ("SubstContexts.strict_pairdisc.cfg", "InvPairDiscriminatesStrict", "the same deviation makes == identify two different callable types"),
]


def _corrupted_observation_selftest() -> str:
    """Every clause of the trace specifications must fire on an observation that was corrupted accordingly (and a dev:
    verdict must turn into a viol: when the real result is not the one the deviating mechanism predicts)."""
    import copy

    T, S = {"k": "typevar", "n": "T"}, {"k": "typevar", "n": "S"}
    lst = lambda x: {"k": "generic", "c": "list", "args": [x]}  # noqa: E731
    none = {"k": "known", "o": {"c": "NoneType", "v": "None", "items": []}}
    bs = [_INT, T]
    base_open = observe_ctx((0, {"kind": "ctx", "a": lst(T), "m": "T->int", "bs": bs}))
    base_closed = observe_ctx((0, {"kind": "ctx", "a": lst(_INT), "m": "T->int", "bs": bs}))
    base_unp = observe_ctx((0, {"kind": "ctx", "a": lst({"k": "unpacked", "t": T}), "m": "T->int", "bs": bs}))
    tdx = {"k": "tdx", "c": "dict", "items": [{"key": "a", "req": True, "ro": False, "t": _INT}], "extra": [T], "xro": False}
    base_tdx = observe_ctx((0, {"kind": "ctx", "a": tdx, "m": "T->int", "bs": bs}))
    pair_same = observe_ctx((0, {"kind": "pair", "a": lst(T), "b": lst(T)}))
    pair_diff = observe_ctx((0, {"kind": "pair", "a": lst(T), "b": lst(S)}))
    for o in (base_open, base_closed, base_unp, base_tdx, pair_same, pair_diff):
        if o["kind"] == "raised":
            raise core.MachineryError(f"self-test observation raised: {o}")
    tests = []

    def add(base, expect, **changes):
        o = copy.deepcopy(base)
        for k, v in changes.items():
            if k == "comm0eq":
                o["comm"][0]["eq"] = v
            else:
                o[k] = v
        o["tid"] = len(tests)
        tests.append((o, expect))

    add(base_open, None)
    add(base_open, "viol:ReplacesEveryOccurrence", s_a=lst(T))
    add(base_open, "viol:SubstStructure", s_a=lst({"k": "typed", "c": "str"}))
    add(base_open, "viol:SubstStructure", s_a={"k": "seq", "c": "list", "ms": [{"many": False, "t": _INT}]})
    add(base_closed, "viol:SubstIdentityOnClosed", eq_id=False)
    add(base_closed, "viol:SubstIdentityOnClosed", hash_id=False)
    add(base_open, "viol:SubstCommutesWithUnite", comm0eq=False)
    add(base_open, "viol:EqualImpliesHashEqual", hash_ss=False)
    add(base_open, "viol:EqualImpliesHashEqual", hash_fresh=False)
    add(base_open, "viol:SeparatelyBuiltValuesEqual", eq_fresh=False)
    add(base_open, "viol:ExtractTypevarsAgrees", tv_a=[])
    add(base_open, "viol:ExtractTypevarsAgrees", tv_s=["T"])
    add(base_tdx, "viol:ExtractTypevarsAgrees", tv_a=[])  # the behaviour before fix b707bb5 is a violation now
    add(base_unp, "dev:unpacked-value-not-substituted")
    add(base_unp, "viol:ReplacesEveryOccurrence", s_a=lst({"k": "unpacked", "t": {"k": "union", "ms": [T, none]}}))  # not the predicted result
    add(pair_same, None)
    add(pair_same, "viol:EqualImpliesHashEqual", hash_ab=False)
    add(pair_same, "viol:EqDiscriminates", eq_ab=False, eq_ba=False)
    add(pair_diff, "viol:EqDiscriminates", eq_ab=True, eq_ba=True, hash_ab=True)
    add(pair_diff, "viol:EqSymmetric", eq_ba=True)
    verdicts, _ = adjudicate_ctx([o for o, _ in tests])
    for o, expect in tests:
        got = verdicts.get(o["tid"], [])
        bad = [v for v in got if not v.startswith("drift:")]
        if expect is None and bad:
            raise core.MachineryError(f"self-test: a faithful observation was judged {bad}")
        if expect is not None and expect not in got:
            raise core.MachineryError(f"self-test: corrupted observation did not yield {expect} (got {got}): {o}")
        if expect is not None and expect.startswith("viol:") and o.get("s_a") != base_unp["s_a"] and "dev:unpacked-value-not-substituted" in got:
            raise core.MachineryError(f"self-test: an unpredicted result was still classified as a known deviation: {got}")
    # AlgebraTrace.tla: the unhashable-literal deviation is only granted for the predicted results
    lit = {"k": "known", "o": {"c": "list", "v": "", "items": [{"c": "int", "v": "1", "items": []}]}}
    good = observe((0, {"a": lit, "b": _INT, "c": _INT, "m": "T->int"}))
    if good["kind"] == "raised":
        raise core.MachineryError(f"self-test observation raised: {good}")
    bad_o = copy.deepcopy(good)
    bad_o["tid"] = 1
    bad_o["eq_idem"] = False
    bad_o["u_aa"] = _INT  # not what the identity hash predicts (a two-member union)
    v2, _ = core.adjudicate("AlgebraTrace", "AlgebraTrace.cfg", [good, bad_o], batch=8000)
    if "dev:unhashable-literal-not-merged" not in v2.get(0, []) or "viol:Idempotent" not in v2.get(1, []):
        raise core.MachineryError(f"self-test: AlgebraTrace dev/viol classification is off: {v2}")
    return f"{len(tests) + 2} corrupted / faithful observations judged as expected"


def run(check: core.Check) -> None:
    from concurrent.futures import ThreadPoolExecutor

    quick = check.tier == "quick"
    rnd = random.Random(check.seed)
    check.assumptions += [
        "triples: 49 terms (literals incl. unhashable ones, typed, generic, sequence, subclass, newtype, typevars, unions incl. "
        "permuted and nested ones, TypedDict values incl. read-only / non-required generic entries, dict displays with "
        "optional and unpacked entries) x 6 type-variable maps",
        "contexts (SubstContexts.tla): 44 one-hole frames = every sub-value position of GenericValue (list / dict key / dict value), "
        "SequenceValue (fixed, unpacked member, list display), DictIncompleteValue (key, value, optional, is_many), TypedDictValue "
        "(required / not required / read-only entry, two entries in both declaration orders, extra_keys, extra_keys_readonly), SubclassValue (plain / exactly), "
        "MultiValuedValue (left / right member), AnnotatedValue (value, plain metadata, TypeGuard / TypeIs / ParameterTypeGuard / "
        "NoReturnGuard / HasAttr / HasAttrGuard extensions, CustomCheck + plain metadata in both orders), CallableValue (positional-only / with default / "
        "positional-or-keyword / *args / keyword-only / **kwargs annotation, return value, asynq, two named parameters in both "
        "orders), UnpackedValue, AsyncTaskIncompleteValue; nested to depth "
        + ("2" if quick else "3 (depth 3: 17 outer x 44 x 5 inner frames)")
        + "; fillers T, S, int and a literal of a function; 8 maps incl. a chain (T -> list[S], S -> int) and a swap (T -> S, S -> T)"
        + ("; at depth 2 each filler gets the 3-4 maps that touch it differently" if quick else ""),
        "not in the space: ParamSpec parameters (Signature.substitute_typevars splices the mapped signature), TypeVarValue bounds / "
        "constraints that mention another type variable, UnboundMethodValue, TypeAliasValue, KnownValueWithTypeVars as an input, "
        "overloaded / bound-method signatures",
    ]
    ctx_cfg = "SubstContexts.quick.cfg" if quick else "SubstContexts.thorough.cfg"
    jobs = {
        # the eleven law invariants and the emission of every triple in ONE pass over the 708 345 states
        "alg": ("AlgebraEmit", "Algebra.quickemit.cfg", 3400, core.NCPU),
        "strict1": ("Algebra", "Algebra.strict1.cfg", 900, 4),
        "strict2": ("Algebra", "Algebra.strict2.cfg", 900, 4),
        "ctx": ("SubstContextsEmit", ctx_cfg, 3000, core.NCPU),
        **{cfg: ("SubstContexts", cfg, 600, 2) for cfg, _, _ in CTX_SENSITIVITY},
    }
    # the TLC runs are independent of each other: run them side by side
    with ThreadPoolExecutor(len(jobs) + 1) as ex:
        futs = {name: ex.submit(core.run_tlc, mod, cfg, timeout=to, workers=w) for name, (mod, cfg, to, w) in jobs.items()}
        selftest = ex.submit(_corrupted_observation_selftest)
        results = {name: f.result() for name, f in futs.items()}
        selftest_text = selftest.result()
    res = core.require_ok(results["alg"], "Algebra exhaustive + emit")
    check.add_tlc("exhaustive+emit:Algebra.quickemit.cfg", res)
    for name, inv in (("strict1", "InvEqHashStrict"), ("strict2", "InvIdemStrict")):
        if results[name].violated != inv:
            raise core.MachineryError(f"sensitivity self-test failed: {inv} unexpectedly holds on the model")
    for cfg, inv, what in CTX_SENSITIVITY:
        r = results[cfg]
        if r.violated != inv:
            raise core.MachineryError(f"sensitivity self-test failed: {cfg} should violate {inv} ({what}); TLC said {r.violated or r.error}")
        if cfg == "SubstContexts.skipgeneric.cfg" and not re.search(r'cx = <<[^>]*"(type|exactly)"', r.stdout):
            raise core.MachineryError("sensitivity self-test: the skip-type-of-generic counterexample is not a type[...] context")
    check.cov["sensitivity"] = (
        "InvEqHashStrict and InvIdemStrict are violated on the model (the unhashable-literal deviation is real); "
        + "; ".join(f"{cfg}: TLC rejects {inv} ({what})" for cfg, inv, what in CTX_SENSITIVITY)
        + "; " + selftest_text
    )
    triples = core.emitted_json(res)
    if len(triples) < 700000:
        raise core.MachineryError(f"Algebra: only {len(triples)} triples were emitted")
    limit = 40000 if quick else 10**7
    exhaustive = len(triples) <= limit
    if not exhaustive:
        triples = rnd.sample(triples, limit)
    judge(check, triples, "tlc-exhaustive")
    # ---- context slice: model-checked and emitted by one TLC run, every emitted case replayed
    cx = core.require_ok(results["ctx"], "SubstContexts exhaustive + emit")
    check.add_tlc(f"exhaustive+emit:{ctx_cfg}", cx)
    cases = core.emitted_json(cx)
    n_ctx = sum(1 for c in cases if c["kind"] == "ctx")
    if n_ctx < 10000 or len(cases) - n_ctx < 3000:
        raise core.MachineryError(f"context slice: only {n_ctx} context cases / {len(cases) - n_ctx} pairs were emitted")
    by_depth: dict[str, int] = {}
    frames_seen = set()
    for c in cases:
        if c["kind"] == "ctx":
            by_depth[str(len(c["fs"]))] = by_depth.get(str(len(c["fs"])), 0) + 1
            frames_seen.update(c["fs"])
    check.cov["contexts"] = {
        "cfg": ctx_cfg, "context_cases": n_ctx, "by_depth": by_depth, "frames": len(frames_seen),
        "equality_pairs": len(cases) - n_ctx, "replayed": "all",
    }
    check.cov["exhaustive"] = exhaustive
    check.cov["rule"] = (
        "triples (a, b, c) x map m enumerated by TLC (" + ("all" if exhaustive else f"seeded sample of {limit}") + " replayed); "
        "non-trivial = neither a nor b is a plain class / Any.  Contexts: every (context of <= "
        + ("2" if quick else "3") + " frames, filler, map) and every equality pair enumerated by TLC is replayed; non-trivial = "
        "distinct (frames, variable filler, map) / (frames, fillers) combinations"
    )
    judge_ctx(check, cases, "tlc-contexts")


def replay(check: core.Check, witness: dict) -> None:
    c = witness["case"]
    if c.get("kind") in ("ctx", "pair"):
        judge_ctx(check, [{"fs": [], "h": "", "fa": [], "fb": [], "ha": "", "hb": "", **c}], "replay")
        return
    judge(check, [{k: c[k] for k in ("a", "b", "c", "m")}], "replay")
