"""C14 -- value algebra: unions form a semilattice; equality, hashing, substitution.

Model: spec/ValueAlgebra.tla (ImplEq, ImplSameHash, ImplUnite) + spec/Algebra.tla (ImplSubst, the laws,
named deviation classes).  TLC checks the laws on every triple of the bounded term space; every
triple is replayed through the real unite_values / == / hash / can_assign / substitute_typevars and
TLC adjudicates the real results (AlgebraTrace.tla).
"""
from __future__ import annotations

import random

from .. import assign_common as ac
from .. import codec, core, pyz
from .. import universe as U

LEVEL = "model_checking"

MAPS = {
    "T->int": {"T": {"k": "typed", "c": "int"}},
    "T->int|str": {"T": {"k": "union", "ms": [{"k": "typed", "c": "int"}, {"k": "typed", "c": "str"}]}},
    "T->str,S->1": {"T": {"k": "typed", "c": "str"}, "S": {"k": "known", "o": {"c": "int", "v": "1", "items": []}}},
    "T->S": {"T": {"k": "typevar", "n": "S"}},
    "T->Any": {"T": {"k": "any", "src": "explicit"}},
    "S->bool": {"S": {"k": "typed", "c": "bool"}},
}


def observe(arg):
    from pyanalyze.value import NO_RETURN_VALUE, unite_values

    tid, t = arg
    ck = pyz.get_checker()
    try:
        # every operand occurrence is decoded afresh: literals of unhashable objects hash by id(), so sharing one
        # Python object between occurrences would hide what happens to separately inferred equal literals
        def A():
            return codec.term_to_value(t["a"])

        def B():
            return codec.term_to_value(t["b"])

        def C():
            return codec.term_to_value(t["c"])

        a, b = A(), B()
        tvm = {U.TYPEVARS[n]: codec.term_to_value(v) for n, v in MAPS[t["m"]].items()}
        def tt(v):
            return codec.value_to_term(v, dictinc=True)

        u_ab, u_ba, u_aa = unite_values(A(), B()), unite_values(B(), A()), unite_values(A(), A())
        u_ab_c, u_a_bc = unite_values(unite_values(A(), B()), C()), unite_values(A(), unite_values(B(), C()))
        u_an, u_na = unite_values(A(), NO_RETURN_VALUE), unite_values(NO_RETURN_VALUE, A())
        s_a = A().substitute_typevars(tvm)
        s_uab = unite_values(A(), B()).substitute_typevars(tvm)
        u_sab = unite_values(A().substitute_typevars(tvm), B().substitute_typevars(tvm))
        closed = not (t["a"].get("k") == "typevar") 
        o = {
            "tid": tid, "kind": "alg", "a": t["a"], "b": t["b"], "c": t["c"], "m": t["m"],
            "u_ab": tt(u_ab), "u_ba": tt(u_ba), "u_aa": tt(u_aa), "u_ab_c": tt(u_ab_c), "u_a_bc": tt(u_a_bc),
            "eq_idem": u_aa == a, "eq_comm": u_ab == u_ba, "eq_assoc": u_ab_c == u_a_bc,
            "eq_never_r": u_an == a, "eq_never_l": u_na == a,
            "eq_ab": a == b, "hash_ab": hash(a) == hash(b),
            "s_a": tt(s_a), "s_uab": tt(s_uab), "u_sab": tt(u_sab),
            "eq_subst_closed": s_a == a, "eq_subst_unite": s_uab == u_sab,
        }
        static = True
        try:
            o["acc_a"] = ac.accepted(u_ab, a, ck)
            o["acc_b"] = ac.accepted(u_ab, b, ck)
        except Exception as exc:
            return {"tid": tid, "kind": "raised", **t, "exc": f"can_assign: {type(exc).__name__}: {exc}"}
        return o
    except core.MachineryError:
        raise
    except Exception as exc:
        return {"tid": tid, "kind": "raised", **t, "exc": f"{type(exc).__name__}: {exc}"}


def judge(check: core.Check, triples: list[dict], label: str) -> None:
    obs = core.pmap(observe, list(enumerate(triples)), chunk=1000)
    good = [o for o in obs if o["kind"] != "raised"]
    for o in obs:
        if o["kind"] == "raised":
            check.violation(core.canon({k: o[k] for k in ("a", "b", "c", "m")}), "PublicApiRaised", {"case": o, "source": label})
    verdicts, stats = core.adjudicate("AlgebraTrace", "AlgebraTrace.cfg", good, batch=8000, parallel=8)
    check.add_trace_stats(stats)
    check.evals(len(obs))
    by_tid = {o["tid"]: o for o in good}
    for tid, vs in verdicts.items():
        o = by_tid[tid]
        case = {k: o[k] for k in ("a", "b", "c", "m")}
        for v in vs:
            if v.startswith("viol:"):
                check.violation(core.canon(case), v[5:], {"case": o, "source": label})
            elif v.startswith("dev:"):
                check.violation(v[4:], v[4:], {"case": o, "source": label})
            else:
                check.drift({"verdict": v, "case": o, "source": label})
    for t in triples:
        if t["a"]["k"] not in ("typed", "any") and t["b"]["k"] not in ("typed", "any"):
            check.nontrivial(core.canon(t))
    for o in good[:: max(1, len(good) // 3)][:3]:
        check.sample({"source": label, **o})


# --------------------------------------------------------------------------- context slice (spec/SubstContexts.tla)
_INT = {"k": "typed", "c": "int"}
CTX_MAPS = {
    **MAPS,
    "T->list[S],S->int": {"T": {"k": "generic", "c": "list", "args": [{"k": "typevar", "n": "S"}]}, "S": _INT},
    "T->S,S->T": {"T": {"k": "typevar", "n": "S"}, "S": {"k": "typevar", "n": "T"}},
}


def _tv_names(v) -> list[str]:
    from pyanalyze.value import extract_typevars

    return sorted({getattr(tv, "__name__", "other") for tv in extract_typevars(v)})


def observe_ctx(arg):
    """One context case (a = C[filler], map m, companions bs) or one equality pair through the real code."""
    from pyanalyze.value import unite_values

    tid, t = arg
    tt = codec.value_to_term_wide
    try:
        if t["kind"] == "pair":
            a, b = codec.term_to_value(t["a"]), codec.term_to_value(t["b"])
            if tt(a) != t["a"] or tt(b) != t["b"]:
                raise core.MachineryError(f"codec is not faithful on {t['a']} / {t['b']}")
            return {"tid": tid, "kind": "pair", "a": t["a"], "b": t["b"], "eq_ab": a == b, "eq_ba": b == a,
                    "hash_ab": hash(a) == hash(b)}

        def A():  # every occurrence is decoded afresh (see observe)
            return codec.term_to_value(t["a"])

        tvm = {U.TYPEVARS[n]: codec.term_to_value(v) for n, v in CTX_MAPS[t["m"]].items()}
        a, a2 = A(), A()
        if tt(a) != t["a"]:
            raise core.MachineryError(f"codec is not faithful on {t['a']}: decodes to {a}, which encodes to {tt(a)}")
        s_a, s_a2 = A().substitute_typevars(tvm), A().substitute_typevars(tvm)
        comm = []
        for bt in t["bs"]:
            def B():
                return codec.term_to_value(bt)

            s_uab = unite_values(A(), B()).substitute_typevars(tvm)
            u_sab = unite_values(A().substitute_typevars(tvm), B().substitute_typevars(tvm))
            comm.append({"s_uab": tt(s_uab), "u_sab": tt(u_sab), "eq": s_uab == u_sab})
        return {
            "tid": tid, "kind": "ctx", "a": t["a"], "m": t["m"], "bs": t["bs"], "s_a": tt(s_a),
            "eq_id": s_a == a, "hash_id": hash(s_a) == hash(a), "eq_ss": s_a == s_a2, "hash_ss": hash(s_a) == hash(s_a2),
            "eq_fresh": a == a2, "hash_fresh": hash(a) == hash(a2), "tv_a": _tv_names(a), "tv_s": _tv_names(s_a), "comm": comm,
        }
    except core.MachineryError:
        raise
    except Exception as exc:
        return {"tid": tid, "kind": "raised", "case": t, "exc": f"{type(exc).__name__}: {exc}"}


def _ctx_case(o: dict) -> dict:
    if o["kind"] == "pair":
        return {"kind": "pair", "a": o["a"], "b": o["b"]}
    return {"kind": "ctx", "a": o["a"], "m": o["m"], "bs": o["bs"]}


def adjudicate_ctx(observations: list[dict]) -> tuple[dict, dict]:
    return core.adjudicate("SubstContextsTrace", "SubstContextsTrace.cfg", observations, batch=4000, parallel=8)


def judge_ctx(check: core.Check, cases: list[dict], label: str) -> None:
    obs = core.pmap(observe_ctx, list(enumerate(cases)), chunk=500)
    good = [o for o in obs if o["kind"] != "raised"]
    for o in obs:
        if o["kind"] == "raised":
            check.violation(core.canon(o["case"]), "PublicApiRaised", {"case": o["case"], "exc": o["exc"], "source": label})
    verdicts, stats = adjudicate_ctx(good)
    check.add_trace_stats(stats)
    check.evals(len(obs))
    by_tid = {o["tid"]: o for o in good}
    for tid, vs in verdicts.items():
        o = by_tid[tid]
        for v in vs:
            if v.startswith("viol:"):
                check.violation(core.canon(_ctx_case(o)), v[5:], {"case": _ctx_case(o), "observed": o, "source": label})
            elif v.startswith("dev:"):
                check.violation(v[4:], v[4:], {"case": _ctx_case(o), "observed": o, "source": label})
            else:
                check.drift({"verdict": v, "case": o, "source": label})
    for c in cases:
        if c["kind"] == "ctx" and c["fs"] and c["h"] in ("T", "S"):
            check.nontrivial(core.canon([c["fs"], c["h"], c["m"]]))
        elif c["kind"] == "pair":
            check.nontrivial(core.canon([c["fa"], c["fb"], c["ha"], c["hb"]]))
    for o in good[:: max(1, len(good) // 2)][:2]:
        check.sample({"source": label, **o})


def run(check: core.Check) -> None:
    quick = check.tier == "quick"
    rnd = random.Random(check.seed)
    check.assumptions += [
        "49 terms (literals incl. unhashable ones, typed, generic, sequence, subclass, newtype, typevars, unions incl. "
        "permuted and nested ones, TypedDict values incl. read-only / non-required generic entries, dict displays with "
        "optional and unpacked entries) x 6 type-variable maps; callable / annotated values are not in the space yet",
    ]
    res = core.require_ok(core.run_tlc("Algebra", "Algebra.quick.cfg", timeout=3400), "Algebra exhaustive")
    check.add_tlc("exhaustive:Algebra.quick.cfg", res)
    for cfg, inv in (("Algebra.strict1.cfg", "InvEqHashStrict"), ("Algebra.strict2.cfg", "InvIdemStrict")):
        r = core.run_tlc("Algebra", cfg, timeout=900)
        if r.violated != inv:
            raise core.MachineryError(f"sensitivity self-test failed: {inv} unexpectedly holds on the model")
    check.cov["sensitivity"] = "InvEqHashStrict and InvIdemStrict are violated on the model (the unhashable-literal deviation is real)"
    em = core.require_ok(core.run_tlc("AlgebraEmit", "Algebra.emit.cfg", timeout=3000), "Algebra emit")
    check.add_tlc("emit", em)
    triples = core.emitted_json(em)
    limit = 40000 if quick else 10**7
    exhaustive = len(triples) <= limit
    if not exhaustive:
        triples = rnd.sample(triples, limit)
    check.cov["exhaustive"] = exhaustive
    check.cov["rule"] = "triples (a, b, c) x map m enumerated by TLC; non-trivial = neither a nor b is a plain class / Any"
    judge(check, triples, "tlc-exhaustive")


def replay(check: core.Check, witness: dict) -> None:
    c = witness["case"]
    judge(check, [{k: c[k] for k in ("a", "b", "c", "m")}], "replay")
