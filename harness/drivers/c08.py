"""C08 -- overload resolution follows first-match and distributes over unions.

Model: spec/Overloads.tla -- the two-pass loop of OverloadedSignature.check_call as a state machine
(BindFilter / Try_Error / Try_Clean / Try_Any / Try_Union / Try_UnionAny / Finish_*), the binder,
check_call_with_bound_args, decompose_union and _unite_rets, against the declarative RefClause
(first accepting overload on ground types; a union argument = every member, each member's own call
judged by the same rule; an Any-bearing member -- Any, List[Any] -- = some unknown ground type, and
a member call whose unknown part can select overloads of different return types is Any).  The
"Any-used" bookkeeping (can_assign_and_used_any, the Any flag of decompose_union, the three
independent per-parameter tests of check_call_with_bound_args) is part of the machine: a step is
error / clean / any / union / union_any exactly as the code files it.

S->C: every (overload set, call) TLC enumerates is realised as real `@overload` stubs and a
`reveal_type(f(args))` line and checked by the real NameCheckVisitor.  C->S: the recorded verdict,
revealed type, the classification of every CallReturn of the second pass (observed by wrapping
Signature.check_call_preprocessed, or from the OverloadStep hook when /repo has it) and the real
CPython binding outcome of every overload are adjudicated by TLC against OverloadsTrace.tla.

This file contains no resolution logic: it renders cases, records what the real code did and hands
the records to TLC.
"""
from __future__ import annotations

import json
import random
import re
import time
import typing
from typing import Any

from .. import core, pyz

LEVEL = "model_checking"

# ------------------------------------------------------------------ codec: case -> source text

ATOM_PY = {"int": "int", "bool": "bool", "str": "str", "float": "float", "object": "object",
           "none": "None", "any": "Any",
           # generic, literal and enum members (Overloads.tla Members)
           "list[int]": "List[int]", "list[str]": "List[str]", "list[any]": "List[Any]",
           "L1": "Literal[1]", "L2": "Literal[2]", "La": "Literal['a']",
           "E": "E", "EA": "Literal[E.A]", "EB": "Literal[E.B]"}
HEADER = ("import enum\nfrom typing import Any, List, Union, overload\nfrom typing_extensions import Literal, reveal_type\n"
          "class E(enum.Enum):\n    A = 1\n    B = 2\n")
GROUPS_PER_MODULE = 24


def annot(name: str) -> str:
    parts = [ATOM_PY[p] for p in name.split("|")]
    return parts[0] if len(parts) == 1 else "Union[%s]" % ", ".join(parts)


def var(name: str) -> str:
    return "v_" + name.replace("|", "_").replace("[", "_").replace("]", "")


def render_sig(fname: str, sig: dict) -> list[str]:
    parts, star = [], False
    for p in sig["params"]:
        if p["kind"] == "ko" and not star:
            parts.append("*")
            star = True
        parts.append(f"{p['name']}: {annot(p['ty'])}" + (" = ..." if p["dflt"] else ""))
    return ["@overload", f"def {fname}({', '.join(parts)}) -> Literal[{sig['ret']}]: ..."]


def render_call(fname: str, call: list[dict]) -> str:
    args = [(a["kw"] + "=" if a["kw"] else "") + var(a["ty"]) for a in call]
    return f"reveal_type({fname}({', '.join(args)}))"


def render_module(groups: list[dict]) -> tuple[str, dict[int, tuple[int, int]]]:
    """One module for several overload sets; returns (source, {lineno: (group index, call index)})."""
    lines = HEADER.splitlines()
    where: dict[int, tuple[int, int]] = {}
    for g, grp in enumerate(groups):
        fname = f"f{g}"
        for sig in grp["sigs"]:
            lines += render_sig(fname, sig)
        lines.append(f"def {fname}(*args: Any, **kwargs: Any) -> Any: raise NotImplementedError")
        tys = sorted({a["ty"] for call in grp["calls"] for a in call})
        lines.append(f"def c{g}({', '.join(f'{var(t)}: {annot(t)}' for t in tys)}) -> None:")
        for k, call in enumerate(grp["calls"]):
            lines.append("    " + render_call(fname, call))
            where[len(lines)] = (g, k)
        if not grp["calls"]:
            lines.append("    pass")
    return "\n".join(lines) + "\n", where


# ------------------------------------------------------------------ observing the real code

_rec: dict[str, Any] = {"stack": [], "by_line": {}}
_RE_LIT = re.compile(r"^Literal\[(\d+(?:, \d+)*)\]$")
_RE_ANY = re.compile(r"^Any\[(\w+)\]$")


def _classify(ret: Any) -> str:
    """The branch of the second-pass loop a CallReturn takes (what an OverloadStep hook would emit)."""
    if ret.is_error:
        return "error"
    if ret.remaining_arguments is not None:
        return "union_any" if ret.used_any_for_match else "union"
    return "any" if ret.used_any_for_match else "clean"


def _install_recorder() -> None:
    """Wrap (in this process only, /repo is not touched) OverloadedSignature.check_call and
    Signature.check_call_preprocessed so that every CallReturn of the second pass is recorded."""
    from pyanalyze import signature as S

    if getattr(S, "_c08_recorder", False):
        return
    orig_check = S.OverloadedSignature.check_call
    orig_pre = S.Signature.check_call_preprocessed

    def check_call(self, args, visitor, node):  # type: ignore[no-untyped-def]
        frame = {"sigs": self.signatures, "steps": []}
        _rec["stack"].append(frame)
        try:
            return orig_check(self, args, visitor, node)
        finally:
            _rec["stack"].pop()
            _rec["by_line"].setdefault(getattr(node, "lineno", None), []).append(frame["steps"])

    def check_call_preprocessed(self, preprocessed, ctx, **kw):  # type: ignore[no-untyped-def]
        ret = orig_pre(self, preprocessed, ctx, **kw)
        if _rec["stack"] and "is_overload" in kw:
            frame = _rec["stack"][-1]
            for idx, s in enumerate(frame["sigs"]):
                if s is self:
                    frame["steps"].append({"i": idx + 1, "c": _classify(ret)})
                    break
        return ret

    S.OverloadedSignature.check_call = check_call
    S.Signature.check_call_preprocessed = check_call_preprocessed
    S._c08_recorder = True


def _hook_present() -> bool:
    from pyanalyze import signature as S

    try:
        import inspect

        return '"OverloadStep"' in inspect.getsource(S.OverloadedSignature.check_call)
    except Exception:
        return False


def _parse_revealed(text: str) -> dict:
    m = re.search(r"Revealed type is '(.*)'", text)
    shown = m.group(1) if m else text
    ml = _RE_LIT.match(shown)
    if ml:
        return {"ty": [int(x) for x in ml.group(1).split(", ")], "anyk": ""}
    ma = _RE_ANY.match(shown)
    if ma:
        return {"ty": [], "anyk": ma.group(1)}
    return {"ty": [0], "anyk": "", "raw": shown}  # label 0 is never declared: TLC will flag it


def _pybind(mod: Any, fname: str, call: list[dict]) -> list[bool]:
    """Real CPython: can the argument shape of `call` be bound to each overload's def?"""
    out = []
    npos = sum(1 for a in call if not a["kw"])
    kws = {a["kw"]: None for a in call if a["kw"]}
    for ov in typing.get_overloads(getattr(mod, fname)):
        try:
            ov(*([None] * npos), **kws)
            out.append(True)
        except TypeError:
            out.append(False)
    return out


def observe_module(groups: list[dict], checker: Any) -> list[dict]:
    """Observe one module; if the real checker raises, isolate the call it raises on: an exception where the
    property needs a verdict is recorded as st="raised" (TLC reports it as viol:Raised)."""
    try:
        return _observe_module(groups, checker)
    except core.MachineryError:
        raise
    except Exception as exc:  # the real code raised
        if len(groups) > 1:
            return [o for g in groups for o in observe_module([g], checker)]
        g = groups[0]
        if len(g["calls"]) > 1:
            parts = [observe_module([{"sigs": g["sigs"], "calls": [c]}], checker)[0] for c in g["calls"]]
            return [{"sigs": g["sigs"], "calls": [p["calls"][0] for p in parts]}]
        src, _where = render_module(groups)
        mod = pyz.make_module(src)
        rec = {"call": g["calls"][0], "steps": [], "pybind": _pybind(mod, "f0", g["calls"][0]),
               "real": {"st": "raised", "ty": [], "anyk": "", "code": type(exc).__name__}}
        typing.clear_overloads()
        return [{"sigs": g["sigs"], "calls": [rec]}]


def _observe_module(groups: list[dict], checker: Any) -> list[dict]:
    from pyanalyze import _verif_trace

    src, where = render_module(groups)
    mod = pyz.make_module(src)
    _rec["by_line"] = {}
    _rec["stack"] = []
    sink: list[dict] | None = [] if _hook_present() else None
    if sink is not None:
        _verif_trace.set_sink(sink)
    try:
        fails = pyz.check_source(src, checker=checker, module=mod)
    finally:
        if sink is not None:
            _verif_trace.set_sink(None)
    per_line: dict[int, list[dict]] = {}
    for f in fails:
        ln = f.get("lineno")
        if ln not in where:
            raise core.MachineryError(f"realisation raised an unexpected diagnostic {f.get('code')} line {ln}: "
                                      f"{f.get('description')}\n{src}")
        per_line.setdefault(ln, []).append(f)
    hook_steps: dict[int, list[list[dict]]] = {}
    for ev in sink or []:
        if ev["event"] == "OverloadBegin":
            hook_steps.setdefault(ev["lineno"], []).append([])
        elif ev["event"] == "OverloadStep":
            hook_steps.setdefault(ev["lineno"], [[]])[-1].append({"i": ev["index"] + 1, "c": ev["cls"]})
    out = [{"sigs": g["sigs"], "calls": [None] * len(g["calls"])} for g in groups]
    for ln, (g, k) in where.items():
        call = groups[g]["calls"][k]
        revealed, codes = None, []
        for f in per_line.get(ln, []):
            name = getattr(f["code"], "name", str(f["code"]))
            if name == "reveal_type":
                revealed = _parse_revealed(f.get("message") or f.get("description") or "")
            else:
                codes.append(name)
        if revealed is None:
            raise core.MachineryError(f"no reveal_type output on line {ln}\n{src}")
        runs = hook_steps.get(ln) or _rec["by_line"].get(ln) or []      # the hook's events when /repo has the hook
        crashed = "internal_error" in codes      # the visitor turns an exception of the checker into this diagnostic
        if not runs and not crashed:
            raise core.MachineryError(f"OverloadedSignature.check_call was not reached on line {ln}\n{src}")
        steps = runs[-1] if runs else []
        real = {"st": "raised" if crashed else "err" if codes else "ok", "ty": revealed["ty"], "anyk": revealed["anyk"],
                "code": "+".join(sorted(set(codes)))}
        rec = {"call": call, "real": real, "steps": steps, "pybind": _pybind(mod, f"f{g}", call)}
        if any(r != steps for r in runs):
            rec["steps"] = [{"i": 0, "c": "unstable"}]  # visited twice with different outcomes: shows as drift
        if "raw" in revealed:
            rec["raw"] = revealed["raw"]
        out[g]["calls"][k] = rec
    typing.clear_overloads()
    return out


def observe_batch(groups: list[dict]) -> list[dict]:
    """Worker: a fresh Checker per batch (its signature cache would otherwise keep every module)."""
    _install_recorder()
    checker = pyz.get_checker(fresh=True)
    out: list[dict] = []
    for i in range(0, len(groups), GROUPS_PER_MODULE):
        out += observe_module(groups[i : i + GROUPS_PER_MODULE], checker)
    return out


# ------------------------------------------------------------------ adjudication by TLC


def group_cases(cases: list[dict]) -> list[dict]:
    by: dict[str, dict] = {}
    for c in cases:
        key = core.canon(c["sigs"])
        g = by.setdefault(key, {"sigs": c["sigs"], "calls": []})
        g["calls"].append(c["call"])
    return list(by.values())


def _nontrivial(rec: dict) -> bool:
    return len(rec["steps"]) >= 2 or any("|" in a["ty"] or "any" in a["ty"] for a in rec["call"])


def _adjudicate(observed: list[dict], lines_per_run: int, threads: int = 12) -> tuple[dict, dict]:
    """core.adjudicate on several TLC processes at once."""
    from concurrent.futures import ThreadPoolExecutor

    chunks = [observed[i : i + lines_per_run] for i in range(0, len(observed), lines_per_run)]

    def one(chunk: list[dict]) -> tuple[dict, dict]:
        for _ in range(50):
            try:
                return core.adjudicate("OverloadsTrace", "OverloadsTrace.cfg", chunk, batch=10**9, timeout=3000)
            except FileExistsError:
                continue
        raise core.MachineryError("could not obtain a scratch directory for trace validation")

    verdicts: dict = {}
    stats = {"observations": 0, "states": 0, "transitions": 0, "batches": 0}
    with ThreadPoolExecutor(threads) as ex:
        for v, st in ex.map(one, chunks):
            for tid, vs in v.items():
                verdicts.setdefault(tid, []).extend(vs)
            for k in stats:
                stats[k] += st[k]
    return verdicts, stats


def judge(check: core.Check, cases: list[dict], label: str) -> dict[str, int]:
    t0 = time.time()
    groups = group_cases(cases)
    per_batch = 6 * GROUPS_PER_MODULE
    batches = [groups[i : i + per_batch] for i in range(0, len(groups), per_batch)]
    observed = [o for part in core.pmap(observe_batch, batches, chunk=1) for o in part]
    for tid, o in enumerate(observed):
        o["tid"] = tid
    ncalls = sum(len(o["calls"]) for o in observed)
    t1 = time.time()
    lines_per_run = max(50, min(1500, (len(observed) + 11) // 12))
    verdicts, stats = _adjudicate(observed, lines_per_run)
    PHASES.append({"what": label, "calls": ncalls, "real_checker_s": round(t1 - t0, 1), "tlc_adjudication_s": round(time.time() - t1, 1)})
    stats["observations"] = ncalls          # one observation = one real call checked by the real visitor
    for o in observed:
        for rec in o["calls"]:
            for st in rec["steps"]:
                REAL_STEP_CLASSES[st["c"]] = REAL_STEP_CLASSES.get(st["c"], 0) + 1
    check.add_trace_stats(stats)
    check.evals(ncalls)
    tally = {"viol": 0, "dev": 0, "drift": 0}
    for o in observed:
        for rec in o["calls"]:
            if _nontrivial(rec):
                check.nontrivial(core.canon([o["sigs"], rec["call"]]))
        for v in verdicts.get(o["tid"], []):
            what, _, k = v.rpartition("@")
            rec = o["calls"][int(k) - 1]
            case = {"sigs": o["sigs"], "call": rec["call"]}
            payload = {"case": case, "source": label, "real": rec["real"], "steps": rec["steps"],
                       "src": render_module([{"sigs": o["sigs"], "calls": [rec["call"]]}])[0]}
            if what.startswith("viol:"):
                tally["viol"] += 1
                check.violation(core.canon(case), what[5:], payload)
            elif what.startswith("dev:"):
                tally["dev"] += 1
                check.violation(what[4:], what[4:], payload)
            elif what.startswith("oracle:"):
                raise core.MachineryError(f"oracle model disagrees with real CPython ({what}) on {core.canon(case)}: "
                                          f"pybind={rec['pybind']}")
            else:
                tally["drift"] += 1
                check.drift({"verdict": what, **payload})
    for o in observed[:: max(1, len(observed) // 3)][:3]:
        check.sample({"source": label, "sigs": o["sigs"], "first_call": o["calls"][0] if o["calls"] else None})
    return tally


# ------------------------------------------------------------------ the check

# q_any1 / q_any2 / q_any3 / q_lits: the "Any-used" slices -- unions with an Any or list[Any] member in either
# position, generic / literal / enum members, the union in one argument and Any in the other, keywords, defaults.
# (q_any2 contains the former q_types2 slice: the same overload sets, one more argument type.)
EXHAUSTIVE = {
    "quick": ["Overloads.q_types1.cfg", "Overloads.q_any1.cfg", "Overloads.q_any2.cfg", "Overloads.q_any3.cfg",
              "Overloads.q_lits.cfg", "Overloads.q_kinds.cfg", "Overloads.q_defaults.cfg"],
    "thorough": ["Overloads.t_types1.cfg", "Overloads.t_types2.cfg", "Overloads.t_types3.cfg", "Overloads.t_four.cfg",
                 "Overloads.t_kinds.cfg", "Overloads.t_kinds2.cfg", "Overloads.t_defaults.cfg", "Overloads.t_defaults2.cfg",
                 "Overloads.t_kinds0.cfg", "Overloads.t_defaults0.cfg",      # = q_kinds / q_defaults, every case replayed
                 "Overloads.q_types2.cfg", "Overloads.q_any1.cfg", "Overloads.q_any2.cfg", "Overloads.t_any1.cfg",
                 "Overloads.t_any2.cfg", "Overloads.t_any3.cfg", "Overloads.t_lits.cfg"],
}
ACTIONS = ["AddParam", "CloseSig", "StartCall", "AddArg", "StartRun", "BindFilter_None", "BindFilter_Some",
           "Try_Error", "Try_Clean", "Try_Any", "Try_Union", "Try_UnionAny", "Finish_AnyRets", "Finish_NoMatch"]
MACHINE_ACTIONS = [a for a in ACTIONS if a.startswith(("BindFilter", "Try_", "Finish_"))]   # the generator's own actions
# (AddParam ... StartRun) are exercised whenever TLC emits a case with parameters and arguments
PHASES: list[dict] = []
REAL_STEP_CLASSES: dict[str, int] = {}     # second-pass branches the REAL loop took, over all observations
SENSITIVITY = [("Overloads.bug_anyfirst.cfg", "PropertyHolds"), ("Overloads.bug_nonarrow.cfg", "PropertyHolds"),
               ("Overloads.bug_elifchain.cfg", "PropertyHolds"), ("Overloads.strict.cfg", "PropertyHoldsStrict")]


def _tlc_jobs(jobs: list[tuple[str, Any]], threads: int) -> dict[str, Any]:
    """Run independent TLC jobs on a thread pool (each TLC is its own JVM); {name: result}."""
    from concurrent.futures import ThreadPoolExecutor

    with ThreadPoolExecutor(threads) as ex:
        futs = {name: ex.submit(fn) for name, fn in jobs}
        return {name: f.result() for name, f in futs.items()}


def run(check: core.Check) -> None:
    quick = check.tier == "quick"
    rnd = random.Random(check.seed)
    check.assumptions += [
        "TLC and the TLA+ definitions of Overloads.tla (RefClause: first accepting overload on ground types; union "
        "argument = every member, each member's own call judged by the same rule; an Any-bearing member (Any, "
        "List[Any]) = some unknown ground type, its own call is Any when the unknown part can select overloads of "
        "different return types, and only Any contains Any; assignability = nominal subtyping over "
        "{int,bool,str,None,float,object} plus int->float, Literal[1]/Literal[2]/Literal['a'] and the members of an "
        "enum as values of their class, List[int]/List[str] accepted only by the identical list type, List[Any] and object)",
        "overload sets are realised with typing.overload stubs returning Literal[n]; arguments are parameters "
        "annotated with the argument type; the verdict is read from the diagnostics on the call line, the type "
        "from reveal_type",
        "the binder part of the oracle is validated against real CPython calls on every observation",
    ]
    # 1. the design: the machine satisfies the property on every enumerated case.  The slices, the coverage run and
    # the sensitivity runs are independent TLC processes: they run side by side (workers shared out over the cores).
    cfgs = EXHAUSTIVE[check.tier]
    wk = max(2, core.NCPU // 4)
    jobs: list[tuple[str, Any]] = [
        ("ex:" + cfg, (lambda cfg=cfg: core.run_tlc("OverloadsEmit", cfg, seed=check.seed + 3, workers=wk, timeout=3000, heap="3g")))
        for cfg in cfgs
    ]
    # vacuity: every branch of the machine is exercised.  (TLC -coverage cannot be used: its cost model does not get
    # through the vocabulary table of Overloads.tla; instead every running state of a small slice that reaches every
    # branch of the loop prints the branch it takes -- OverloadsEmit!EmitKinds -- and the prints are counted here.)
    jobs.append(("cov", lambda: core.run_tlc("OverloadsEmit", "Overloads.cov.cfg", workers=2, timeout=900, heap="2g")))
    # sensitivity: a plausible bug switched on in the model must violate the invariant
    jobs += [("sens:" + cfg, (lambda cfg=cfg: core.run_tlc("Overloads", cfg, workers=2, timeout=600, heap="2g"))) for cfg, _inv in SENSITIVITY]
    done = _tlc_jobs(jobs, threads=6 if quick else 5)
    cases: list[dict] = []
    for cfg in cfgs:
        res = core.require_ok(done["ex:" + cfg], "Overloads " + cfg)
        check.add_tlc("exhaustive:" + cfg, res)
        got = core.emitted_json(res)
        if not got:
            raise core.MachineryError(f"{cfg}: TLC emitted no cases")
        cases += got
        res.stdout, res.printed = "", []      # the emitted lines are large: not kept while the replay workers are forked
    cov = core.require_ok(done["cov"], "Overloads coverage")
    kinds: dict[str, int] = {}
    for line in cov.printed:
        mk = re.match(r'^<<"KIND", "(\w+)">>$', line.strip())
        if mk:
            kinds[mk.group(1)] = kinds.get(mk.group(1), 0) + 1
    cov.coverage = {k: (n, n) for k, n in kinds.items()}
    core.require_coverage(cov, MACHINE_ACTIONS, "Overloads.cov.cfg (EmitKinds)")
    check.add_tlc("coverage:Overloads.cov.cfg", cov)
    for cfg, inv in SENSITIVITY:
        r = done["sens:" + cfg]
        if r.violated != inv:
            raise core.MachineryError(f"sensitivity self-test failed: {cfg} does not violate {inv} ({r.error})")
    del done
    check.cov["sensitivity"] = ("model with Bug=first_any_wins (an Any match returns the first overload, pyright's rule), "
                                "with Bug=no_narrow (the union argument is not narrowed after a partial match) and with "
                                "Bug=elif_chain (the three per-parameter tests of check_call_with_bound_args as one if/elif "
                                "chain: the Any flag of a decomposed parameter is dropped) violates PropertyHolds; "
                                "PropertyHoldsStrict (without the named deviation) is violated: the known deviation is real "
                                "in the model")
    if not quick:
        # the repair proposed in /verif/proposed/C08-fix-1.diff, modelled by Bug=fix_any_last, removes the deviation
        fx = core.run_tlc("Overloads", "Overloads.fixcheck.cfg", timeout=900)
        check.add_tlc("fixcheck:Overloads.fixcheck.cfg", fx)
        check.cov["fixcheck"] = ("model with the proposed repair satisfies PropertyHoldsStrict on the q_types2 slice"
                                 if fx.ok else f"model with the proposed repair still violates: {fx.violated}")
    # 2. S->C: replay through the real visitor, adjudicated by TLC
    limit = 125000 if quick else 500000
    uniq = {core.canon([c["sigs"], c["call"]]): c for c in cases}
    cases = list(uniq.values())
    check.cov["model_cases"] = len(cases)
    exhaustive = len(cases) <= limit
    if not exhaustive:
        # sample whole overload sets (so that modules stay dense) up to the limit
        groups = group_cases(cases)
        rnd.shuffle(groups)
        picked, n = [], 0
        for g in groups:
            if n >= limit:
                break
            picked.append(g)
            n += len(g["calls"])
        cases = [{"sigs": g["sigs"], "call": call} for g in picked for call in g["calls"]]
    sampled_in_tlc = [cfg for cfg in EXHAUSTIVE[check.tier]
                      if "EmitOneIn = 1\n" not in (core.SPEC / "mc" / cfg).read_text()]
    exhaustive = exhaustive and not sampled_in_tlc
    check.cov["replay_sampled_slices"] = sampled_in_tlc      # TLC checked every state; only 1 in EmitOneIn was emitted
    check.cov["exhaustive"] = exhaustive
    check.cov["replayed_cases"] = len(cases)
    check.cov["rule"] = (
        "cases = (overload set, call) states with stage=done of Overloads.tla over the slices " + ", ".join(EXHAUSTIVE[check.tier])
        + "; non-trivial = a union or Any-bearing argument, or at least two overloads reached in the second pass"
        + ".  Any-used slices: q_any1 = 2-3 overloads of one parameter over {int,str,object,Any,List[int],List[Any]} x "
        "arguments {Any, List[Any], Any|str, str|Any, Any|None, int|str|Any, List[Any]|str, str|List[Any], Any|List[int], "
        "List[int]|str} positional and by keyword; q_any2 = 2 overloads of two parameters over {int,str,Any} x two arguments "
        "over {int, Any, Any|str, int|str} (the union in one argument, Any in the other; keywords in both orders); q_any3 = "
        "1-2 parameters with and without defaults x {Any|str, Any}; q_lits = Literal / enum members and their unions.  "
        "The second-pass step classes (error/clean/any/union/union_any per overload tried) of every replayed call are "
        "compared with the machine's steps by TLC (drift:steps), also next to a viol:/dev: verdict"
    )
    judge(check, cases, "tlc-exhaustive")
    # 3. beyond the exhaustive bound: TLC simulation of 2-4 overloads with every feature on
    num = 1500 if quick else 10000
    sim = core.require_ok(
        core.run_tlc("OverloadsEmit", "Overloads.sim.cfg", workers=1, simulate=f"num={num}", depth=40,
                     seed=check.seed + 8, timeout=2400),
        "Overloads simulate",
    )
    check.add_tlc("simulate:Overloads.sim.cfg", sim)
    simc = {core.canon(c): c for c in core.emitted_json(sim)}
    check.cov["simulated_cases"] = len(simc)
    if len(simc) < num // 4:
        raise core.MachineryError(f"simulation produced only {len(simc)} distinct cases")
    judge(check, list(simc.values()), "tlc-simulate")
    missing = [c for c in ("error", "clean", "any", "union", "union_any") if not REAL_STEP_CLASSES.get(c)]
    if missing:
        raise core.MachineryError(f"the real loop never took the branches {missing} in the replayed cases")
    check.cov["replay_phases"] = PHASES
    check.cov["real_second_pass_branches"] = dict(sorted(REAL_STEP_CLASSES.items()))
    # 4. the binding itself: corrupted records must be flagged by TLC
    selftest_binding(check)


def replay(check: core.Check, witness: dict) -> None:
    judge(check, [witness["case"]], "replay")


# ------------------------------------------------------------------ binding self-test


def _p(name: str, ty: str) -> dict:
    return {"name": name, "kind": "pk", "ty": ty, "dflt": False}


def _pos(*tys: str) -> list[dict]:
    return [{"kw": "", "ty": t} for t in tys]


# (overload set, calls) the self-test observes with the real checker before corrupting one field
_SELFTEST_GROUPS = {
    "plain": {"sigs": [{"params": [_p("x", "int")], "ret": 1}, {"params": [_p("x", "str")], "ret": 2}],
              "calls": [_pos("int"), _pos("int|str"), _pos("any"), _pos("none"), _pos("any|str"), _pos("list[any]|str")]},
    "three": {"sigs": [{"params": [_p("x", "int")], "ret": 1}, {"params": [_p("x", "none")], "ret": 2},
                       {"params": [_p("x", "str")], "ret": 3}],
              "calls": [_pos("any|str")]},
    "lists": {"sigs": [{"params": [_p("x", "list[int]")], "ret": 1}, {"params": [_p("x", "list[str]")], "ret": 2},
                       {"params": [_p("x", "str")], "ret": 3}],
              "calls": [_pos("list[any]|str")]},
    # the known deviation any-match-then-partial-last-overload
    "dev": {"sigs": [{"params": [_p("x", "int"), _p("y", "any")], "ret": 1}, {"params": [_p("x", "str"), _p("y", "int")], "ret": 2}],
            "calls": [_pos("any", "int|str")]},
}


def _set_step(rec: dict, n: int, cls: str) -> None:
    if rec["steps"][n]["c"] == cls:
        raise core.MachineryError(f"binding self-test: step {n} of {rec['call']} already is {cls}")
    rec["steps"][n]["c"] = cls


def selftest_binding(check: core.Check) -> None:
    """Corrupt one recorded field at a time and require TLC's verdict to flag exactly that."""
    dev = "dev:any-match-then-partial-last-overload"
    mutations = [
        ("nothing", "plain", 0, lambda rec: None, []),
        ("revealed type of f(int)", "plain", 0, lambda rec: rec["real"].update(ty=[2]), ["viol:FirstMatch"]),
        ("revealed type of f(int|str)", "plain", 1, lambda rec: rec["real"].update(ty=[1]), ["viol:UnionContains"]),
        ("revealed type of f(Any)", "plain", 2, lambda rec: rec["real"].update(ty=[1], anyk=""), ["viol:AnyNeverSelectsOne"]),
        ("verdict of f(None)", "plain", 3, lambda rec: rec["real"].update(st="ok"), ["viol:Verdict"]),
        ("second-pass steps of f(int|str)", "plain", 1, lambda rec: rec["steps"].reverse(), ["drift:steps"]),
        ("CPython binding of f(int)", "plain", 0, lambda rec: rec.update(pybind=[True, False]), ["oracle:binder"]),
        # the Any-used bookkeeping of union decomposition (what a dropped Any flag of the decomposed parameter does)
        ("revealed type of f(Any|str): the concrete union instead of Any", "plain", 4,
         lambda rec: rec["real"].update(ty=[1, 2], anyk=""), ["viol:UnionContains"]),
        ("step class of f(Any|str): union_any filed as union", "plain", 4, lambda rec: _set_step(rec, 0, "union"), ["drift:steps"]),
        ("both, as the real code would", "plain", 4,
         lambda rec: (rec["real"].update(ty=[1, 2], anyk=""), _set_step(rec, 0, "union")), ["viol:UnionContains", "drift:steps"]),
        ("revealed type of f(List[Any]|str) on (List[int], List[str], str): every overload's type instead of Any", "lists", 0,
         lambda rec: rec["real"].update(ty=[1, 2, 3], anyk=""), ["viol:UnionContains"]),
        ("revealed type of f(List[Any]|str): List[str] left out", "lists", 0,
         lambda rec: rec["real"].update(ty=[1, 3], anyk=""), ["viol:AnyNeverSelectsOne"]),
        ("step class of f(List[Any]|str)", "lists", 0, lambda rec: _set_step(rec, 0, "union"), ["drift:steps"]),
        ("revealed type of f(Any|str) on three overloads: the middle one is left out", "three", 0,
         lambda rec: rec["real"].update(ty=[1, 3], anyk=""), ["viol:AnyNeverSelectsOne"]),
        # a named deviation excuses only the result its model predicts
        ("nothing (known deviation)", "dev", 0, lambda rec: None, [dev]),
        ("revealed type inside the known deviation", "dev", 0, lambda rec: rec["real"].update(ty=[2]), ["viol:AnyNeverSelectsOne"]),
    ]
    names = list(_SELFTEST_GROUPS)
    base = dict(zip(names, observe_batch([_SELFTEST_GROUPS[n] for n in names])))
    if [s["c"] for s in base["plain"]["calls"][4]["steps"]] != ["union_any", "clean"]:
        raise core.MachineryError(f"binding self-test: f(Any|str) was not observed as union_any, clean: {base['plain']['calls'][4]}")
    observed = []
    for tid, (_name, g, k, mutate, _want) in enumerate(mutations):
        o = json.loads(json.dumps(base[g]))
        o["tid"] = tid
        mutate(o["calls"][k])
        observed.append(o)
    verdicts, _stats = core.adjudicate("OverloadsTrace", "OverloadsTrace.cfg", observed, batch=10**9, timeout=600)
    for tid, (name, g, k, _mutate, want) in enumerate(mutations):
        got = sorted(verdicts.get(tid, []))
        expected = sorted(f"{w}@{k + 1}" for w in want)
        if got != expected:
            raise core.MachineryError(f"binding self-test: corrupted {name}: TLC said {got}, expected {expected}")
    check.cov["binding_selftest"] = (f"{len(mutations) - 2} corrupted records (revealed types incl. the concrete union where a union member's own "
                                     "call is Any, a verdict, step lists incl. union_any filed as union, a CPython binding, a result "
                                     "inside the known deviation that its model does not predict) were each flagged by TLC with the "
                                     "expected verdict (viol:<clause> / drift:steps / oracle:binder); the uncorrupted records pass "
                                     "(the known deviation as dev:<class>)")
