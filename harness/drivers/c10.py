"""C10 -- diagnostics are deterministic and independent of prior checks.

Model: spec/Determinism.tla (set-iteration sites as schedule choices; the Checker as a cache machine).
TLC draws schedules (hash seed, sequence of programs checked by ONE Checker); each schedule runs in a
fresh subprocess with that PYTHONHASHSEED (harness/c10_worker.py); the recorded renderings are validated
by TLC (DeterminismTrace.tla): every program must always render exactly as the first time it was seen.
"""
from __future__ import annotations

import hashlib
import json
import os
import random
import subprocess

from .. import c10_programs, core, corpus

LEVEL = "model_checking"


def run_schedule(arg):
    idx, sched, progs = arg
    if "corpus" in sched:
        job = {"corpus": sched["corpus"]}
    else:
        job = {"sequence": [{"pid": pid, "src": progs[pid]["src"]} for pid in sched["pids"]]}
    env = dict(os.environ, PYTHONHASHSEED=str(sched["hashseed"]), PYANALYZE_VERIF="1")
    r = subprocess.run(["/venv/bin/python", "-m", "harness.c10_worker"], input=json.dumps(job), capture_output=True,
                       text=True, cwd=str(core.VERIF), env=env, timeout=600)
    if r.returncode != 0:
        raise core.MachineryError(f"c10 worker failed: {r.stderr[-1500:]}")
    return json.loads(r.stdout.strip().splitlines()[-1])


def run(check: core.Check) -> None:
    quick = check.tier == "quick"
    rnd = random.Random(check.seed)
    progs = c10_programs.programs()
    by_family: dict[str, list[str]] = {}
    for pid, p in progs.items():
        by_family.setdefault(p["family"], []).append(pid)
    check.assumptions += [
        "renderings compared: error code, line, column and full message text of every diagnostic, module-name tokens "
        "and object addresses normalised",
        "each schedule is one fresh process (own PYTHONHASHSEED, own memory layout) with one Checker shared by the sequence",
    ]
    res = core.require_ok(core.run_tlc("Determinism", "Determinism.quick.cfg" if quick else "Determinism.thorough.cfg",
                                       coverage=True, timeout=1800), "Determinism exhaustive")
    core.require_coverage(res, ["ChooseSeed", "Check"], "Determinism")
    check.add_tlc("exhaustive", res)
    for cfg, inv in (("Determinism.pinned.cfg", "Deterministic"), ("Determinism.strict.cfg", "DeterministicStrict")):
        r = core.run_tlc("Determinism", cfg, timeout=300)
        if r.violated != inv:
            raise core.MachineryError(f"sensitivity self-test failed: {cfg} should violate {inv}")
    check.cov["sensitivity"] = "with Pinned=TRUE (no site ordered) the model violates Deterministic; the set-display deviation violates the strict form"
    want = 48 if quick else 400
    scheds = core.simulate_cases("DeterminismEmit", "Determinism.sim.cfg", want, depth=6, seed=check.seed + 2, check=check,
                                 first_num=2)
    hashseeds = [0, 1, 2, 3, 7, 11, 42, 1234, 99991, 31337]
    rnd.shuffle(hashseeds)
    jobs = []
    rot: dict[str, int] = {}
    for i, s in enumerate(scheds):
        pids = []
        for fam in s["seq"]:
            if fam == "corpus":  # corpus programs are scheduled in their own shards below
                continue
            k = rot.get(fam, 0)
            rot[fam] = k + 1
            pids.append(by_family[fam][k % len(by_family[fam])])
        jobs.append((i, {"hashseed": hashseeds[(s["seed"] - 1) % len(hashseeds)], "pids": pids}, progs))
    # every program is also checked alone and twice in a row (repeated in-process check)
    for pid in progs:
        jobs.append((len(jobs), {"hashseed": rnd.choice(hashseeds), "pids": [pid, pid]}, progs))
    # every ordered pair of variants of one family in one process (histories of closely related programs: caches keyed
    # by values that compare equal must not leak one program's rendering into the other's)
    for fam, pids in by_family.items():
        for a in pids:
            for b in pids:
                if a != b:
                    jobs.append((len(jobs), {"hashseed": rnd.choice(hashseeds), "pids": [a, b]}, progs))
    # the repository's own test snippets (harness/corpus.py): every shard is checked in two fresh processes with
    # different hash seeds, once in corpus order and once reversed (different histories for every program), all
    # programs of a process sharing one Checker per settings
    items = corpus.harvest()
    ids = [it["id"] for it in items if not it["impure"]]
    check.assumptions.append(
        f"corpus programs whose own module-level values are run-dependent (clock, randomness, ids: "
        f"{sum(1 for it in items if it['impure'])} of {len(items)}) are not compared between processes"
    )
    rnd.shuffle(ids)
    if quick:
        ids = ids[:240]
    shard = 15 if quick else 30
    corpus_src = {"corpus:" + it["id"]: it["code"] for it in items}
    for k in range(0, len(ids), shard):
        part = ids[k : k + shard]
        a, b = rnd.sample(hashseeds, 2)
        jobs.append((len(jobs), {"hashseed": a, "corpus": part}, progs))
        jobs.append((len(jobs), {"hashseed": b, "corpus": part[::-1]}, progs))
    check.cov["corpus_programs"] = len(ids)
    results = core.pmap(run_schedule, jobs, chunk=1)
    obs = []
    texts: dict[str, dict[str, str]] = {}
    tid = 0
    for (i, sched, _), out in zip(jobs, results):
        obs.append({"tid": tid, "event": "Begin", "seed": int(sched["hashseed"]) + 1})
        tid += 1
        for r in out["results"]:
            body = json.dumps(r.get("render", r.get("raised")))
            dg = hashlib.blake2b(body.encode(), digest_size=8).hexdigest()
            texts.setdefault(r["pid"], {})[dg] = body
            fam = "corpus" if r["pid"].startswith("corpus:") else progs[r["pid"]]["family"]
            obs.append({"tid": tid, "event": "Check", "pid": r["pid"], "family": fam, "digest": dg,
                        "hashseed": sched["hashseed"], "raised": "raised" in r})
            tid += 1
    verdicts, stats = core.adjudicate("DeterminismTrace", "DeterminismTrace.cfg", obs, batch=10**9)
    check.add_trace_stats(stats)
    check.evals(len(jobs))
    by_tid = {o["tid"]: o for o in obs}
    for t, vs in verdicts.items():
        o = by_tid[t]
        src = corpus_src[o["pid"]] if o["pid"].startswith("corpus:") else progs[o["pid"]]["src"]
        payload = {"case": {"pid": o["pid"]}, "src": src, "renderings": texts[o["pid"]], "hashseed": o["hashseed"]}
        for v in set(vs):
            if v.startswith("viol:"):
                check.violation("program:" + o["pid"], v[5:], payload)
            elif v.startswith("dev:"):
                check.violation(v[4:], v[4:], payload)
            else:
                check.drift({"verdict": v, **payload})
    for o in obs:
        if o["event"] == "Check" and o["raised"]:
            check.violation("raised:" + o["pid"], "CheckRaised", {"case": {"pid": o["pid"]}, "text": texts[o["pid"]]})
    for pid in progs:
        check.nontrivial(pid)
    for o in obs:
        if o["event"] == "Check" and o["pid"].startswith("corpus:") and texts[o["pid"]] and any(
            t != "[]" for t in texts[o["pid"]].values()
        ):
            check.nontrivial(o["pid"])
    check.cov["rule"] = "schedules (hash seed x sequence of <=4 programs sharing one Checker) drawn by TLC simulation + every program twice in one process; non-trivial = distinct programs"
    check.cov["exhaustive"] = False
    check.cov["programs"] = len(progs)
    check.cov["subprocesses"] = len(jobs)
    check.sample({"schedule": jobs[0][1], "observations": [o for o in obs[:5]]})


def replay(check: core.Check, witness: dict) -> None:
    progs = c10_programs.programs()
    pid = witness["case"]["pid"]
    if pid.startswith("corpus:"):
        # a corpus program: alone under several seeds, and after / before its corpus neighbours
        ids = [it["id"] for it in corpus.harvest()]
        cid = pid[len("corpus:"):]
        k = ids.index(cid) if cid in ids else 0
        near = ids[max(0, k - 10) : k + 11]
        scheds = [{"hashseed": hs, "corpus": [cid]} for hs in (0, 1, 2, 3)]
        scheds += [{"hashseed": 5, "corpus": near}, {"hashseed": 6, "corpus": near[::-1]}]
        seen = set()
        for i, sc in enumerate(scheds):
            out = run_schedule((i, sc, progs))
            for r in out["results"]:
                if r["pid"] == pid:
                    seen.add(json.dumps(r.get("render", r.get("raised"))))
        if len(seen) > 1:
            check.violation("program:" + pid, "Deterministic", {"case": {"pid": pid}, "renderings": sorted(seen)})
        return
    jobs = [(i, {"hashseed": hs, "pids": [pid]}, progs) for i, hs in enumerate([0, 1, 2, 3, 7, 11])]
    results = [run_schedule(j) for j in jobs]
    seen = {json.dumps(r["results"][0].get("render", r["results"][0].get("raised"))) for r in results}
    if len(seen) > 1:
        fam = progs[pid]["family"]
        key = "set-display-iteration-order" if fam == "setlit" else "program:" + pid
        check.violation(key, "Deterministic", {"case": {"pid": pid}, "renderings": sorted(seen)})
