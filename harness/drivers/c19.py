"""C19 -- operations on known objects agree with performing them.

Model: spec/Dispatch.tla.  An operation (x OP y, x OP= y, OP x, x[i], x.name) on statically known
operands is described by abstract "method table" facts; RefOp is CPython's operator protocol, ImplOp
transcribes _visit_binop_no_mvv / _check_dunder_call / _composite_from_subscript_no_mvv /
_get_attribute_from_known+_mro+fallback.  TLC checks ImplOp against RefOp on every fact table.

Binding (TLC is the judge, spec/trace/DispatchTrace.tla):
  part 1 (S->C)  every realisable case TLC enumerates is realised with synthetic classes, the
                 expression is checked by the real pyanalyze AND evaluated by the real CPython;
  part 2 (C->S)  the literal universe (numbers, strings, bytes, tuples, None, modules, classes, enum
                 members) x operators / indices / attribute names: the facts are extracted from the real
                 objects, the expression is checked and evaluated.
For each observation TLC validates RefOp against real CPython ("oracle:"), judges the real pyanalyze
result against real CPython ("viol:" / "dev:<class>") and compares it with ImplOp ("drift:").

This file records; it contains no oracle logic (no decision about what pyanalyze should have done).
"""
from __future__ import annotations

import ast
import hashlib
import keyword
import random
import types
import warnings
from typing import Any, Optional

from .. import core, pyz

LEVEL = "model_checking"

# --------------------------------------------------------------------------- operators

BINOPS = {
    "add": "+", "sub": "-", "mul": "*", "truediv": "/", "mod": "%", "pow": "**", "lshift": "<<",
    "rshift": ">>", "or": "|", "xor": "^", "and": "&", "floordiv": "//", "matmul": "@",
}
UNOPS = {"neg": "-", "pos": "+", "invert": "~"}
MISSING = object()

# --------------------------------------------------------------------------- canonical value encoding


def enc(x: Any, depth: int = 0) -> str:
    """Canonical string of a runtime object: equal strings <=> equal in value and type.  Data by type and
    repr; bound methods structurally (every access creates a new one, and its repr shows the address of
    __self__); everything else by type and repr (a repr either is structural -- `int | None`, <class 'int'>
    -- or carries the object's address, i.e. its identity)."""
    t = type(x)
    if t in (tuple, frozenset) and depth < 4:
        items = [enc(e, depth + 1) for e in x]
        if t is frozenset:
            items.sort()
        return f"{t.__name__}:[" + ",".join(items) + "]"
    if t.__name__ in ("method", "builtin_function_or_method", "method-wrapper") and depth < 4:
        self_obj = getattr(x, "__self__", MISSING)
        if self_obj is not MISSING:
            return f"{t.__name__}:{getattr(x, '__name__', '?')}@" + enc(self_obj, depth + 1)
    try:
        r = repr(x)
    except Exception:
        r = f"<unreprable #{id(x)}>"
    if len(r) > 160:
        r = r[:60] + "..." + hashlib.blake2b(r.encode("utf-8", "replace"), digest_size=8).hexdigest()
    return f"{t.__module__}.{t.__qualname__}:{r}" if t.__module__ != "builtins" else f"{t.__qualname__}:{r}"


# --------------------------------------------------------------------------- facts of the real objects


def _lookup_on_type(obj: Any, name: str) -> Any:
    for b in type(obj).__mro__:
        if name in b.__dict__:
            return b.__dict__[name]
    return MISSING


def _call_state(f: Any, args: tuple) -> tuple[str, str]:
    """What really happens when the candidate method is called."""
    try:
        with warnings.catch_warnings():
            warnings.simplefilter("ignore")
            r = f(*args)
    except TypeError:
        return "te", ""
    except IndexError:
        return "ie", ""
    except Exception:
        return "exc", ""
    if r is NotImplemented:
        return "ni", enc(r)
    return "val", enc(r)


ABSENT = {"st": "absent", "res": "", "sigerr": False, "sret": "any", "sval": ""}


class Probe:
    """pyanalyze's signature layer asked directly (allow_call=False): does the static check of the call
    report an error, and what does it return statically.  These are inputs of ImplOp only."""

    def __init__(self) -> None:
        from pyanalyze.name_check_visitor import VisitorState

        _fails, v, tree = pyz.check_source("x = 1\n", want_visitor=True)
        v.state = VisitorState.check_names
        self.v = v
        self.node = tree.body[0].value

    def _static(self, val: Any, errs: list) -> tuple[bool, str, str]:
        from pyanalyze.value import AnnotatedValue, AnyValue, KnownValue

        while isinstance(val, AnnotatedValue):
            val = val.value
        if isinstance(val, AnyValue):
            return bool(errs), "any", ""
        if isinstance(val, KnownValue):
            return bool(errs), "lit", enc(val.val)
        return bool(errs), "typed", ""

    def dunder(self, obj: Any, name: str, args: tuple) -> tuple[bool, str, str]:
        from pyanalyze.stacked_scopes import Composite
        from pyanalyze.value import KnownValue

        v = self.v
        with v.catch_errors() as errs:
            val, _exists = v._check_dunder_call(
                self.node, Composite(KnownValue(obj)), name, [Composite(KnownValue(a)) for a in args], allow_call=False
            )
        return self._static(val, errs)

    def class_getitem(self, obj: Any, idx: Any) -> tuple[bool, str, str]:
        from pyanalyze.stacked_scopes import Composite
        from pyanalyze.value import UNINITIALIZED_VALUE, KnownValue

        v = self.v
        with v.catch_errors():
            cgi = v.get_attribute(Composite(KnownValue(obj)), "__class_getitem__", self.node)
        if cgi is UNINITIALIZED_VALUE:
            return True, "any", ""
        with v.catch_errors() as errs:
            val = v.check_call(self.node, cgi, [Composite(KnownValue(idx))], allow_call=False)
        return self._static(val, errs)


_probe: Optional[Probe] = None


def probe() -> Probe:
    global _probe
    if _probe is None:
        _probe = Probe()
    return _probe


def _method(st: str, res: str, static: tuple[bool, str, str]) -> dict:
    sigerr, sret, sval = static
    if st in ("val", "ni"):  # the static return value is replaced by KnownValue(result): irrelevant
        sret, sval = "typed", ""
    return {"st": st, "res": res, "sigerr": sigerr, "sret": sret, "sval": sval if sret == "lit" else ""}


def type_method_facts(obj: Any, name: str, args: tuple) -> dict:
    """Candidate `type(obj).name` called as (obj, *args)."""
    if _lookup_on_type(obj, name) is MISSING:
        return dict(ABSENT)
    f = getattr(type(obj), name)
    st, res = _call_state(f, (obj, *args))
    return _method(st, res, probe().dunder(obj, name, args))


def class_getitem_facts(obj: Any, idx: Any) -> dict:
    """Candidate `obj.__class_getitem__` called as (idx)."""
    try:
        f = getattr(obj, "__class_getitem__")
    except Exception:
        return dict(ABSENT)
    st, res = _call_state(f, (idx,))
    return _method(st, res, probe().class_getitem(obj, idx))


NOATTR = {"okind": "obj", "rt": "val", "rval": "", "hit": "none", "tsval": "", "modann": False,
          "haspath": False, "ignored": False, "onlyknown": False, "hasgetattr": False}


def blank_case(kind: str, op: str) -> dict:
    return {"kind": kind, "op": op, "rel": "unrel", "rover": False, "m1": dict(ABSENT), "m2": dict(ABSENT),
            "m3": dict(ABSENT), "istype": False, "tupidx": False, "a": dict(NOATTR)}


def facts_binary(x: Any, op: str, y: Any, inplace: bool) -> dict:
    c = blank_case("ibin" if inplace else "bin", op)
    lname, rname, iname = f"__{op}__", f"__r{op}__", f"__i{op}__"
    tx, ty = type(x), type(y)
    if tx is ty:
        c["rel"] = "same"
    elif issubclass(ty, tx):
        c["rel"] = "rsub"
    elif issubclass(tx, ty):
        c["rel"] = "lsub"
    c["m1"] = type_method_facts(x, lname, (y,))
    c["m2"] = type_method_facts(y, rname, (x,))
    if inplace:
        c["m3"] = type_method_facts(x, iname, (y,))
    ry = _lookup_on_type(y, rname)
    c["rover"] = c["rel"] == "rsub" and ry is not MISSING and _lookup_on_type(x, rname) is not ry
    return c


def facts_unary(x: Any, op: str) -> dict:
    c = blank_case("un", op)
    c["m1"] = type_method_facts(x, f"__{op}__", ())
    return c


def facts_subscript(x: Any, idx: Any) -> dict:
    c = blank_case("sub", "getitem")
    c["istype"] = isinstance(x, type)
    c["tupidx"] = isinstance(x, tuple) and isinstance(idx, int)
    c["m1"] = type_method_facts(x, "__getitem__", (idx,))
    c["m2"] = class_getitem_facts(x, idx)
    return c


def facts_attr(x: Any, name: str, haspath: bool) -> dict:
    import enum

    from pyanalyze.name_check_visitor import IgnoredEndOfReference, _has_only_known_attributes
    from pyanalyze.value import UNINITIALIZED_VALUE, CallableValue, KnownValue

    c = blank_case("attr", "getattr")
    a = c["a"]
    if isinstance(x, types.ModuleType):
        a["okind"] = "module"
    elif isinstance(x, type):
        a["okind"] = "enumclass" if issubclass(x, enum.Enum) else "class"
    try:
        with warnings.catch_warnings():
            warnings.simplefilter("ignore")
            r = getattr(x, name)
        a["rt"], a["rval"] = "val", enc(r)
    except AttributeError:
        a["rt"] = "AttributeError"
    except Exception:
        a["rt"] = "exc"
    finder = pyz.get_checker().ts_finder
    if a["okind"] in ("class", "enumclass") and not (a["okind"] == "enumclass" and a["rt"] == "val"):
        for base in type.mro(x):
            ts = finder.get_attribute(base, name, on_class=True)
            if ts is not UNINITIALIZED_VALUE and not isinstance(ts, CallableValue):
                if isinstance(ts, KnownValue):
                    a["hit"], a["tsval"] = "tslit", enc(ts.val)
                else:
                    a["hit"] = "tstype"
                break
            try:
                ann = base.__annotations__  # 3.10+: not inherited
            except Exception:
                ann = {}
            if isinstance(ann, dict) and name in ann:
                a["hit"] = "ann"
                break
            if name in base.__dict__:
                a["hit"] = "dict"
                break
            if ts is not UNINITIALIZED_VALUE:
                a["hit"] = "tscall"
                break
    if a["okind"] == "module":
        a["modann"] = name in getattr(x, "__annotations__", {})
    a["haspath"] = haspath
    a["ignored"] = name in IgnoredEndOfReference.default_value
    a["onlyknown"] = bool(isinstance(x, type) and _has_only_known_attributes(finder, x))
    try:
        object.__getattribute__(x, "__getattr__")
        a["hasgetattr"] = True
    except AttributeError:
        pass
    return c


# --------------------------------------------------------------------------- realisation of TLC's cases

_BODY = {
    "val": 'return "{tag}"', "ni": "return NotImplemented", "te": 'raise TypeError("{tag}")',
    "ie": 'raise IndexError("{tag}")', "exc": 'raise ValueError("{tag}")',
}


def _def(name: str, m: dict, tag: str, argann: str, first: str = "self", arg: str = "o") -> list[str]:
    if m["st"] == "absent":
        return []
    a = f"{arg}: {argann}" if m["sigerr"] else arg
    ret = " -> int" if (m["sret"] == "typed" and m["st"] in ("te", "ie", "exc")) else ""
    return [f"    def {name}({first}, {a}){ret}:", "        " + _BODY[m["st"]].format(tag=tag)]


def _cls(name: str, bases: str, body: list[str]) -> list[str]:
    return [f"class {name}{bases}:"] + (body or ["    pass"])


ATTR_IGNORED, ATTR_PLAIN = "called", "zzattr"  # "called" is in the default ignored_end_of_reference


def realise(case: dict, k: int) -> tuple[list[str], list[str], str]:
    """(definition lines, function lines, expression text) for TLC case number k."""
    kind = case["kind"]
    fn = f"f{k}"
    if kind in ("bin", "ibin"):
        op = case["op"]
        sym = BINOPS[op]
        X, Y = f"X{k}", f"Y{k}"
        lop = _def(f"__{op}__", case["m1"], "r1", "int")
        rop = _def(f"__r{op}__", case["m2"], "r2", "int")
        iop = _def(f"__i{op}__", case["m3"], "r3", "int")
        rel = case["rel"]
        if rel == "same":
            defs = _cls(X, "", lop + iop + rop) + [f"x{k} = {X}()", f"y{k} = {X}()"]
        elif rel == "unrel":
            defs = _cls(X, "", lop + iop) + _cls(Y, "", rop) + [f"x{k} = {X}()", f"y{k} = {Y}()"]
        elif rel == "rsub":
            if case["rover"]:
                defs = _cls(X, "", lop + iop) + _cls(Y, f"({X})", rop)
            else:
                defs = _cls(X, "", lop + iop + rop) + _cls(Y, f"({X})", [])
            defs += [f"x{k} = {X}()", f"y{k} = {Y}()"]
        else:  # lsub
            defs = _cls(Y, "", rop) + _cls(X, f"({Y})", lop + iop) + [f"x{k} = {X}()", f"y{k} = {Y}()"]
        if kind == "bin":
            expr = f"x{k} {sym} y{k}"
            return defs, [f"{fn} = lambda: {expr}"], expr
        expr = f"v {sym}= y{k}"
        return defs, [f"def {fn}():", f"    v = x{k}", f"    {expr}", "    return v"], f"v = x{k}; {expr}"
    if kind == "un":
        op = case["op"]
        m = case["m1"]
        body = [] if m["st"] == "absent" else [
            f"    def __{op}__(self)" + (" -> int" if m["sret"] == "typed" and m["st"] != "val" else "") + ":",
            "        " + _BODY[m["st"]].format(tag="r1")]
        expr = f"{UNOPS[op]}u{k}"
        return _cls(f"U{k}", "", body) + [f"u{k} = U{k}()"], [f"{fn} = lambda: {expr}"], expr
    if kind == "sub":
        gi = _def("__getitem__", case["m1"], "r1", "str", arg="i")
        cgi = _def("__class_getitem__", case["m2"], "r2", "str", first="cls", arg="i")
        if case["istype"]:
            defs = _cls(f"M{k}", "(type)", gi) + _cls(f"S{k}", f"(metaclass=M{k})", cgi)
            expr = f"S{k}[0]"
        else:
            defs = _cls(f"S{k}", "", gi + cgi) + [f"s{k} = S{k}()"]
            expr = f"s{k}[0]"
        return defs, [f"{fn} = lambda: {expr}"], expr
    # attribute access
    a = case["a"]
    name = ATTR_IGNORED if a["ignored"] else ATTR_PLAIN
    boom = ["    @property", f"    def {name}(self):", '        raise ValueError("boom")']
    ok, rt, hit = a["okind"], a["rt"], a["hit"]
    if ok == "obj":
        body = [f'    {name} = "v"'] if rt == "val" else (boom if rt == "exc" else [])
        defs = _cls(f"P{k}", "", body) + [f"p{k} = P{k}()"]
        target = f"p{k}"
    elif ok == "class":
        meta: list[str] = []
        body = []
        if hit == "dict":  # in the class __dict__: a plain value, or a descriptor that raises on class access
            body = [f'    {name} = ' + {"val": '"v"', "AttributeError": "_BoomA()", "exc": "_BoomV()"}[rt]]
        elif hit == "ann":
            body = [f'    {name}: str = "v"']
        elif rt == "val":
            meta = [f'    {name} = "v"']
        elif rt == "exc":
            meta = boom
        defs = _cls(f"M{k}", "(type)", meta)
        # a tuple subclass "has only known attributes" for pyanalyze (name_check_visitor.py:6098)
        defs += _cls(f"P{k}", f"(tuple, metaclass=M{k})" if a["onlyknown"] else f"(metaclass=M{k})", body)
        target = f"P{k}"
    elif ok == "enumclass":
        body = [f"    {name} = 1" if rt == "val" else "    other = 1"]
        if hit == "dict":  # descriptors are not turned into members
            body.append(f"    {name} = " + ("_BoomA()" if rt == "AttributeError" else "_BoomV()"))
        defs = _cls(f"M{k}", "(enum.EnumMeta)", boom if rt == "exc" and hit == "none" else [])
        defs += _cls(f"P{k}", f"(enum.Enum, metaclass=M{k})", body)
        target = f"P{k}"
    else:
        defs = [f'p{k} = types.ModuleType("p{k}")']
        if rt == "val":
            defs.append(f'p{k}.{name} = "v"')
        if a["modann"]:
            defs.append(f'p{k}.__annotations__ = {{"{name}": str}}')
        target = f"p{k}"
    base = target if a["haspath"] else f"({target},)[0]"
    expr = f"{base}.{name}"
    return defs, [f"{fn} = lambda: {expr}"], expr


PRE = '''import enum, types
class _BoomA:
    def __get__(self, obj, typ=None):
        raise AttributeError("boom")
class _BoomV:
    def __get__(self, obj, typ=None):
        raise ValueError("boom")
'''


def _tagged(case: dict) -> dict:
    """The TLC case with the model's result tags replaced by the canonical encoding of what the realised
    methods return (codec only)."""
    import copy

    c = copy.deepcopy(case)
    for m, tag in (("m1", "r1"), ("m2", "r2"), ("m3", "r3")):
        if c[m]["st"] == "val":
            c[m]["res"] = enc(tag)
        elif c[m]["st"] == "ni":
            c[m]["res"] = enc(NotImplemented)
    return c


# --------------------------------------------------------------------------- observing the real code


def _observe_module(src: str, fns: list[tuple[str, int, int]]) -> tuple[Any, list[dict], list[dict]]:
    """Check `src` with the real pyanalyze and evaluate every function with the real CPython.
    fns = [(function name, first line, last line)].  Returns (module, [pyz], [cpy])."""
    from pyanalyze.value import AnnotatedValue, KnownValue

    with warnings.catch_warnings():
        warnings.simplefilter("ignore")
        mod = pyz.make_module(src)
        fails, _v, tree = pyz.check_source(src, annotate=True, want_visitor=True, module=mod)
    byline: dict[int, list[str]] = {}
    for f in fails:
        byline.setdefault(f.get("lineno") or 0, []).append(getattr(f.get("code"), "name", str(f.get("code"))))
    nodes: dict[str, ast.AST] = {}
    for s in tree.body:
        if isinstance(s, ast.Assign) and isinstance(s.value, ast.Lambda) and isinstance(s.targets[0], ast.Name):
            nodes[s.targets[0].id] = s.value.body
        elif isinstance(s, ast.FunctionDef) and isinstance(s.body[-1], ast.Return):
            nodes[s.name] = s.body[-1].value
    claimed = set()
    pyzs, cpys = [], []
    for name, lo, hi in fns:
        codes = [c for ln in range(lo, hi + 1) for c in byline.get(ln, [])]
        claimed.update(range(lo, hi + 1))
        iv = getattr(nodes[name], "inferred_value", None)
        while isinstance(iv, AnnotatedValue):
            iv = iv.value
        lit = isinstance(iv, KnownValue)
        pyzs.append({"codes": codes, "lit": lit, "val": enc(iv.val) if lit else ""})
        try:
            with warnings.catch_warnings():
                warnings.simplefilter("ignore")
                r = mod.__dict__[name]()
            cpys.append({"out": "val", "val": enc(r)})
        except (TypeError, AttributeError, IndexError) as exc:
            cpys.append({"out": type(exc).__name__, "val": ""})
        except Exception:
            cpys.append({"out": "exc", "val": ""})
    stray = {ln: cs for ln, cs in byline.items() if ln not in claimed}
    if stray:
        raise core.MachineryError(f"realisation raised diagnostics outside the observed expressions: {stray}\n{src[:2000]}")
    return mod, pyzs, cpys


def observe_synthetic(chunk: list[tuple[int, dict]]) -> list[dict]:
    """S->C: realise TLC's cases, observe, and check that the realisation has the facts of the case."""
    lines = PRE.splitlines()
    fns, exprs = [], []
    funs: list[tuple[str, list[str]]] = []
    for k, case in chunk:
        d, f, expr = realise(case, k)
        lines += d
        exprs.append(expr)
        funs.append((f"f{k}", f))
    for name, f in funs:
        lo = len(lines) + 1
        lines += f
        fns.append((name, lo, len(lines)))
    src = "\n".join(lines) + "\n"
    mod, pyzs, cpys = _observe_module(src, fns)
    out = []
    for (k, case), expr, p, c in zip(chunk, exprs, pyzs, cpys):
        want = _tagged(case)
        got = extract_facts(case["kind"], case["op"], mod.__dict__, synthetic_operands(case, k))
        if want["a"]["rval"] and got["a"]["rval"]:
            want["a"]["rval"] = got["a"]["rval"]  # the model's placeholder "v" stands for whatever the attribute holds
        if got != want:
            diff = {key: (want[key], got[key]) for key in want if want[key] != got[key]}
            raise core.MachineryError(f"realisation of case {k} does not have the facts of the case: {diff}\n{expr}")
        out.append({"tid": k, "case": want, "cpy": c, "pyz": p, "expr": expr})
    return out


def synthetic_operands(case: dict, k: int) -> dict:
    kind = case["kind"]
    if kind in ("bin", "ibin"):
        return {"x": f"x{k}", "y": f"y{k}"}
    if kind == "un":
        return {"x": f"u{k}"}
    if kind == "sub":
        return {"x": f"S{k}" if case["istype"] else f"s{k}", "i": "0"}
    a = case["a"]
    return {"x": f"P{k}" if a["okind"] in ("class", "enumclass") else f"p{k}",
            "name": ATTR_IGNORED if a["ignored"] else ATTR_PLAIN, "haspath": a["haspath"]}


def extract_facts(kind: str, op: str, ns: dict, operands: dict) -> dict:
    with warnings.catch_warnings():
        warnings.simplefilter("ignore")
        x = eval(operands["x"], ns)
        if kind in ("bin", "ibin"):
            return facts_binary(x, op, eval(operands["y"], ns), kind == "ibin")
        if kind == "un":
            return facts_unary(x, op)
        if kind == "sub":
            return facts_subscript(x, eval("_[" + operands["i"] + "]", {**ns, "_": _IndexEcho()}))
        return facts_attr(x, operands["name"], operands["haspath"])


class _IndexEcho:
    def __getitem__(self, i: Any) -> Any:
        return i


# --------------------------------------------------------------------------- part 2: the literal universe

UNIVERSE_PRE = '''import enum, math, os, string, types
class Color(enum.Enum):
    RED = 1
    GREEN = 2
class Num(enum.IntEnum):
    ONE = 1
class Flag(enum.IntFlag):
    R = 4
class A:
    x = 1
    def m(self):
        return 1
class B(A):
    y = "b"
t0 = ()
t1 = (0,)
t2 = (1, "a")
t3 = (1, 2, 3)
tn = ((1, 2), None)
'''

# operand text -> is it a NAME (or dotted NAME) path for pyanalyze's get_attribute_path
OPERANDS_QUICK = [
    "0", "1", "2", "True", "False", "1.5", "1j", '""', '"ab"', 'b"a"', "None", "t0", "t2", "t3", "(1, 2)",
    "os", "math", "int", "str", "A", "Color", "Color.RED", "Num.ONE",
]
OPERANDS_MORE = [
    "-1", "3", "0.0", "-2.5", '"a"', '"%s"', 'b""', 'b"ab"', "t1", "tn", "(1.5, None)", "...", "NotImplemented",
    "string", "os.path", "types", "float", "bool", "tuple", "type", "object", "B", "Num", "Flag.R", "Color.GREEN", "bytes",
    "complex", "enum.Enum",
]
INDICES_QUICK = ["0", "1", "-1", "2", "3", "-3", "-4", "True", "None", '"a"', '"RED"', "1.5", "0:1", "::2", "(0,)", "int"]
INDICES_MORE = ["-2", "4", "False", "1:", ":-1", "::-1", "0:2:1", '"nope"', "...", "1j", "A", "Color.RED", "Num.ONE"]
ATTRS_QUICK = [
    "real", "imag", "upper", "x", "m", "name", "value", "RED", "path", "ptah", "pi", "__class__", "__name__", "__doc__",
    "__add__", "__len__", "__dict__", "__module__", "bit_length", "is_integer", "decode", "count", "called", "mro",
    "__members__", "_value_", "__mro__", "__bases__", "nope", "numerator", "denominator", "conjugate", "join", "sep",
    "__call__", "__hash__", "__getitem__", "__annotations__", "__neg__", "__radd__", "_name_", "y",
]
ATTRS_MORE = [
    "hex", "fromhex", "from_bytes", "__file__", "__spec__", "__slots__", "__wrapped__", "__self__", "__func__",
    "__class_getitem__", "__contains__", "__iter__", "__bool__", "__invert__", "__pos__", "__abs__", "__rmul__", "__mod__",
    "__getnewargs__", "__init_subclass__", "__subclasses__", "__abstractmethods__", "__weakref__", "__text_signature__",
    "__origin__", "__args__", "_missing_", "_member_map_", "_generate_next_value_", "__index__", "__qualname__", "GREEN",
    "ONE", "R", "call_count", "reset_mock", "assert_called_with", "e", "getcwd", "environ", "ascii_letters", "capitalize",
    "index", "__sizeof__", "__reduce__", "__eq__", "__lt__", "__ne__", "__repr__", "__str__", "__format__", "__new__",
    "__init__", "__setattr__", "__getattribute__", "__dir__", "as_integer_ratio", "to_bytes", "__trunc__", "__floor__",
    "__round__", "__float__", "__int__", "__complex__", "__basicsize__", "__flags__", "__dictoffset__", "__prepare__",
    "__instancecheck__", "_member_names_", "_value2member_map_", "__loader__", "__package__", "__builtins__", "__path__",
]


def _is_path(text: str) -> bool:
    return all(part.isidentifier() and not keyword.iskeyword(part) for part in text.split("."))


def _in_scope(kind: str, x: Any, op: str, y: Any = None) -> bool:
    """Operations outside the property's universe (stated in the evidence assumptions)."""
    import enum
    import typing

    if kind in ("bin", "ibin") and op == "mod" and isinstance(x, (str, bytes)):
        return False  # printf-style formatting: format_strings.py, property C17
    if kind == "ibin" and op == "mul" and bool(type(x).__flags__ & (1 << 9)) and isinstance(y, (str, bytes, tuple)):
        # CPython quirk, not pyanalyze: PyNumber_InPlaceMultiply only falls back to the RIGHT operand's
        # sq_repeat when type(left).tp_as_sequence is NULL, which no heap type satisfies
        # (`v = Num.ONE; v *= "ab"` raises TypeError although `Num.ONE * "ab"` is fine)
        return False
    if kind == "sub" and x is type:
        return False  # `type[...]` is special-cased (name_check_visitor.py:4984), not a dispatch
    if kind == "sub" and isinstance(x, type) and issubclass(x, enum.Enum) and not isinstance(y, str):
        return False  # EnumMeta.__getitem__(name: str): a stub-level type error, a KeyError at runtime
    if kind == "attr" and (x is typing.Any or (isinstance(x, types.ModuleType) and x.__name__ == "sys")):
        return False  # KnownAttributeHook defaults
    return True


def universe(tier: str) -> list[tuple[str, str, dict, list[str], str]]:
    """[(kind, op, operand texts, function lines with {fn}, expression text)]"""
    quick = tier == "quick"
    ops = OPERANDS_QUICK if quick else OPERANDS_QUICK + OPERANDS_MORE
    idx = INDICES_QUICK if quick else INDICES_QUICK + INDICES_MORE
    attrs = ATTRS_QUICK if quick else ATTRS_QUICK + ATTRS_MORE
    out = []

    def par(t: str) -> str:
        return t if _is_path(t) or t[0] in "(\"'b" or t in ("...",) else f"({t})"

    for a in ops:
        for op, sym in BINOPS.items():
            for b in ops:
                expr = f"{par(a)} {sym} {par(b)}"
                out.append(("bin", op, {"x": a, "y": b}, ["{fn} = lambda: " + expr], expr))
        for op, sym in UNOPS.items():
            expr = f"{sym}{par(a)}"
            out.append(("un", op, {"x": a}, ["{fn} = lambda: " + expr], expr))
        for i in idx:
            expr = f"{par(a)}[{i}]"
            out.append(("sub", "getitem", {"x": a, "i": i}, ["{fn} = lambda: " + expr], expr))
        for name in attrs:
            expr = f"{par(a)}.{name}"
            out.append(("attr", "getattr", {"x": a, "name": name, "haspath": _is_path(a)}, ["{fn} = lambda: " + expr], expr))
    iops = ["add", "mul", "or"] if quick else list(BINOPS)
    for a in ops:
        for op in iops:
            for b in ops:
                expr = f"v {BINOPS[op]}= {par(b)}"
                out.append(("ibin", op, {"x": a, "y": b},
                            ["def {fn}():", f"    v = {a}", f"    {expr}", "    return v"], f"v = {a}; {expr}"))
    return out


def observe_universe(chunk: list[tuple[int, tuple]]) -> list[dict]:
    lines = UNIVERSE_PRE.splitlines()
    ns0: dict = {}
    exec(UNIVERSE_PRE, ns0)  # a scratch namespace only to decide scope before building the module
    kept = []
    fns = []
    for tid, (kind, op, operands, flines, expr) in chunk:
        with warnings.catch_warnings():
            warnings.simplefilter("ignore")
            x = eval(operands["x"], ns0)
            y = eval(operands["y"], ns0) if "y" in operands else (
                eval("_[" + operands["i"] + "]", {"_": _IndexEcho(), **ns0}) if "i" in operands else None)
        if not _in_scope(kind, x, op, y):
            continue
        lo = len(lines) + 1
        lines += [ln.replace("{fn}", f"f{tid}") for ln in flines]
        fns.append((f"f{tid}", lo, len(lines)))
        kept.append((tid, kind, op, operands, expr))
    if not kept:
        return []
    src = "\n".join(lines) + "\n"
    mod, pyzs, cpys = _observe_module(src, fns)
    out = []
    for (tid, kind, op, operands, expr), p, c in zip(kept, pyzs, cpys):
        case = extract_facts(kind, op, mod.__dict__, operands)
        out.append({"tid": tid, "case": case, "cpy": c, "pyz": p, "expr": expr})
    return out


# --------------------------------------------------------------------------- adjudication


def _nontrivial(case: dict) -> bool:
    """Non-trivial = more than one candidate method is present, or the attribute is not a plain hit."""
    if case["kind"] == "attr":
        return case["a"]["rt"] != "val" or case["a"]["hit"] not in ("none", "dict")
    return sum(case[m]["st"] != "absent" for m in ("m1", "m2", "m3")) >= 2 or any(
        case[m]["st"] in ("ni", "te", "ie", "exc") for m in ("m1", "m2", "m3"))


def judge(check: core.Check, obs: list[dict], label: str) -> dict[str, int]:
    verdicts, stats = core.adjudicate("DispatchTrace", "DispatchTrace.cfg", obs, batch=12000, parallel=6)
    check.add_trace_stats(stats)
    check.evals(len(obs))
    tally: dict[str, int] = {}
    for o in obs:
        c = o["case"]
        if c["kind"] == "attr" and c["a"]["haspath"] and c["a"]["ignored"]:
            # outside the property's domain (Dispatch.tla InUniverse): TLC gives no property verdict
            check.cov["excluded_documented_leniency"] = check.cov.get("excluded_documented_leniency", 0) + 1
        key = core.canon({"case": c, "expr": o["expr"]})
        if _nontrivial(c):
            check.nontrivial(core.canon(c))
        for v in verdicts.get(o["tid"], []):
            tally[v.split(":")[0] + ":" + v.split(":")[1]] = tally.get(v.split(":")[0] + ":" + v.split(":")[1], 0) + 1
            payload = {"case": c, "expr": o["expr"], "cpy": o["cpy"], "pyz": o["pyz"], "source": label, "verdict": v}
            if v.startswith("viol:"):
                check.violation(key, v[5:], payload)
            elif v.startswith("dev:"):
                check.violation(v[4:], v[4:], payload)  # class key, matched against known_findings.jsonl
            elif v.startswith("oracle:"):
                raise core.MachineryError(f"{v}: the model of CPython disagrees with real CPython on {o['expr']!r}: "
                                          f"case={c} cpy={o['cpy']}")
            else:
                check.drift(payload)
    for o in obs[:: max(1, len(obs) // 3)][:3]:
        check.sample({"source": label, **o})
    return tally


def _chunks(items: list, n: int) -> list[list]:
    return [items[i : i + n] for i in range(0, len(items), n)]


def _flat(parts: list[list[dict]]) -> list[dict]:
    return [o for part in parts for o in part]


def _obs_syn(chunk):  # module-level for pmap
    return observe_synthetic(chunk)


def _obs_uni(chunk):
    return observe_universe(chunk)


def run(check: core.Check) -> None:
    quick = check.tier == "quick"
    rnd = random.Random(check.seed)
    check.assumptions += [
        "TLC 1.8.0; Dispatch.tla RefOp = CPython's operator protocol (abstract.c binary_op1 / typeobject.c SLOT1BINFULL, "
        "PyObject_GetItem), validated against the real CPython outcome on every observation; for attribute access the "
        "reference is the recorded outcome of getattr itself",
        "a literal is an inferred KnownValue; it is compared with the evaluated result by a canonical encoding "
        "(type + repr for data, identity for other objects, bound methods structurally)",
        "diagnosed = any diagnostic on the expression's line(s) except lint-only codes (DispatchTrace.tla LintOnly)",
        "pyanalyze's signature layer is not modelled: whether the stub/signature check of a candidate call reports an "
        "error and what it returns statically are recorded facts (asked with allow_call=False) used by ImplOp only",
        "domain exclusion (documented leniency, not judged): NAME.attr where attr is in the default of the "
        "`ignored_end_of_reference` option (count, called, call_count, ...) -- such observations get verdict ok and are "
        "counted in coverage.excluded_documented_leniency; the model arm is still drift-checked",
        "outside the universe: printf-style % on str/bytes (C17), `type[...]`, Enum-class subscripts with non-str keys "
        "(KeyError at runtime, a stub-level type error), typing.Any / sys (KnownAttributeHook), objects with __getattr__, "
        "annotation-only class attributes, comparison operators, unions / non-literal operands",
    ]
    # 1. the design: exhaustive model checking of ImplOp against RefOp over all fact tables
    cfg = "Dispatch.quick.cfg" if quick else "Dispatch.thorough.cfg"
    res = core.require_ok(core.run_tlc("Dispatch", cfg, coverage=True, timeout=3000), "Dispatch exhaustive")
    core.require_coverage(res, ["ChooseKind", "ChooseM1", "ChooseM2", "ChooseM3", "ChooseShape", "ChooseAttr"], "Dispatch")
    check.add_tlc("exhaustive:" + cfg, res)
    # sensitivity: the strict invariants must fail (the deviations are real), and a model of pyanalyze that
    # forgets the reflected operand must be rejected by the non-strict invariant
    for scfg, inv in (("Dispatch.strict1.cfg", "DiagnosedIffRaisesStrict"), ("Dispatch.strict2.cfg", "LiteralEqualsResultStrict"),
                      ("Dispatch.sens.cfg", "DiagnosedIffRaises")):
        r = core.run_tlc("Dispatch", scfg, timeout=600)
        if r.violated != inv:
            raise core.MachineryError(f"sensitivity self-test failed: {scfg} did not violate {inv}: {r.error}")
    check.cov["sensitivity"] = ("DiagnosedIffRaisesStrict / LiteralEqualsResultStrict are violated on the model (the named "
                                "deviations are real); a model that never consults the reflected operand (BugNoReflected) "
                                "violates DiagnosedIffRaises")
    # 2. S->C: every realisable TLC case through the real code
    ecfg = "Dispatch.emit.cfg" if quick else "Dispatch.emit.thorough.cfg"
    em = core.require_ok(core.run_tlc("DispatchEmit", ecfg, timeout=3000), "Dispatch emit")
    check.add_tlc("emit:" + ecfg, em)
    cases = core.emitted_json(em)
    if not cases:
        raise core.MachineryError("no cases emitted by TLC")
    limit = 12000 if quick else 200000
    exhaustive = len(cases) <= limit
    if not exhaustive:
        cases = rnd.sample(cases, limit)
    check.cov["exhaustive"] = exhaustive
    check.cov["model_cases_replayed"] = len(cases)
    check.cov["rule"] = (
        "part 1: cases = fact tables (candidate method states x type relation x operator, attribute-lookup facts) "
        "enumerated by TLC from Dispatch.tla and realised with synthetic classes; part 2: literal universe (operand texts "
        "x 13 binary / 3 unary operators x indices x attribute names) with facts extracted from the real objects; "
        "non-trivial = at least two candidate methods present or a candidate that declines/raises, or an attribute "
        "that is missing / decided by a stub or annotation"
    )
    obs = _flat(core.pmap(_obs_syn, _chunks(list(enumerate(cases)), 150), chunk=1))
    tally = judge(check, obs, "tlc-cases-synthetic-classes")
    # 2b. beyond the quick exhaustive bound (two binary operators, one unary): TLC simulation over all
    #     13 binary / 3 unary operators
    num = 500 if quick else 4000
    sim = core.require_ok(
        core.run_tlc("DispatchEmit", "Dispatch.sim.cfg", workers=1, simulate=f"num={num}", depth=8,
                     seed=check.seed + 19, timeout=1200),
        "Dispatch simulate",
    )
    check.add_tlc("simulate:Dispatch.sim.cfg", sim)
    uniq = {core.canon(c): c for c in core.emitted_json(sim)}
    check.cov["simulated_cases"] = len(uniq)
    if len(uniq) < num // 8:
        raise core.MachineryError(f"simulation produced only {len(uniq)} distinct realisable cases")
    sobs = _flat(core.pmap(_obs_syn, _chunks(list(enumerate(uniq.values(), start=500_000)), 150), chunk=1))
    for k, n in judge(check, sobs, "tlc-simulate-synthetic-classes").items():
        tally[k] = tally.get(k, 0) + n
    # 3. C->S: the literal universe
    uni = list(enumerate(universe(check.tier), start=1_000_000))
    check.cov["universe_expressions"] = len(uni)
    uobs = _flat(core.pmap(_obs_uni, _chunks(uni, 400), chunk=1))
    check.cov["universe_in_scope"] = len(uobs)
    t2 = judge(check, uobs, "literal-universe")
    for k, n in t2.items():
        tally[k] = tally.get(k, 0) + n
    check.cov["verdict_tally"] = tally
    arms: dict[str, int] = {}
    for o in uobs:
        c = o["case"]
        arm = c["kind"] + ":" + (c["a"]["hit"] + "/" + c["a"]["rt"] if c["kind"] == "attr" else
                                 "/".join(c[m]["st"] + ("!" if c[m]["sigerr"] else "") for m in ("m1", "m2", "m3")))
        arms[arm] = arms.get(arm, 0) + 1
    check.cov["universe_fact_classes"] = len(arms)
    check.cov["universe_arms"] = dict(sorted(arms.items(), key=lambda kv: -kv[1])[:40])
    for need in ("attr:tstype/val", "attr:dict/val", "attr:none/AttributeError", "attr:none/val"):
        if need not in arms:
            raise core.MachineryError(f"the literal universe never exercised the model arm {need}")


def _untag(case: dict) -> dict:
    """Inverse of _tagged: the TLC case of a recorded synthetic observation."""
    import copy

    c = copy.deepcopy(case)
    for m, tag in (("m1", "r1"), ("m2", "r2"), ("m3", "r3")):
        if c[m]["st"] in ("val", "ni"):
            c[m]["res"] = tag
    if c["a"]["rval"]:
        c["a"]["rval"] = "v"
    return c


def replay(check: core.Check, witness: dict) -> None:
    """Re-observe the witness through the real code (re-realise the TLC case / re-evaluate the universe
    expression) and let TLC judge the fresh observation."""
    if not witness.get("source", "").startswith("tlc"):
        for item in universe("thorough"):
            if item[4] == witness["expr"]:
                got = observe_universe([(0, item)])
                if not got:
                    raise core.MachineryError("witness expression is outside the universe")
                judge(check, got, "replay")
                return
        raise core.MachineryError(f"witness expression {witness['expr']!r} is not in the universe")
    judge(check, observe_synthetic([(0, _untag(witness["case"]))]), "replay")


def selftest_binding(check: core.Check) -> None:
    """Corrupt one recorded field of a good observation and require TLC to flag it."""
    item = next(u for u in universe("quick") if u[4] == '(1) + "ab"')
    good = observe_universe([(1, item)])[0]
    v0, _ = core.adjudicate("DispatchTrace", "DispatchTrace.cfg", [good])
    bad1 = {**good, "tid": 2, "pyz": {**good["pyz"], "codes": []}}
    bad2 = {**good, "tid": 3, "cpy": {"out": "val", "val": "int:1"}}
    v1, _ = core.adjudicate("DispatchTrace", "DispatchTrace.cfg", [bad1, bad2])
    if v0 or not any(x.startswith("viol:") for x in v1.get(2, [])) or not any(x.startswith("oracle:") for x in v1.get(3, [])):
        raise core.MachineryError(f"binding self-test failed: good={v0} corrupted={v1}")
    print("selftest-binding: dropping the recorded diagnostic ->", v1[2], "; corrupting the CPython outcome ->", v1[3])
