"""C05 -- argument-to-parameter binding agrees with CPython.

Model: spec/Binder.tla (preprocess_args + Signature.bind_arguments as a state machine, one action per
branch) against spec/CPythonBind.tla (CPython's binding rules from the language reference).
S->C: every case (signature, call shape) TLC enumerates / simulates is realised as a real `def` and a
real call: the real binder is run on it (checker.get_signature + preprocess_args + bind_arguments, and
for a sample the whole visitor on generated source), and the call is REALLY EXECUTED under CPython (for
star arguments of unknown length: every expansion up to MaxExp elements / keys).
C->S: the recorded observations are adjudicated by TLC against spec/trace/BinderTrace.tla, which first
validates the oracle model against what CPython really did, then judges the real verdicts, then compares
them with the implementation model (drift).  This file only records; it contains no binding rules.

Callable kinds (third mechanism of the property, "signature extraction from runtime objects"): spec/CallableKinds.tla
models, per kind of callable object (function, lambda, async def, functools.wraps wrapper, annotated function, static /
class / instance method reached through the class, a known instance or a typed receiver, callable instance, class with
__init__ / __new__ / both / inherited / none, dataclass, NamedTuple, functools.partial) which parameter list pyanalyze
binds against which argument list (Impl, shaped like signature_from_value / _uncached_get_argspec / bind_self) and what
evaluating the call does under CPython (Ref).  Cases are realised by harness/c05_kinds.py as real source checked by the
real visitor (call in the defining module and, for every fourth module, in an importing module) and REALLY PERFORMED;
spec/trace/CallableKindsTrace.tla judges.

Inferred star arguments (first mechanism, preprocess_args beyond literals): spec/StarPrep.tla models the ActualArguments
that `*` of an inferred tuple value (exact, with an unpacked segment, union of lengths, list) and `**` of an inferred
dict value (DictIncompleteValue pairs required / optional / non-literal key / literal-union key / **mapping, duplicate
keys in either order, TypedDict with NotRequired keys, union of dict literals), several of them merged, are turned into
(Impl: preprocess_args, _preprocess_kwargs_no_mvv, _preprocess_kwargs_kv_pairs, concrete_values_from_iterable, and the
"may not be provided" branches of bind_arguments) against the set of concrete calls the source can perform (Ref).
harness/c05_prep.py realises every case as source that builds the values with cond()-guarded spreads, reads the value
pyanalyze inferred for each star argument back from the annotated tree (TLC rejects a realisation that does not produce
the intended abstract value), and really executes the same statements for every combination of the opaque inputs;
spec/trace/StarPrepTrace.tla judges.
"""
from __future__ import annotations

import itertools
import os
import random
import re
from typing import Any, Optional

from .. import c05_kinds as ck
from .. import c05_prep as cp
from .. import core, pyz

LEVEL = "model_checking"

EXTRA = "z"  # Extra of CPythonBind.tla: a keyword that names no parameter
MAXEXP = 4

# C05_MODEL_FIXES=1 (together with VERIF_REPO=<tree with proposed/C05-fix-*.diff applied>) validates the
# proposed repairs: the observations are then compared with the model in which both repairs are switched on.
TRACE_CFG = "BinderTrace.fixed.cfg" if os.environ.get("C05_MODEL_FIXES") else "BinderTrace.cfg"

BIND_ACTIONS = [
    "PosOnly_FromPositional", "PosOnly_FromStar", "PosOnly_Default", "PosOnly_Missing",
    "PosOrKw_FromPositional", "PosOrKw_BothGiven", "PosOrKw_StarAndKeyword", "PosOrKw_FromStar",
    "PosOrKw_FromKeyword", "PosOrKw_FromStarKwargs", "PosOrKw_Default", "PosOrKw_Missing",
    "KwOnly_FromKeyword", "KwOnly_FromStarKwargs", "KwOnly_Default", "KwOnly_Missing",
    "VarPositional_Some", "VarPositional_Empty", "VarKeyword_Some", "VarKeyword_Empty",
    "Finish_TooManyPositional", "Finish_ExtraKeywords", "Finish_StarArgsUnused", "Finish_StarKwargsUnused",
    "Finish_Ok", "Pre_Ok", "Pre_Error", "AddParam", "EndParams", "ChoosePositional", "ChooseKeywords", "ChooseDstar",
]

# ----------------------------------------------------------------------------- realisation


def def_source(sig: list[dict], fname: str = "f") -> str:
    """`def f(...)` for a signature term [{kind, name, dflt}, ...]."""
    parts: list[str] = []
    kinds = [p["kind"] for p in sig]
    for i, p in enumerate(sig):
        k = p["kind"]
        name = p["name"]
        if k == "ko" and "va" not in kinds and (i == 0 or kinds[i - 1] != "ko"):
            parts.append("*")
        if k == "va":
            parts.append("*" + name)
        elif k == "vk":
            parts.append("**" + name)
        else:
            parts.append(name + ("=0" if p["dflt"] else ""))
        if k == "po" and (i + 1 == len(sig) or kinds[i + 1] != "po"):
            parts.append("/")
    return f"def {fname}({', '.join(parts)}): pass"


def call_source(call: dict, fname: str = "f") -> str:
    """The call expression; star arguments of unknown length are the variables xs / ts / kw."""
    parts = [str(i + 1) for i in range(call["pos"])]
    star = call["star"]
    if star["kind"] == "lit":
        n = star["n"]
        parts.append("*(" + "".join(f"{10 + i}, " for i in range(n)).rstrip() + ")" if n else "*()")
    elif star["kind"] == "list":
        parts.append("*xs")
    elif star["kind"] == "tuple":
        parts.append("*ts")
    parts += [str(20 + i) for i in range(call["post"])]
    parts += [f"{k}=0" for k in call["kws"]]
    if call["dstar"] == "lit":
        parts.append("**{" + ", ".join(f'"{k}": 0' for k in call["dkeys"]) + "}")
    elif call["dstar"] == "dict":
        parts.append("**kw")
    return f"{fname}({', '.join(parts)})"


_FUNCS: dict[str, Any] = {}
_SIGS: dict[str, Any] = {}
_TYPED: dict[str, Any] = {}


def real_function(sig: list[dict]):
    key = core.canon(sig)
    f = _FUNCS.get(key)
    if f is None:
        ns: dict[str, Any] = {}
        try:
            exec(compile(def_source(sig), "<c05>", "exec"), ns)
        except SyntaxError as exc:
            raise core.MachineryError(f"generated signature is not a function definition: {def_source(sig)}: {exc}")
        f = _FUNCS[key] = ns["f"]
    return f


def _typed(kind: str):
    if not _TYPED:
        from pyanalyze.annotations import type_from_runtime

        _TYPED["list"] = type_from_runtime(list[int])
        _TYPED["tuple"] = type_from_runtime(tuple[int, ...])
        _TYPED["dict"] = type_from_runtime(dict[str, int])
    return _TYPED[kind]


_ERRCLASS = [
    (re.compile(r"Missing required positional argument"), "PO_Missing"),
    (re.compile(r"Missing required argument"), "Missing"),
    (re.compile(r"provided as both a positional and a keyword"), "PK_BothGiven"),
    (re.compile(r"may be filled from both \*args and a keyword"), "PK_StarAndKeyword"),
    (re.compile(r"Takes \d+ positional arguments but"), "Finish_TooManyPositional"),
    (re.compile(r"unexpected keyword arguments?"), "Finish_ExtraKeywords"),
    (re.compile(r"\*\*kwargs provided but not used"), "Finish_StarKwargsUnused"),
    (re.compile(r"\*args provided but not used"), "Finish_StarArgsUnused"),
    (re.compile(r"Multiple values provided for argument"), "Pre_MultipleValues"),
]


def real_bind(case: dict) -> dict:
    """What the real preprocess_args + Signature.bind_arguments do for the case."""
    from pyanalyze.signature import ARGS, KWARGS, Signature, _CanAssignBasedContext, preprocess_args
    from pyanalyze.stacked_scopes import Composite
    from pyanalyze.value import KnownValue

    checker = pyz.get_checker()
    sig, call = case["sig"], case["call"]
    key = core.canon(sig)
    try:
        rsig = _SIGS.get(key)
        if rsig is None:
            rsig = _SIGS[key] = checker.get_signature(real_function(sig))
        if not isinstance(rsig, Signature):
            return {"verdict": "raised", "positions": [], "errclass": f"no Signature: {rsig!r}"}
        args: list[Any] = [(Composite(KnownValue(i + 1)), None) for i in range(call["pos"])]
        star = call["star"]
        if star["kind"] == "lit":
            args.append((Composite(KnownValue(tuple(10 + i for i in range(star["n"])))), ARGS))
        elif star["kind"] != "none":
            args.append((Composite(_typed(star["kind"])), ARGS))
        args += [(Composite(KnownValue(20 + i)), None) for i in range(call["post"])]
        args += [(Composite(KnownValue(0)), k) for k in call["kws"]]
        if call["dstar"] == "lit":
            args.append((Composite(KnownValue({k: 0 for k in call["dkeys"]})), KWARGS))
        elif call["dstar"] == "dict":
            args.append((Composite(_typed("dict")), KWARGS))
        ctx = _CanAssignBasedContext(checker)
        pre = preprocess_args(args, ctx)
        bound = None if pre is None else rsig.bind_arguments(pre, ctx)
    except Exception as exc:  # an exception where the property needs a verdict is a violation
        return {"verdict": "raised", "positions": [], "errclass": type(exc).__name__}
    if bound is None:
        if not ctx.errors:
            return {"verdict": "raised", "positions": [], "errclass": "rejected without a diagnostic"}
        cls = next((c for rx, c in _ERRCLASS if rx.search(ctx.errors[0])), ctx.errors[0])
        return {"verdict": "err", "positions": [], "errclass": cls}
    if ctx.errors:
        return {"verdict": "err", "positions": [], "errclass": "diagnostic although bound: " + ctx.errors[0]}
    from pyanalyze import type_evaluation as te

    markers = {id(te.ARGS): "ARGS", id(te.KWARGS): "KWARGS", id(te.DEFAULT): "DEFAULT", id(te.UNKNOWN): "UNKNOWN"}
    positions = []
    for p in sig:
        pos = bound[p["name"]][0]
        if isinstance(pos, int):
            positions.append(f"P{pos}")
        elif isinstance(pos, str):
            positions.append("K" if pos == p["name"] else "K:" + pos)
        else:
            positions.append(markers.get(id(pos), repr(pos)))
    return {"verdict": "ok", "positions": positions, "errclass": ""}


def real_cpython(case: dict) -> tuple[str, dict]:
    """Really execute the call.  Concrete shape: "ok" / "err" (TypeError).  Unknown-length star arguments:
    execute every expansion (xs/ts of 0..bound elements, kw over every set of <= bound of the relevant
    names; bound = max(MAXEXP, number of parameters)) and report which ones CPython bound."""
    sig, call = case["sig"], case["call"]
    f = real_function(sig)
    code = compile(call_source(call), "<c05-call>", "eval")
    unk_star = call["star"]["kind"] in ("list", "tuple")
    unk_dstar = call["dstar"] == "dict"

    def run(env: dict) -> bool:
        try:
            eval(code, {"f": f}, env)
        except TypeError:
            return False
        return True

    if not unk_star and not unk_dstar:
        return ("ok" if run({}) else "err"), {"names": [], "maxexp": MAXEXP, "total": 0, "binding": []}
    names = sorted({p["name"] for p in sig} | set(call["kws"]) | {EXTRA})
    bound = max(MAXEXP, len(sig))  # ExpBound of CPythonBind.tla (the trace spec checks it is the same number)
    lengths = range(bound + 1) if unk_star else [0]
    keysets: list[tuple[str, ...]] = [()]
    if unk_dstar:
        keysets = [ks for r in range(bound + 1) for ks in itertools.combinations(names, r)]
    binding = []
    total = 0
    for n in lengths:
        seq = list(range(n))
        for ks in keysets:
            total += 1
            if run({"xs": seq, "ts": tuple(seq), "kw": dict.fromkeys(ks, 0)}):
                binding.append([n, list(ks)])
    return "na", {"names": names, "maxexp": bound, "total": total, "binding": binding}


def observe_one(arg: tuple[int, dict]) -> dict:
    tid, case = arg
    cpy, exp = real_cpython(case)
    return {"tid": tid, "case": case, "real": real_bind(case), "vis": "none", "vispos": ["none"], "cpy": cpy, "exp": exp}


_MARKERS = {"*args": "ARGS", "**kwargs": "KWARGS", "default": "DEFAULT", "unknown": "UNKNOWN"}


def visitor_verdicts(cases: list[dict], group: int = 120) -> list[tuple[str, list[str]]]:
    """Send cases through the real NameCheckVisitor: one generated module per `group` cases, one `def` and
    one call line per case; verdict = incompatible_call reported on that call line.  If the `Bind` hook
    (proposed/C05-hook.diff) is present in the tree, the positions the visitor's own bind_arguments call
    recorded for that line are returned as well (else ["none"])."""
    from pyanalyze import _verif_trace

    out: list[tuple[str, list[str]]] = []
    for g in range(0, len(cases), group):
        part = cases[g : g + group]
        lines = [def_source(c["sig"], f"f{j}") for j, c in enumerate(part)]
        lines.append("def caller(xs: list[int], ts: tuple[int, ...], kw: dict[str, int]) -> None:")
        first = len(lines) + 1
        lines += ["    " + call_source(c["call"], f"f{j}") for j, c in enumerate(part)]
        src = "\n".join(lines) + "\n"
        sink: list[dict] = []
        _verif_trace.set_sink(sink)
        try:
            fails = pyz.check_source(src)
        finally:
            _verif_trace.set_sink(None)
        flagged = set()
        for code, lineno, _col in pyz.brief(fails):
            if code != "incompatible_call" or lineno is None or not (first <= lineno < first + len(part)):
                raise core.MachineryError(f"realisation raised unexpected diagnostic {code} at line {lineno} in\n{src}")
            flagged.add(lineno - first)
        hooked: dict[int, list[str]] = {}
        for ev in sink:
            if ev.get("event") != "Bind" or ev.get("lineno") is None:
                continue
            j = ev["lineno"] - first
            if not (0 <= j < len(part)) or ev.get("callee") != f"f{j}":
                continue
            if ev["positions"] is None:
                hooked[j] = ["rejected"]
            else:
                hooked[j] = [
                    f"P{pos}" if isinstance(pos, int) else _MARKERS.get(pos, "K" if pos == name else "K:" + pos)
                    for name, pos in ev["positions"]
                ]
        out += [("err" if j in flagged else "ok", hooked.get(j, ["none"])) for j in range(len(part))]
    return out


# ----------------------------------------------------------------------------- adjudication


def _is_unknown(case: dict) -> bool:
    return case["call"]["star"]["kind"] in ("list", "tuple") or case["call"]["dstar"] == "dict"


def adjudicate_parallel(module: str, cfg: str, obs: list[dict], batch: int, parallel: int) -> tuple[dict, dict]:
    """core.adjudicate on `parallel` batches at a time (one TLC each).  core.new_dir is not thread-safe (two
    threads may pick the same fresh name), hence the retry on FileExistsError."""
    from concurrent.futures import ThreadPoolExecutor

    chunks = [obs[i : i + batch] for i in range(0, len(obs), batch)]

    def one(chunk: list[dict]):
        for _ in range(50):
            try:
                return core.adjudicate(module, cfg, chunk, batch=10**9, timeout=3000)
            except FileExistsError:
                continue
        raise core.MachineryError("could not create a scratch directory for trace validation")

    if len(chunks) <= 1:
        results = [one(ch) for ch in chunks]
    else:
        with ThreadPoolExecutor(parallel) as ex:
            results = list(ex.map(one, chunks))
    verdicts: dict[Any, list[str]] = {}
    stats = {"observations": 0, "states": 0, "transitions": 0, "batches": 0}
    for v, s in results:
        for k, lst in v.items():
            verdicts.setdefault(k, []).extend(lst)
        for k in stats:
            stats[k] += s[k]
    return verdicts, stats


def judge(check: core.Check, cases: list[dict], label: str, n_visitor: int = 0, rnd: Optional[random.Random] = None) -> None:
    pyz.get_checker()  # create before forking
    obs = core.pmap(observe_one, list(enumerate(cases)), chunk=400)
    if n_visitor:
        idx = list(range(len(cases)))
        if n_visitor < len(idx):
            idx = sorted((rnd or random.Random(0)).sample(idx, n_visitor))
        chunks = [idx[i : i + 120] for i in range(0, len(idx), 120)]
        results = core.pmap(_visitor_chunk, [[cases[i] for i in ch] for ch in chunks], chunk=1)
        for ch, res in zip(chunks, results):
            for i, (v, vp) in zip(ch, res):
                obs[i]["vis"] = v
                obs[i]["vispos"] = vp
                if vp != ["none"]:
                    check.cov["visitor_bind_hook_observations"] = check.cov.get("visitor_bind_hook_observations", 0) + 1
        check.cov["visitor_observations"] = check.cov.get("visitor_observations", 0) + len(idx)
    verdicts, stats = adjudicate_parallel("BinderTrace", TRACE_CFG, obs, batch=6000, parallel=8)
    check.add_trace_stats(stats)
    check.evals(len(obs))
    for o in obs:
        c = o["case"]
        if len(c["sig"]) >= 2 and (c["call"]["kws"] or c["call"]["dstar"] != "none" or c["call"]["star"]["kind"] != "none"):
            check.nontrivial(core.canon(c))
        for v in verdicts.get(o["tid"], []):
            payload = {"case": c, "def": def_source(c["sig"]), "call": call_source(c["call"]), "real": o["real"],
                       "vis": o["vis"], "vispos": o["vispos"], "cpy": o["cpy"], "exp": o["exp"], "source": label}
            if v.startswith("viol:"):
                check.violation(core.canon(c), v[5:], payload)
            elif v.startswith("dev:"):
                check.violation(v[4:], v[4:], payload)  # class key, matched against known_findings.jsonl
            elif v.startswith("drift:"):
                check.drift({"verdict": v, **payload})
            else:
                raise core.MachineryError(f"{v} for {def_source(c['sig'])} ; {call_source(c['call'])}: {o}")
    for o in obs[:: max(1, len(obs) // 3)][:3]:
        check.sample({"source": label, "def": def_source(o["case"]["sig"]), "call": call_source(o["case"]["call"]),
                      "real": o["real"], "vis": o["vis"], "cpy": o["cpy"], "binding_expansions": len(o["exp"]["binding"])})


def _visitor_chunk(part: list[dict]) -> list[tuple[str, list[str]]]:
    return visitor_verdicts(part, group=len(part))


def _sample(cases: list[dict], limit: int, rnd: random.Random) -> tuple[list[dict], bool]:
    if len(cases) <= limit:
        return cases, True
    # keep the two clauses balanced: half concrete shapes, half unknown-length shapes
    conc = [c for c in cases if not _is_unknown(c)]
    unk = [c for c in cases if _is_unknown(c)]
    half = limit // 2
    take_unk = min(len(unk), half)
    take_conc = min(len(conc), limit - take_unk)
    return rnd.sample(conc, take_conc) + rnd.sample(unk, take_unk), False


# ----------------------------------------------------------------------------- callable kinds (CallableKinds.tla)

KIND_ACTIONS = [
    "ChooseKind", "KAddParam", "EndParams", "ChoosePositional", "ChooseKeywords", "ChooseDstar",
    "Route_Function", "Route_BoundMethodObject", "Route_UnboundMethodValue", "Route_ClassDropReceiver",
    "Route_ClassStarReceiver", "Route_ClassFallbackBound", "Route_TypedCallDropReceiver", "Route_AnySignature",
]
KIND_GROUP = 60  # cases per generated module
KIND_SELFTEST_TID = 10**8


def _kinds_chunk(arg: tuple[int, list[dict], bool]) -> list[dict]:
    base, part, imported = arg
    vs = ck.visitor_observe(part, imported)
    out = []
    for i, (c, (v, vp)) in enumerate(zip(part, vs)):
        cpy, exp = ck.real_cpython(c)
        out.append({"tid": base + i, "case": c, "vis": v, "vispos": vp, "cpy": cpy, "exp": exp, "imp": imported})
    return out


def observe_kinds(cases: list[dict], imported: Optional[bool] = None) -> list[dict]:
    """Every case through the real visitor and real CPython; every fourth generated module (or every / no module,
    if `imported` is given) has its call sites in a module that imports the definitions."""
    pyz.get_checker()  # create before forking
    chunks = [(g, cases[g : g + KIND_GROUP], (g // KIND_GROUP) % 4 == 3 if imported is None else imported)
              for g in range(0, len(cases), KIND_GROUP)]
    parts = core.pmap(_kinds_chunk, chunks, chunk=1)
    return [o for part in parts for o in part]


def _kinds_selftest_observations() -> tuple[list[dict], dict[int, list[str]]]:
    """Corrupted copies of real observations: TLC's verdict must flag each corruption (sensitivity of every
    clause of CallableKindsTrace.tla).  Returns (observations, {tid: expected verdicts})."""
    a = {"kind": "pk", "name": "a", "dflt": False}
    one = dict(ck.NOCALL, pos=1)
    # synthetic observations (what the unchanged tree does for these four cases, written down here): the self-test must
    # not depend on the behaviour of the tree under test; only the CPython outcome is really computed

    def synth(kind: str, via: str, sig: list, call: dict, vis: str, vispos: list) -> dict:
        c = {"kind": kind, "via": via, "sig": sig, "call": call}
        cpy, exp = ck.real_cpython(c)
        return {"tid": 0, "case": c, "vis": vis, "vispos": vispos, "cpy": cpy, "exp": exp, "imp": False}

    good = [synth("meth", "known", [a], one, "ok", ["P0", "P1"]), synth("newstar", "class", [a], one, "ok", ["nohook"]),
            synth("newstar", "class", [a], ck.NOCALL, "ok", ["nohook"]), synth("bare", "class", [], one, "ok", ["nohook"])]
    t = KIND_SELFTEST_TID
    meth, nsok, nsdev, bare = good
    obs = [
        dict(meth, tid=t),                                        # unchanged
        dict(meth, tid=t + 1, vis="err"),                         # verdict flipped
        dict(meth, tid=t + 2, cpy="err"),                         # recorded CPython outcome flipped
        dict(meth, tid=t + 3, vispos=meth["vispos"][1:]),         # receiver missing from the recorded positions
        dict(meth, tid=t + 4, vis="other diagnostic: not_callable"),
        dict(nsdev, tid=t + 5),                                   # the known deviation as it is
        dict(nsok, tid=t + 6, vis="err"),                         # inside a deviating kind, but not what its model predicts
        dict(bare, tid=t + 7),
    ]
    hook = True
    expect = {
        t: [], t + 1: ["viol:KindBinding", "drift:kind-verdict"], t + 2: ["oracle:kind-concrete-call"],
        t + 3: ["drift:kind-hook-positions"] if hook else [], t + 4: ["viol:KindNoVerdict"],
        t + 5: ["dev:init-ignored-when-new-defined"], t + 6: ["viol:KindBinding", "drift:kind-verdict"],
        t + 7: ["dev:bare-class-accepts-arguments"],
    }
    return obs, expect


def judge_kinds(check: core.Check, cases: list[dict], label: str, selftest: bool = False,
                imported: Optional[bool] = None) -> None:
    obs = observe_kinds(cases, imported)
    expect: dict[int, list[str]] = {}
    if selftest:
        extra, expect = _kinds_selftest_observations()
        obs = obs + extra
    verdicts, stats = adjudicate_parallel("CallableKindsTrace", "CallableKindsTrace.cfg", obs, batch=3000, parallel=8)
    for tid, want in expect.items():
        got = verdicts.get(tid, [])
        if sorted(got) != sorted(want):
            raise core.MachineryError(f"callable-kinds trace self-test: observation {tid}: expected {want}, TLC said {got}")
    if expect:
        check.cov["sensitivity_kinds_trace"] = (
            f"{len(expect)} corrupted / deviating observations adjudicated with the real ones: flipped verdict -> viol:KindBinding, "
            "flipped CPython outcome -> oracle, dropped receiver position -> drift, foreign diagnostic -> viol:KindNoVerdict, "
            "a verdict inside a deviating kind that its model does not predict -> viol (not dev)"
        )
    check.add_trace_stats(stats)
    kc = check.cov.setdefault("kinds", {"observations": 0, "imported_call_sites": 0, "bind_hook_observations": 0, "per_kind_via": {}})
    for o in obs:
        if o["tid"] in expect:
            continue
        c = o["case"]
        check.evals(1)
        kc["observations"] += 1
        kc["imported_call_sites"] += 1 if o["imp"] else 0
        kc["bind_hook_observations"] += 1 if o["vispos"] not in (["none"], ["nohook"]) else 0
        kv = c["kind"] + "/" + c["via"]
        kc["per_kind_via"][kv] = kc["per_kind_via"].get(kv, 0) + 1
        if c["sig"] and (c["call"]["kws"] or c["call"]["dstar"] != "none" or c["call"]["star"]["kind"] != "none"):
            check.nontrivial(core.canon(c))
        for v in verdicts.get(o["tid"], []):
            r = ck.realise(c)
            payload = {"case": c, "defs": r["defs"], "call": r["call"], "vis": o["vis"], "vispos": o["vispos"],
                       "cpy": o["cpy"], "exp": o["exp"], "imported": o["imp"], "source": label}
            if v.startswith("viol:"):
                check.violation(core.canon(c), v[5:], payload)
            elif v.startswith("dev:"):
                check.violation(v[4:], v[4:], payload)  # class key, matched against known_findings.jsonl
            elif v.startswith("drift:"):
                check.drift({"verdict": v, **payload})
            else:
                raise core.MachineryError(f"{v} for {r['defs']} ; {r['call']}: {o}")
    for o in obs[:: max(1, len(obs) // 3)][:3]:
        r = ck.realise(o["case"])
        check.sample({"source": label, "kind": o["case"]["kind"], "via": o["case"]["via"], "defs": r["defs"], "call": r["call"],
                      "vis": o["vis"], "vispos": o["vispos"], "cpy": o["cpy"], "imported": o["imp"]}, limit=12)


def _kinds_sample(cases: list[dict], limit: int, rnd: random.Random) -> tuple[list[dict], bool]:
    """Stratified: the same share for every (kind, via), within it half statically known shapes and half
    unknown-length star arguments."""
    if len(cases) <= limit:
        return cases, True
    strata: dict[tuple, list[dict]] = {}
    for c in cases:
        strata.setdefault((c["kind"], c["via"], _is_unknown(c)), []).append(c)
    share = max(1, limit // len(strata))
    out: list[dict] = []
    for key in sorted(strata):
        part = strata[key]
        out += part if len(part) <= share else rnd.sample(part, share)
    rnd.shuffle(out)  # mix the kinds within every generated module
    return out, False


def run_kinds(check: core.Check, quick: bool, rnd: random.Random, emit_future: Any, cov_future: Any) -> None:
    check.assumptions += [
        "callable kinds: every body is trivial (pass / return object.__new__(cls)), so a TypeError raised by really evaluating "
        "the call expression is a binding error; receivers are instances / classes created by the generated module; keywords "
        "never spell a receiver parameter (self / cls) except through a **mapping of unknown keys",
        "callable kinds excluded by design (recorded, not findings): objects with __call__ known as module-level VALUES "
        "(callable instance, functools.partial object) get ANY_SIGNATURE (arg_spec.py:961 'just give up') -- for them only "
        "'reported => TypeError' is demanded; builtins / typeshed signatures are out of scope; functools.wraps wrappers are bound "
        "against their own parameters (follow_wrapped=False), which is what CPython does",
    ]
    # vacuity: every route action fires on the small coverage bound
    cov = core.require_ok(cov_future.result(), "CallableKinds coverage")
    core.require_coverage(cov, KIND_ACTIONS, "CallableKinds")
    check.add_tlc("exhaustive+coverage:CallableKinds.cov.cfg", cov)
    res = core.require_ok(emit_future.result(), "CallableKinds exhaustive")
    check.add_tlc("exhaustive:CallableKinds.quick.cfg", res)
    if quick:
        cases = core.emitted_json(res)
    else:
        big = core.require_ok(core.run_tlc("CallableKinds", "CallableKinds.thorough.cfg", timeout=3300), "CallableKinds thorough")
        check.add_tlc("exhaustive:CallableKinds.thorough.cfg", big)
        del big
        em = core.require_ok(core.run_tlc("CallableKindsEmit", "CallableKinds.emit.cfg", timeout=3000), "CallableKinds emit")
        check.add_tlc("emit:CallableKinds.emit.cfg", em)
        cases = core.emitted_json(em)
        del em
    if not cases:
        raise core.MachineryError("no callable-kind cases emitted by TLC")
    n_model = len(cases)
    cases, exhaustive = _kinds_sample(cases, 6500 if quick else 80000, rnd)
    judge_kinds(check, cases, "tlc-kinds", selftest=True)
    kc = check.cov["kinds"]
    kc.update({"model_cases": n_model, "replayed_cases": len(cases), "replay_exhaustive": exhaustive})
    missing = sorted(k + "/" + v for k, vs in ck.KINDS_VIAS.items() for v in vs if k + "/" + v not in kc["per_kind_via"])
    if missing:
        raise core.MachineryError(f"callable kinds never replayed: {missing}")
    # beyond the exhaustive bound: simulation up to 4 parameters beyond the receiver and wide calls
    num = 1000 if quick else 20000
    sim = core.require_ok(
        core.run_tlc("CallableKindsEmit", "CallableKinds.sim.cfg", workers=1, simulate=f"num={num}", depth=12,
                     seed=check.seed + 11, timeout=1800),
        "CallableKinds simulate",
    )
    check.add_tlc("simulate:CallableKinds.sim.cfg", sim)
    uniq = {core.canon(c): c for c in core.emitted_json(sim)}
    kc["simulated_cases"] = len(uniq)
    if len(uniq) < num // 4:
        raise core.MachineryError(f"callable-kinds simulation produced only {len(uniq)} distinct cases")
    sims = list(uniq.values())
    if len(sims) > (1000 if quick else 15000):
        sims = rnd.sample(sims, 1000 if quick else 15000)
    judge_kinds(check, sims, "tlc-kinds-simulate")
    check.cov["rule"] += "; callable kinds (CallableKinds.tla): see kinds.rule"
    kc["rule"] = (
        "cases = states with stage=done of CallableKinds.tla: (kind, via) x (signature of <=MaxParams parameters beyond the "
        "receiver over 5 kinds x defaults, restricted to fields for dataclass / NamedTuple, empty for a bare class) x (call "
        "shape as in Binder.tla); quick: CallableKinds.quick.cfg (<=2 parameters, <=1 positional, *() / *(x,) / *list / *tuple, "
        "<=1 keyword, **{} / **dict) stratified sample per (kind, via, known/unknown shape); thorough: model checked on "
        "CallableKinds.thorough.cfg (<=3 parameters, <=2 positionals, <=2 keywords, <=1 dict key), replayed from CallableKinds.emit.cfg (<=3 parameters, call bounds of the quick configuration); "
        "plus simulation on CallableKinds.sim.cfg (<=4 parameters, <=3 positionals, <=3 keywords)"
    )


# ----------------------------------------------------------------------------- inferred star arguments (StarPrep.tla)

PREP_ACTIONS = [
    "AddParam", "EndParams", "PChoosePositional", "AddStar", "EndStars", "PChooseKeywords", "NewDstar", "AddPair", "AddAlt",
    "EndDstars", "Ends_Ok", "Ends_MultipleValues", "Ends_PosOrKwMaybeMissing", "Ends_KwOnlyMaybeMissing",
    "Ends_StarAndKeyword", "Ends_ExtraKeywords", "Ends_OtherError",
]
PREP_SELFTEST_TID = 2 * 10**8


def _prep_chunk(arg: tuple[int, list[dict]]) -> list[dict]:
    base, part = arg
    vs = cp.visitor_observe(part)
    return [{"tid": base + i, "case": c, **v, "exp": cp.real_cpython(c)} for i, (c, v) in enumerate(zip(part, vs))]


def _prep_selftest_observations() -> tuple[list[dict], dict[int, list[str]]]:
    a = {"kind": "pk", "name": "a", "dflt": False}
    req = {"key": "a", "req": True, "many": False}
    opt = {"key": "a", "req": False, "many": False}

    def case(pairs: list[dict]) -> dict:
        return {"sig": [a], "call": {"pos": 0, "stars": [], "post": 0, "kws": [],
                                     "dstars": [{"form": "pairs", "pairs": pairs, "alt": []}]}}

    # synthetic observations (what the unchanged tree does, written down here, so that the self-test does not depend on
    # the tree under test); only the executions under CPython are real

    def synth(pairs: list[dict], vis: str) -> dict:
        c = case(pairs)
        return {"tid": 0, "case": c, "vis": vis, "vispos": ["nohook"],
                "seen": {"stars": [], "dstars": c["call"]["dstars"]}, "exp": cp.real_cpython(c)}

    plain, req_opt, opt_req = synth([req], "ok"), synth([req, opt], "ok"), synth([opt, req], "err")
    t = PREP_SELFTEST_TID
    obs = [
        dict(plain, tid=t),
        dict(plain, tid=t + 1, vis="err"),                                          # verdict flipped
        dict(plain, tid=t + 2, seen={"stars": [], "dstars": [{"form": "pairs", "pairs": [opt], "alt": []}]}),
        dict(plain, tid=t + 3, exp={"total": 1, "binding": []}),                     # recorded CPython outcome flipped
        dict(req_opt, tid=t + 4),                                                   # {"a": 0, **opt}: accepted
        dict(req_opt, tid=t + 5, vis="err"),                                        # ... the last pair deciding presence
        dict(opt_req, tid=t + 6),                                                   # {**opt, "a": 0}: the known deviation
    ]
    expect = {t: [], t + 1: ["viol:PrepConcrete", "drift:prep-verdict"], t + 2: ["oracle:prep-realisation"],
              t + 3: ["oracle:prep-expansions"], t + 4: [], t + 5: ["viol:PrepConcrete", "drift:prep-verdict"],
              t + 6: ["dev:required-key-shadowed-by-earlier-optional-pair"]}
    return obs, expect


def judge_prep(check: core.Check, cases: list[dict], label: str, selftest: bool = False) -> None:
    pyz.get_checker()
    chunks = [(g, cases[g : g + KIND_GROUP]) for g in range(0, len(cases), KIND_GROUP)]
    obs = [o for part in core.pmap(_prep_chunk, chunks, chunk=1) for o in part]
    expect: dict[int, list[str]] = {}
    if selftest:
        extra, expect = _prep_selftest_observations()
        obs = obs + extra
    verdicts, stats = adjudicate_parallel("StarPrepTrace", "StarPrepTrace.cfg", obs, batch=2500, parallel=8)
    for tid, want in expect.items():
        got = verdicts.get(tid, [])
        if sorted(got) != sorted(want):
            raise core.MachineryError(f"star-preprocessing trace self-test: observation {tid}: expected {want}, TLC said {got}")
    if expect:
        check.cov["sensitivity_prep_trace"] = (
            f"{len(expect)} corrupted / deviating observations adjudicated with the real ones: flipped verdict -> viol:PrepConcrete, "
            "another inferred value than the case names -> oracle:prep-realisation, flipped CPython outcome -> oracle, "
            "{'a': 0, **opt} reported as possibly missing (the last pair deciding presence) -> viol, {**opt, 'a': 0} -> dev"
        )
    check.add_trace_stats(stats)
    pc = check.cov.setdefault("prep", {"observations": 0, "expansions_executed": 0, "with_possible_keys": 0, "bind_hook_observations": 0})
    for o in obs:
        if o["tid"] in expect:
            continue
        c = o["case"]
        check.evals(1)
        pc["observations"] += 1
        pc["expansions_executed"] += o["exp"]["total"]
        pc["with_possible_keys"] += 1 if any(not p["req"] or p["key"] == "ab" for d in c["call"]["dstars"] for p in d["pairs"]) else 0
        pc["bind_hook_observations"] += 1 if o["vispos"] not in (["none"], ["nohook"]) else 0
        if c["sig"] and (c["call"]["stars"] or c["call"]["dstars"]):
            check.nontrivial(core.canon(c))
        for v in verdicts.get(o["tid"], []):
            r = cp.realise(c)
            payload = {"case": c, "defs": r["defs"], "body": r["body"], "vis": o["vis"], "vispos": o["vispos"],
                       "seen": o["seen"], "exp": o["exp"], "source": label}
            if v.startswith("viol:"):
                check.violation(core.canon(c), v[5:], payload)
            elif v.startswith("dev:"):
                check.violation(v[4:], v[4:], payload)
            elif v.startswith("drift:"):
                check.drift({"verdict": v, **payload})
            else:
                raise core.MachineryError(f"{v} for {r['defs']} ; {r['body']}: seen {o['seen']}, expansions {o['exp']}")
    for o in obs[:: max(1, len(obs) // 3)][:3]:
        r = cp.realise(o["case"])
        check.sample({"source": label, "defs": r["defs"], "body": r["body"], "vis": o["vis"], "vispos": o["vispos"],
                      "expansions": o["exp"]["total"], "binding": len(o["exp"]["binding"])}, limit=18)


def run_prep(check: core.Check, quick: bool, rnd: random.Random, futures: dict[str, Any]) -> None:
    check.assumptions += [
        "inferred star arguments: tuple / dict values are built inside the calling function from literals, cond()-guarded "
        "spreads, parameters typed str / Literal['a','b'] / dict[str, int] / list[int] / unions of tuple types / a TypedDict; the "
        "value pyanalyze infers for every star argument is read back and must equal the case's abstract value; unknown keys and "
        "mappings range over a, b, z and the parameter names, unknown segments over 0..4 elements",
        "for a call with more than one possible expansion the clauses are the existential ones of the property text; "
        "pyanalyze's deliberate strictness about possibly-present keys is recorded as the named class "
        "possibly-present-key-treated-pessimistically (it is excused only where some expansion really fails to bind)",
    ]
    res = core.require_ok(futures["quick"].result(), "StarPrep exhaustive")
    core.require_coverage(res, PREP_ACTIONS, "StarPrep")
    check.add_tlc("exhaustive+coverage:StarPrep.quick.cfg", res)
    cases = core.emitted_json(res)  # one ** argument of <= 2 pairs or one * argument: replayed exhaustively
    n_first = len(cases)
    for name, cap in (("quick2", 900), ("quick3", 900)):
        r = core.require_ok(futures[name].result(), "StarPrep exhaustive " + name)
        check.add_tlc(f"exhaustive:StarPrep.{name}.cfg", r)
        more = core.emitted_json(r)
        cases += more if len(more) <= cap else rnd.sample(more, cap)
    if not quick:
        big = core.require_ok(core.run_tlc("StarPrepEmit", "StarPrep.thorough.cfg", timeout=3300), "StarPrep thorough")
        check.add_tlc("exhaustive:StarPrep.thorough.cfg", big)
        more = core.emitted_json(big)
        del big
        cases += rnd.sample(more, min(len(more), 60000))
    cases = list({core.canon(c): c for c in cases}.values())
    if n_first < 1000:
        raise core.MachineryError(f"StarPrep.quick.cfg emitted only {n_first} cases")
    judge_prep(check, cases, "tlc-prep", selftest=True)
    check.cov["prep"].update({
        "replayed_cases": len(cases), "exhaustive_family": n_first,
        "rule": "cases = states with stage=done of StarPrep.tla: signature x (positionals, <=MaxStars inferred * arguments from "
                "{exact 0..2, with unpacked segment, union of lengths, list}, positionals after them, keywords, <=MaxDstars inferred "
                "** arguments: dict displays of <=MaxPairs pairs over {literal a/b/z required or optional, str key, Literal['a','b'] "
                "key, **dict[str,int]}, TypedDicts, unions of two dict literals); quick: StarPrep.quick.cfg (<=1 parameter, one star "
                "argument, <=2 pairs; replayed exhaustively), quick2 (<=2 parameters, one star argument), quick3 (two star arguments "
                "merged); thorough adds StarPrep.thorough.cfg (<=2 parameters, two star arguments, 725k cases, 60k replayed)",
    })
    check.cov["rule"] += "; inferred star arguments (StarPrep.tla): see prep.rule"


def run(check: core.Check) -> None:
    quick = check.tier == "quick"
    rnd = random.Random(check.seed)
    check.assumptions += [
        "TLC 1.8.0; CPythonBind.tla (RefBinds) is the binding algorithm of the Python language reference 6.3.4 -- "
        "validated in every run against really executing each call (and each expansion) under this CPython",
        "argument values are ints and parameters are unannotated, so incompatible_call can only come from binding; "
        "the i-th parameter is named a..f, keywords range over the parameter names and one foreign name z",
        "unknown-length star arguments are values typed list[int], tuple[int, ...], dict[str, int]; their expansions are "
        f"enumerated up to {MAXEXP} elements / keys (up to the number of parameters if that is larger, for the existential "
        "clause) over the parameter names, the call's keywords and z",
    ]
    # 1. the design: exhaustive model checking of the binder machine against the CPython reference
    # (the quick-bound run also emits its cases, which the quick tier replays; the thorough tier replays the
    # cases of a separate emission run on a middle bound, see 2.)
    # Vacuity control (-coverage 1 makes TLC about 3x slower): a <=2-parameter bound is run with coverage in both
    # tiers -- every action of the machine must fire there; the quick bound and the two big thorough runs go without it.
    from concurrent.futures import ThreadPoolExecutor

    pool = ThreadPoolExecutor(6)
    # beside the binder's exhaustive run: the exhaustive run and the coverage run of the callable-kinds machine (joined in
    # run_kinds) and all sensitivity runs (seeded model bugs and the strict, deviation-free invariants must be rejected)
    kinds_future = pool.submit(core.run_tlc, "CallableKindsEmit", "CallableKinds.quick.cfg", timeout=3000, workers=8)
    kinds_cov_future = pool.submit(core.run_tlc, "CallableKinds", "CallableKinds.cov.cfg", coverage=True, timeout=900, workers=2)
    prep_futures = {
        "quick": pool.submit(core.run_tlc, "StarPrepEmit", "StarPrep.quick.cfg", coverage=True, timeout=900, workers=4),
        "quick2": pool.submit(core.run_tlc, "StarPrepEmit", "StarPrep.quick2.cfg", timeout=900, workers=4),
        "quick3": pool.submit(core.run_tlc, "StarPrepEmit", "StarPrep.quick3.cfg", timeout=900, workers=4),
    }
    sens_cfgs = (
        ("Binder", "Binder.sens1.cfg", "ConcreteAgrees"),
        ("Binder", "Binder.sens2.cfg", "ConcreteAgrees"),
        ("Binder", "Binder.strict1.cfg", "RejectSoundStrict"),
        ("Binder", "Binder.strict2.cfg", "AcceptSoundStrict"),
        # callable kinds: a bound method bound without its receiver argument; a kw_only dataclass field taken as
        # positional-or-keyword; __init__ consulted although a Python-level __new__ exists; the deviation-free invariants
        ("CallableKinds", "CallableKinds.sens1.cfg", "KindConcrete"),
        ("CallableKinds", "CallableKinds.sens2.cfg", "KindConcrete"),
        ("CallableKinds", "CallableKinds.sens3.cfg", "KindConcrete"),
        ("CallableKinds", "CallableKinds.strict1.cfg", "KindConcreteStrict"),
        ("CallableKinds", "CallableKinds.strict2.cfg", "KindAcceptSoundStrict"),
        # inferred star arguments: the LAST pair for a key deciding whether it is definitely provided; an unpacked
        # segment contributing no element; the deviation-free invariants
        ("StarPrep", "StarPrep.sens1.cfg", "PrepConcrete"),
        ("StarPrep", "StarPrep.sens2.cfg", "PrepRejectSound"),
        ("StarPrep", "StarPrep.strict1.cfg", "PrepConcreteStrict"),
        ("StarPrep", "StarPrep.strict2.cfg", "PrepAcceptSoundStrict"),
        ("StarPrep", "StarPrep.strict3.cfg", "PrepRejectSoundStrict"),
    )
    sens_futures = [pool.submit(core.run_tlc, m, c, timeout=900, workers=2) for m, c, _ in sens_cfgs]
    fixed_future = pool.submit(core.run_tlc, "Binder", "Binder.fixed.cfg", timeout=900, workers=4)
    # (vacuity control moved to the <=2-parameter bound Binder.cov.cfg, where every action of the machine still fires:
    # -coverage 1 on the 1.2M-state quick bound cost more CPU than all other runs of this check together)
    binder_cov_future = pool.submit(core.run_tlc, "Binder", "Binder.cov.cfg", coverage=True, timeout=1800, workers=4)
    res = core.require_ok(core.run_tlc("BinderEmit", "Binder.quick.cfg", timeout=3000), "Binder exhaustive")
    check.add_tlc("exhaustive:Binder.quick.cfg", res)
    bcov = core.require_ok(binder_cov_future.result(), "Binder coverage")
    core.require_coverage(bcov, BIND_ACTIONS, "Binder")
    check.add_tlc("exhaustive+coverage:Binder.cov.cfg", bcov)
    if not quick:
        # <= 4 parameters with wide calls, and <= 5 parameters (all five kinds at once) with narrower calls
        for big in ("Binder.thorough.cfg", "Binder.thorough5.cfg"):
            rb = core.require_ok(core.run_tlc("Binder", big, timeout=3300), "Binder exhaustive " + big)
            check.add_tlc("exhaustive:" + big, rb)
            del rb
    sens_runs = [f.result() for f in sens_futures]
    sens = []
    for (_mod, scfg, inv), r in zip(sens_cfgs, sens_runs):
        if r.violated != inv:
            raise core.MachineryError(f"sensitivity self-test failed: {scfg} did not violate {inv} ({r.error})")
        sens.append(f"{scfg} violates {inv}")
    fixed = fixed_future.result()
    if not fixed.ok:
        raise core.MachineryError(f"the model with both proposed repairs does not satisfy the strict invariants: {fixed.error}")
    check.cov["sensitivity"] = "; ".join(sens) + "; Binder.fixed.cfg (both proposed repairs on) satisfies the strict invariants"
    # 2. S->C: the enumerated cases through the real binder / visitor / CPython, adjudicated by TLC
    if quick:
        cases = core.emitted_json(res)
    else:
        em = core.require_ok(core.run_tlc("BinderEmit", "Binder.emit.cfg", timeout=3000), "Binder emit")
        check.add_tlc("emit:Binder.emit.cfg", em)
        cases = core.emitted_json(em)
        del em
    if not cases:
        raise core.MachineryError("no cases emitted by TLC")
    limit = 40000 if quick else 500000
    check.cov["model_cases"] = len(cases)
    cases, exhaustive = _sample(cases, limit, rnd)
    check.cov["exhaustive"] = exhaustive  # of the replayed bound (quick: Binder.quick.cfg, thorough: Binder.emit.cfg)
    check.cov["replayed_cases"] = len(cases)
    check.cov["rule"] = (
        "cases = states with stage=done of Binder.tla: (signature of <=MaxParams parameters over 5 kinds x defaults) x "
        "(call: <=MaxPos positionals, optional *tuple-literal / *list[int] / *tuple[int,...], <=MaxPost positionals after it, "
        "<=MaxKw keywords over parameter names + z, optional **dict-literal / **dict[str,int]); non-trivial = >=2 parameters "
        "and a keyword or star argument"
    )
    judge(check, cases, "tlc-exhaustive", n_visitor=2000 if quick else 40000, rnd=rnd)
    # 3. beyond the exhaustive bound: TLC simulation up to 6 parameters, 4 positionals, 4 keywords
    num = 2500 if quick else 60000
    sim = core.require_ok(
        core.run_tlc("BinderEmit", "Binder.sim.cfg", workers=1, simulate=f"num={num}", depth=16, seed=check.seed + 5,
                     timeout=1800),
        "Binder simulate",
    )
    check.add_tlc("simulate:Binder.sim.cfg", sim)
    uniq = {core.canon(c): c for c in core.emitted_json(sim)}
    check.cov["simulated_cases"] = len(uniq)
    if len(uniq) < num // 4:
        raise core.MachineryError(f"simulation produced only {len(uniq)} distinct cases")
    judge(check, list(uniq.values()), "tlc-simulate", n_visitor=600 if quick else 6000, rnd=rnd)
    # 4. the kind of callable object and the access path (signature extraction from runtime objects)
    run_kinds(check, quick, rnd, kinds_future, kinds_cov_future)
    # 5. preprocessing of inferred star arguments (DictIncompleteValue / SequenceValue / unions / TypedDict)
    run_prep(check, quick, rnd, prep_futures)
    pool.shutdown()


def replay(check: core.Check, witness: dict) -> None:
    if "stars" in witness["case"].get("call", {}):
        judge_prep(check, [witness["case"]], "replay")
    elif "kind" in witness["case"]:
        judge_kinds(check, [witness["case"]], "replay", imported=bool(witness.get("imported")))
    else:
        judge(check, [witness["case"]], "replay", n_visitor=1)


def selftest_binding(check: core.Check) -> None:
    """Corrupt one recorded field of a real observation and confirm that TLC's verdict flags it."""
    sig = [{"kind": "pk", "name": "a", "dflt": False}, {"kind": "pk", "name": "b", "dflt": True}]
    call = {"pos": 1, "star": {"kind": "none", "n": 0}, "post": 0, "kws": ["b"], "dstar": "none", "dkeys": []}
    good = observe_one((0, {"sig": sig, "call": call}))
    variants = {"unchanged": good}
    v = dict(good, tid=1, real=dict(good["real"], verdict="err", errclass="PK_Missing"))
    variants["real verdict flipped"] = v
    v = dict(good, tid=2, real=dict(good["real"], positions=["P0", "DEFAULT"]))
    variants["recorded position changed"] = v
    v = dict(good, tid=3, cpy="err")
    variants["recorded CPython outcome flipped"] = v
    # inside a known-deviation region (surplus keyword z behind a **mapping of unknown keys), but with a verdict the
    # model of the deviating mechanism does not predict (it rejects: too many positionals): a violation, not dev:
    sig1 = [{"kind": "pk", "name": "a", "dflt": False}]
    call1 = {"pos": 2, "star": {"kind": "none", "n": 0}, "post": 0, "kws": ["z"], "dstar": "dict", "dkeys": []}
    region = observe_one((4, {"sig": sig1, "call": call1}))
    variants["deviating region, real verdict as modelled (rejected)"] = region
    variants["deviating region, real verdict not as modelled"] = dict(
        region, tid=5, real={"verdict": "ok", "positions": ["P0"], "errclass": ""})
    verdicts, _ = core.adjudicate("BinderTrace", TRACE_CFG, list(variants.values()))
    expect = {0: [], 1: ["viol:ConcreteAgrees", "drift:verdict"], 2: ["drift:positions"], 3: ["oracle:concrete-call"],
              4: [], 5: ["viol:AcceptSound", "drift:verdict"]}
    for (name, o) in variants.items():
        got = verdicts.get(o["tid"], [])
        print(f"selftest-binding: {name}: TLC verdicts {got}")
        if sorted(got) != sorted(expect[o["tid"]]):
            raise core.MachineryError(f"binding self-test: {name}: expected {expect[o['tid']]}, TLC said {got}")
    print("selftest-binding: ok")
