"""C03 -- assignability of a concrete value equals runtime membership.

Model: spec/Assign.tla + spec/Values.tla (same as C04).  For every static type term A of the C03
vocabulary and every object o of the universe TLC proves ImplCA(A, Known(o)) = Member(o, A); the real
code is observed on three routes -- Value.can_assign(KnownValue(o)), pyanalyze.runtime.is_assignable(o,
<runtime annotation>) and the visitor's verdict on `x: A = <literal o>` -- and TLC adjudicates each
observation against Member (AssignTrace.tla).
"""
from __future__ import annotations

import random

from .. import assign_common as ac
from .. import codec, core, pyz

LEVEL = "model_checking"
CLAUSES = {"LiteralMembership", "RuntimeIsAssignable", "SnippetVerdict"}


def snippet_observations(pairs: list[dict], start_tid: int) -> list[dict]:
    """`x_i: A = <literal o>` lines checked by the real visitor, 400 per module."""
    out = []
    usable = []
    for p in pairs:
        try:
            anno = codec.term_to_annotation(p["a"])
        except core.MachineryError:
            continue
        if p["o"]["c"] in ("A", "B"):
            continue  # `A()` is an expression of type A, not a literal
        if any(x["c"] in ("A", "B") for x in p["o"].get("items", []) if "c" in x):
            continue
        usable.append((p, anno, codec.obj_literal(p["o"])))
    for i in range(0, len(usable), 400):
        chunk = usable[i : i + 400]
        lines = [codec.PRELUDE.rstrip("\n")]
        base = len(lines[0].split("\n"))
        for j, (_p, anno, lit) in enumerate(chunk):
            lines.append(f"x_{j}: {anno} = {lit}")
        src = "\n".join(lines) + "\n"
        fails = pyz.brief(pyz.check_source(src))
        bad_lines = {}
        for code, lineno, _ in fails:
            bad_lines.setdefault(lineno, []).append(code)
        for j, (p, anno, lit) in enumerate(chunk):
            codes = bad_lines.get(base + 1 + j, [])
            other = [c for c in codes if c != "incompatible_assignment"]
            if other:
                raise core.MachineryError(f"snippet `x: {anno} = {lit}` raised unexpected {other}")
            out.append({"tid": start_tid + len(out), "kind": "snip", "a": p["a"], "o": p["o"],
                        "diagnosed": bool(codes), "src": f"x: {anno} = {lit}"})
    return out


def run(check: core.Check) -> None:
    quick = check.tier == "quick"
    rnd = random.Random(check.seed)
    check.assumptions += [
        "Member (Values.tla) is the ground truth; C03 vocabulary = C03Domain (no Any, Literal only of int/bool/str/None/enum, "
        "tuples fixed or variadic without unpacked segments); NewType membership = exact supertype class",
        "objects: 12 scalars, 6 class objects, 22 containers (depth <= 2)",
    ]
    cfg = "Assign.c03t.cfg"      # depth-2 type terms in both tiers (cheap: ~30k (type, object) pairs)
    res = core.require_ok(core.run_tlc("Assign", cfg, timeout=3400), "Assign C03 exhaustive")
    check.add_tlc("exhaustive:" + cfg, res)
    sens = core.run_tlc("Assign", "Assign.c03strict.cfg", timeout=900)
    if sens.violated != "InvObjExactStrict":
        raise core.MachineryError("sensitivity self-test failed: InvObjExactStrict should be violated (merged sibling literals)")
    check.cov["sensitivity"] = "InvObjExactStrict is violated on the model (the merged-sibling-literals deviation is real)"
    em = core.require_ok(core.run_tlc("AssignEmit", "Assign.emitobj2.cfg", timeout=3000), "emit")
    check.add_tlc("emit", em)
    pairs = core.emitted_json(em)
    if not pairs:
        raise core.MachineryError("no (type, object) pairs emitted")
    limit = 40000 if quick else 10**7
    exhaustive = len(pairs) <= limit
    if not exhaustive:
        pairs = rnd.sample(pairs, limit)
    check.cov["exhaustive"] = exhaustive
    check.cov["rule"] = "(A, o): A in C03Domain enumerated by TLC x every object of the universe; non-trivial = A is not a plain class"
    obs = core.pmap(ac.observe_obj, list(enumerate(pairs)), chunk=2000)
    snip_pairs = pairs if len(pairs) <= 20000 else rnd.sample(pairs, 20000)
    obs += snippet_observations(snip_pairs, len(obs))
    for i, o in enumerate(obs):
        o["tid"] = i
    for p in pairs:
        if p["a"]["k"] != "typed":
            check.nontrivial(core.canon(p))
    ac.judge(check, obs, "tlc-exhaustive", CLAUSES)


def replay(check: core.Check, witness: dict) -> None:
    c = witness["case"]
    p = {"a": c["a"], "o": c["o"]}
    obs = [ac.observe_obj((0, p))] + snippet_observations([p], 1)
    ac.judge(check, obs, "replay", CLAUSES)
