"""C12 -- the checker is total: no crash, no internal error, well-formed output.

Spec: spec/Totality.tla + spec/TotalityValues.tla
  (i)   G: a TLC generator of deliberately odd / ill-typed modules (sequences of fragment kinds x operand kinds x scope
        nestings; rendered by harness/c12_fragments.py);
  (ii)  the life-cycle automaton of one check (Start -> Diag* -> End, every Diag WellFormed, no Raise action) stated on the
        POSITION MODEL: a module is a sequence of physical lines (length in code points, UTF-8 length, the pieces
        str.splitlines() cuts them into), a diagnostic is attached to an AST node; ImplShow / ImplContext transcribe
        show_error (node_visitor.py:654-735), RefWellFormedPos / RefContextOK are what the property demands.  The model itself
        is checked exhaustively on small abstract files (PosProperty; PosStrict and one cfg per deviation class must fail);
  (iii) Y: a TLC generator of layouts (where in a real module the diagnosed node sits: line 1, unterminated last line,
        continuation line, decorator, f-string, class body / nested def, lambda default, string annotation; what stands in
        front of it: non-ASCII text, TAB, characters at which only str.splitlines() breaks; lines around it; terminators);
  (iv)  V / R: pairs of Value terms over the wide term space of Values.tla (OddTerms) and (object, type) pairs for
        pyanalyze.runtime: every public operation must return.
Every generated module is checked by the real visitor under two enabled-code configurations; the recorded
Begin/Diag/End/Raised stream (every diagnostic with code, line, column, message length, rendered context) and the
ValueOp / RtOp observations are adjudicated by TLC (TotalityTrace.tla).
The strength is exploration-level (stated in DESIGN.md): TLA+ contributes the generators, the position model and the
acceptance automaton; totality is observed, not derived.
"""
from __future__ import annotations

import ast
import random
import re
import warnings
from concurrent.futures import ThreadPoolExecutor
from typing import Any, Optional

from .. import assign_common as ac
from .. import c12_constfold as K
from .. import c12_decls as DD
from .. import c12_fragments as F
from .. import codec, core, pyz

LEVEL = "exploration"

render = F.render
CONFIGS = ["default", "all-enabled"]
MARK = "zz_mark"


def _all_enabled() -> dict[str, bool]:
    from pyanalyze.error_code import ErrorCode

    return {e.name: True for e in ErrorCode}


# --------------------------------------------------------------------------- the position model's view of a source text
_NL = re.compile(r"\r\n|\n|\r")


def ref_lines(src: str) -> list[str]:
    """Physical lines as CPython's tokenizer counts them (language reference 2.1.2: terminated by LF, CRLF or CR)."""
    parts = _NL.split(src)
    if parts and parts[-1] == "":
        parts.pop()
    return parts


class TextIds:
    """Injective text -> id table of one module: the trace spec only compares line texts for equality, so the texts travel
    as ids (equal ids <=> equal texts)."""

    def __init__(self) -> None:
        self.ids: dict[str, int] = {}

    def __call__(self, text: str) -> int:
        return self.ids.setdefault(text, len(self.ids) + 1)


def line_records(src: str, ids: TextIds) -> list[dict]:
    out = []
    for t in ref_lines(src):
        pieces = t.splitlines() if t else [t]
        out.append({"t": ids(t), "c": len(t), "b": len(t.encode("utf-8")), "p": [] if pieces == [t] else [ids(x) for x in pieces]})
    return out


_FRAME = re.compile(r'^\s*File ".*/pyanalyze/([a-z_]+\.py)", line \d+, in (\w+)$')
_CTX = re.compile(r"^ *(\d+): (.*)$", re.S)
_CARET = re.compile(r"^( +)\^$")


def parse_context(ctx: Optional[str], ids: TextIds) -> tuple[list[dict], int]:
    """failure["context"] -> ([{n, t}..], caret column or -1).  Rendered as "%4d: %s" % (i, line) per line (each line
    ends with "\\n") plus a caret line `" " * (6 + col) + "^"`."""
    entries: list[dict] = []
    caret = -1
    if not ctx:
        return entries, caret
    for raw in ctx.split("\n")[:-1] if ctx.endswith("\n") else ctx.split("\n"):
        m = _CTX.match(raw)
        if m:
            entries.append({"n": int(m.group(1)), "t": ids(m.group(2))})
            continue
        mc = _CARET.match(raw)
        if mc and caret == -1:
            caret = len(mc.group(1))
            continue
        raise core.MachineryError(f"cannot parse rendered context line {raw!r} of {ctx!r}")
    return entries, caret


def node_positions(src: str) -> tuple[set, set]:
    """((lineno, col_offset) of every node of the file, the same for the nodes of every string constant parsed on its own)."""
    tree = ast.parse(src)
    here, fwd = set(), set()
    for n in ast.walk(tree):
        if hasattr(n, "lineno") and hasattr(n, "col_offset"):
            here.add((n.lineno, n.col_offset))
        if isinstance(n, ast.Constant) and isinstance(n.value, str) and n.value.strip():
            try:
                sub = ast.parse(n.value, mode="eval")
            except (SyntaxError, ValueError):
                continue
            for m in ast.walk(sub):
                if hasattr(m, "lineno") and hasattr(m, "col_offset"):
                    fwd.add((m.lineno, m.col_offset))
    return here, fwd


def diag_event(tid: int, f: dict, pos: Optional[tuple[set, set]], frag_of_line, marker, ids: TextIds) -> dict:
    code = getattr(f.get("code"), "name", None) or "none"
    desc = f.get("description") or ""
    haspos = f.get("lineno") is not None and f.get("col_offset") is not None
    lineno = f.get("lineno") if f.get("lineno") is not None else 0
    col = f.get("col_offset") if f.get("col_offset") is not None else 0
    ctx, caret = parse_context(f.get("context"), ids)
    exc, exck, site = "", "", ""
    for ln in desc.splitlines():
        if ln.startswith("Internal error: "):
            exc = ln[:200]
            exck = ln[len("Internal error: "):].split("(")[0]
        m = _FRAME.match(ln)
        if m:  # innermost pyanalyze frame of the reported traceback: file:function
            site = m.group(1) + ":" + m.group(2)
    first = desc.splitlines()[0] if desc.splitlines() else ""
    origin = "none"
    if pos is not None:
        a, b = (lineno, col) in pos[0], (lineno, col) in pos[1]
        origin = "both" if a and b else "file" if a else "fwd" if b else "none"
    return {"tid": tid, "event": "Diag", "code": code, "haspos": haspos, "lineno": lineno, "col": col, "msglen": len(desc),
            "exc": exc, "exck": exck, "site": site, "head": first.split(":")[0][:60], "ctx": ctx, "caret": caret, "origin": origin,
            "frag": frag_of_line(lineno), "marker": bool(marker(code, desc)), "msg": desc[:200]}


def observe_source(tid0: int, src: str, begin_extra: dict, frag_of_line, marker) -> list[dict]:
    """Check `src` under both configurations; events of tid0 (default) and tid0 + 1 (all codes enabled)."""
    try:
        with warnings.catch_warnings():
            warnings.simplefilter("ignore")
            ast.parse(src)
    except SyntaxError as exc:
        raise core.MachineryError(f"generated module is not valid syntax: {exc}\n{src}")
    ids = TextIds()
    lines = line_records(src, ids)
    pos = node_positions(src)
    out: list[dict] = []
    module = None
    import_error = None
    sent: set[str] = set()
    try:
        with warnings.catch_warnings():
            warnings.simplefilter("ignore")
            module = pyz.make_module(src)
    except Exception as exc:  # the module does not import: outside the property's domain
        import_error = type(exc).__name__
    for ci, cfg in enumerate(CONFIGS):
        tid = tid0 + ci
        out.append({"tid": tid, "event": "Begin", "lines": lines if ci == 0 else [], "same": ci > 0, "config": cfg, **begin_extra})
        if module is None:
            out.append({"tid": tid, "event": "End", "skipped": True, "note": f"module does not import: {import_error}"})
            continue
        try:
            with warnings.catch_warnings():
                warnings.simplefilter("ignore")
                fails = pyz.check_source(src, settings=_all_enabled() if cfg == "all-enabled" else None, module=module)
        except BaseException as exc:  # noqa: BLE001  (SystemExit etc. are raises too)
            out.append({"tid": tid, "event": "Raised", "exc": f"{type(exc).__name__}: {exc}"[:500]})
            continue
        same = 0
        for f in fails:
            ev = diag_event(tid, f, pos, frag_of_line, marker, ids)
            # the verdict on a diagnostic is a function of its recorded fields and of the module: a diagnostic of the second
            # configuration that is field-for-field one already recorded for this module is not sent to TLC a second time
            key = core.canon({k: v for k, v in ev.items() if k != "tid"})
            if key in sent:
                same += 1
                continue
            sent.add(key)
            out.append(ev)
        out.append({"tid": tid, "event": "End", "skipped": False, "same_as_other_config": same})
    return out


# --------------------------------------------------------------------------- G: modules made of fragments
def _no_marker(code: str, desc: str) -> bool:
    return False


def observe_prog(arg: tuple[int, dict]) -> list[dict]:
    tid, p = arg
    prog = p["prog"]
    src = render(prog)
    # which fragment a line belongs to (1-based index into prog; 0 = prelude)
    starts: list[int] = []
    ln = len(F.PRELUDE.split("\n"))  # "\n".join([PRELUDE, ...]): the prelude ends with "\n", so block 0 starts here + 1
    for f in prog:
        starts.append(ln + 1)
        ln += len(f.get("w") or ["def"]) + len(F.fragment_lines(f)) + 1

    def frag_of_line(lineno: int) -> int:
        k = 0
        for i, s in enumerate(starts):
            if lineno >= s:
                k = i + 1
        return k

    return observe_source(tid * 2, src, {"slice": "frag", "prog": prog}, frag_of_line, _no_marker)


# --------------------------------------------------------------------------- Y: layouts
PADS = {"none": "", "u2": "\u00e9", "u2x20": "\u00e9" * 20, "u3": "\u20ac", "u4": "\U0001F600", "tab": "\t", "ff": "\x0c",
        "vt": "\x0b", "fs": "\x1c", "nel": "\x85", "ls": "\u2028", "ps": "\u2029"}
FILLERS = {"plain": "v{i} = {i}", "wide": "v{i} = \"\u00e9\u00e9\u00e9\u20ac\U0001F600\"", "ff": "v{i} = \"a\x0cb\"",
           "ls": "v{i} = \"a\u2028b\"", "nel": "v{i} = {i}  # c\x85d"}
NEWLINES = {"lf": "\n", "crlf": "\r\n", "cr": "\r"}
SITES: dict[str, tuple[list[str], str]] = {
    # site -> (lines with {P} = the padding inside a string literal, expected code of the diagnostic about the marker)
    "oneline": (["def f(): return (\"{P}\", zz_mark)"], "undefined_name"),
    "body": (["def f():", "    return (\"{P}\", zz_mark)"], "undefined_name"),
    "continuation": (["def f():", "    return print(", "        \"{P}\", zz_mark,", "    )"], "undefined_name"),
    "mlcall": (["def f():", "    return (\"{P}\", int(", "        1, 2, 3,", "        4))"], "incompatible_call"),
    "decorator": (["def outer():", "    @print(\"{P}\", zz_mark)", "    def inner(): pass", "    return inner"], "undefined_name"),
    "fstring": (["def f(): return f\"{P}{{zz_mark}}\""], "undefined_name"),
    "fstring_ml": (["def f():", "    return f\"\"\"a", "{P}{{zz_mark}}\"\"\""], "undefined_name"),
    "fstring_spec": (["def f(): return f\"{P}{{1:{{zz_mark}}}}\""], "undefined_name"),
    "classbody": (["class C:", "    def m(self):", "        return (\"{P}\", zz_mark)"], "undefined_name"),
    "nesteddef": (["def f():", "    def g():", "        return (\"{P}\", zz_mark)", "    return g"], "undefined_name"),
    "lambda_default": (["def f():", "    return lambda a=(\"{P}\", zz_mark): a"], "undefined_name"),
    "comprehension": (["def f(y):", "    return [(\"{P}\", zz_mark) for _ in y]"], "undefined_name"),
    "strannot": (["def f(x: \"int.zz_mark\"): return \"{P}\""], "invalid_annotation"),
    "strannot_esc": (["def f(x: \"\\n\\n\\n\\nint.zz_mark\"): return \"{P}\""], "invalid_annotation"),
    "strannot_wide": (["def f(x: \"dict[str, dict[str, dict[str, int.zz_mark]]]\"): return \"{P}\""], "invalid_annotation"),
    "strannot_ml": (["def f(x: \"\"\"(", "  int.zz_mark", ")\"\"\"): return \"{P}\""], "invalid_annotation"),
}


def render_layout(lay: dict) -> str:
    body, _ = SITES[lay["site"]]
    pad = PADS[lay["pad"]]
    lines = [FILLERS[lay["filler"]].format(i=i) for i in range(lay["before"])]
    lines += [ln.replace("{P}", pad).replace("{{", "{").replace("}}", "}") for ln in body]
    lines += [FILLERS[lay["filler"]].format(i=100 + i) for i in range(lay["after"])]
    nl = NEWLINES[lay["nl"]]
    return nl.join(lines) + (nl if lay["trail"] else "")


def marker_node(src: str, lay: dict) -> dict:
    """Position of the diagnosed node as CPython's parser reports it (the oracle for node positions)."""
    tree = ast.parse(src)
    site = lay["site"]
    lines = ref_lines(src)
    if site.startswith("strannot"):
        for n in ast.walk(tree):
            if isinstance(n, ast.Constant) and isinstance(n.value, str) and MARK in n.value:
                sub = ast.parse(n.value, mode="eval")
                for m in ast.walk(sub):
                    if isinstance(m, ast.Attribute) and m.attr == MARK:
                        # lineno / col: inside the string; alineno / acol: the annotation expression (here the string
                        # constant itself) in the file
                        return {"haspos": True, "lineno": m.lineno, "col": m.col_offset, "end_lineno": m.end_lineno,
                                "end_col": m.end_col_offset, "fwd": True, "alineno": n.lineno, "acol": n.col_offset}
        raise core.MachineryError(f"no marker in string annotation of layout {lay}")
    for n in ast.walk(tree):
        hit = (isinstance(n, ast.Call) and isinstance(n.func, ast.Name) and n.func.id == "int") if site == "mlcall" else (
            isinstance(n, ast.Name) and n.id == MARK)
        if hit:
            if site != "mlcall":  # the line model must agree with CPython's positions (byte offsets into the physical line)
                seg = lines[n.lineno - 1].encode("utf-8")[n.col_offset:n.end_col_offset].decode("utf-8", "replace")
                if seg != MARK:
                    raise core.MachineryError(f"oracle: line model disagrees with CPython's node position: {seg!r} for {lay}")
            return {"haspos": True, "lineno": n.lineno, "col": n.col_offset, "end_lineno": n.end_lineno,
                    "end_col": n.end_col_offset, "fwd": False, "alineno": n.lineno, "acol": n.col_offset}
    raise core.MachineryError(f"no marker node in layout {lay}")


def observe_layout(arg: tuple[int, dict]) -> list[dict]:
    tid, p = arg
    lay = p["layout"]
    src = render_layout(lay)
    node = marker_node(src, lay)
    expect = SITES[lay["site"]][1]

    def marker(code: str, desc: str) -> bool:
        return code == expect and (expect == "incompatible_call" or MARK in desc)

    return observe_source(tid * 2, src, {"slice": "layout", "layout": lay, "node": node}, lambda lineno: 0, marker)


# --------------------------------------------------------------------------- K: constant folding
def observe_const(arg: tuple[int, dict]) -> list[dict]:
    tid, p = arg
    src = K.render(p["const"])
    return observe_source(tid * 2, src, {"slice": "const", "const": p["const"]}, lambda lineno: 0, _no_marker)


# --------------------------------------------------------------------------- D: declaration-level class bodies
def observe_decl(arg: tuple[int, dict]) -> list[dict]:
    tid, p = arg
    src = DD.render(p["decl"])
    return observe_source(tid * 2, src, {"slice": "decl", "decl": p["decl"]}, lambda lineno: 0, _no_marker)


# --------------------------------------------------------------------------- V / R: the public value API
def _tvmap():
    from pyanalyze import value as V

    from .. import universe as U

    return {U.T: V.TypedValue(int), U.TB: V.KnownValue(U.ODD["unhashable"]), U.TC: V.AnyValue(V.AnySource.explicit),
            U.TVT: V.TypedValue(int)}


def _unary_ops(a, ck, tvmap):
    from pyanalyze import value as V

    yield "str", lambda: str(a)
    yield "repr", lambda: repr(a)
    yield "hash", lambda: hash(a)
    yield "eq_self", lambda: a == a
    yield "simplify", lambda: a.simplify()
    yield "get_type_value", lambda: a.get_type_value()
    yield "get_type", lambda: a.get_type()
    yield "is_type", lambda: a.is_type(int)
    yield "substitute_empty", lambda: a.substitute_typevars({})
    yield "substitute_map", lambda: a.substitute_typevars(tvmap)
    yield "walk_values", lambda: list(a.walk_values())
    yield "flatten_values", lambda: list(V.flatten_values(a, unwrap_annotated=True))
    yield "unannotate", lambda: V.unannotate(a)
    yield "extract_typevars", lambda: list(V.extract_typevars(a))
    yield "concrete_values_from_iterable", lambda: V.concrete_values_from_iterable(a, ck)
    yield "is_iterable", lambda: V.is_iterable(a, ck)
    yield "unpack_values", lambda: V.unpack_values(a, ck, 2)
    yield "check_hashability", lambda: V.check_hashability(a, ck)
    yield "replace_known_sequence_value", lambda: V.replace_known_sequence_value(a)
    yield "kv_pairs_from_mapping", lambda: V.kv_pairs_from_mapping(a, ck)
    yield "unite_and_simplify", lambda: V.unite_and_simplify(a, a, limit=2)
    yield "annotate_value", lambda: V.annotate_value(a, [V.KnownValue(1)])
    yield "stringify_object", lambda: V.stringify_object(a)
    yield "signature_from_value", lambda: ck.signature_from_value(a)
    yield "display_error", lambda: str(V.CanAssignError("x", [V.CanAssignError(str(a))]))


def _binary_ops(a, b, ck):
    from pyanalyze import value as V

    yield "can_assign", lambda: a.can_assign(b, ck)

    def excl():
        with ck.set_exclude_any():
            return a.can_assign(b, ck)

    yield "can_assign_exclude_any", excl
    yield "is_assignable", lambda: a.is_assignable(b, ck)
    yield "can_overlap_eq", lambda: a.can_overlap(b, ck, V.OverlapMode.EQ)
    yield "can_overlap_is", lambda: a.can_overlap(b, ck, V.OverlapMode.IS)
    yield "can_overlap_match", lambda: a.can_overlap(b, ck, V.OverlapMode.MATCH)
    yield "unite_values", lambda: V.unite_values(a, b)
    yield "eq", lambda: a == b
    yield "is_overlapping", lambda: V.is_overlapping(a, b, ck)
    yield "get_tv_map", lambda: V.get_tv_map(a, b, ck)
    yield "can_assign_and_used_any", lambda: V.can_assign_and_used_any(a, b, ck)


def _run_ops(ops) -> tuple[list[dict], int]:
    fails, n = [], 0
    for name, thunk in ops:
        n += 1
        try:
            thunk()
        except core.MachineryError:
            raise
        except Exception as exc:  # noqa: BLE001
            fails.append({"op": name, "exc": f"{type(exc).__name__}: {exc}"[:200]})
    return fails, n


def observe_values(arg: tuple[int, dict]) -> dict:
    from pyanalyze.value import unite_values

    tid, p = arg
    ck = pyz.get_checker()
    a, b = ac.val(p["a"]), ac.val(p["b"])
    tvmap = _tvmap()
    with warnings.catch_warnings():
        warnings.simplefilter("ignore")
        fails, n = _run_ops(_binary_ops(a, b, ck))
        try:
            u = unite_values(a, b)
        except Exception:  # noqa: BLE001  (already recorded by the unite_values op)
            u = None
        if u is not None:  # derived values must be total too
            f2, n2 = _run_ops(_unary_ops(u, ck, tvmap))
            fails += [{"op": "united." + f["op"], "exc": f["exc"]} for f in f2]
            n += n2
        if p["a"] == p["b"]:
            f3, n3 = _run_ops(_unary_ops(a, ck, tvmap))
            fails += f3
            n += n3
    return {"tid": tid, "event": "ValueOp", "a": p["a"], "b": p["b"], "fails": fails, "nops": n}


def observe_rt(arg: tuple[int, dict]) -> dict:
    from pyanalyze import runtime

    tid, p = arg
    o = codec.obj_to_py(p["o"])
    try:
        anno = codec.term_to_annotation(p["a"])
        typ = eval(anno, ac._namespace())
    except core.MachineryError:
        return {"tid": tid, "event": "RtOp", "o": p["o"], "a": p["a"], "fails": [], "nops": 0}
    with warnings.catch_warnings():
        warnings.simplefilter("ignore")
        fails, n = _run_ops([("runtime.is_assignable", lambda: runtime.is_assignable(o, typ)),
                             ("runtime.get_assignability_error", lambda: runtime.get_assignability_error(o, typ)),
                             ("runtime.is_compatible", lambda: runtime.is_compatible(o, typ))])
    return {"tid": tid, "event": "RtOp", "o": p["o"], "a": p["a"], "fails": fails, "nops": n}


# --------------------------------------------------------------------------- adjudication
def _header() -> dict:
    from pyanalyze.error_code import ErrorCode

    return {"tid": -1, "event": "Codes", "codes": sorted(e.name for e in ErrorCode)}


def _strip(e: dict) -> dict:
    drop = ("msg", "note", "nops", "layout", "config", "same_as_other_config", "const") if e.get("code") == "internal_error" or e["event"] != "Diag" else (
        "msg", "note", "nops", "exc", "exck", "site", "head")
    return {k: v for k, v in e.items() if k not in drop}


def adjudicate(groups: list[list[dict]], parallel: int = 8) -> tuple[dict[Any, list[str]], dict[str, int]]:
    """groups: event lists that must stay together (one module = Begin .. End of both configurations)."""
    header = _header()
    batches: list[list[dict]] = [[header]]
    for evs in groups:
        if len(batches[-1]) + len(evs) > 6000:
            batches.append([header])
        batches[-1].extend(_strip(e) for e in evs)
    verdicts: dict[Any, list[str]] = {}
    stats = {"observations": 0, "states": 0, "transitions": 0, "batches": 0}

    def one(b):
        return core.adjudicate("TotalityTrace", "TotalityTrace.cfg", b, batch=10**9, timeout=1800)

    with ThreadPoolExecutor(parallel) as ex:
        for v, s in ex.map(one, batches):
            for k, vs in v.items():
                verdicts.setdefault(k, []).extend(vs)
            for k in stats:
                stats[k] += s[k]
    return verdicts, stats


def judge(check: core.Check, progs: list[dict], layouts: list[dict], pairs: list[dict], rts: list[dict], label: str,
          consts: Optional[list[dict]] = None, decls: Optional[list[dict]] = None) -> None:
    consts = consts or []
    decls = decls or []
    import time as _t

    t0 = _t.time()
    per_prog = core.pmap(observe_prog, list(enumerate(progs)), chunk=20)
    base = len(progs)
    per_lay = core.pmap(observe_layout, [(base + i, p) for i, p in enumerate(layouts)], chunk=40)
    base = len(progs) + len(layouts)
    per_const = core.pmap(observe_const, [(base + i, p) for i, p in enumerate(consts)], chunk=4)
    base = len(progs) + len(layouts) + len(consts)
    per_decl = core.pmap(observe_decl, [(base + i, p) for i, p in enumerate(decls)], chunk=10)
    per_const = per_const + per_decl
    base = 2 * (len(progs) + len(layouts) + len(consts) + len(decls))
    vals = core.pmap(observe_values, [(base + i, p) for i, p in enumerate(pairs)], chunk=500)
    base += len(pairs)
    rtobs = core.pmap(observe_rt, [(base + i, p) for i, p in enumerate(rts)], chunk=500)
    groups = per_prog + per_lay + per_const + [[v] for v in vals] + [[v] for v in rtobs]
    t1 = _t.time()
    verdicts, stats = adjudicate(groups)
    check.add_trace_stats(stats)
    check.cov.setdefault("phase_wall_s", []).append({"source": label, "observe": round(t1 - t0, 1), "adjudicate": round(_t.time() - t1, 1)})
    by_tid: dict[int, list[dict]] = {}
    for evs in groups:
        for e in evs:
            by_tid.setdefault(e["tid"], []).append(e)
    for tid, vs in sorted(verdicts.items()):
        evs = by_tid.get(tid, [])
        first = evs[0] if evs else {}
        case = {k: first[k] for k in ("prog", "layout", "const", "decl", "a", "b", "o") if first.get(k) not in (None, [], {})}
        src = (render(first["prog"]) if first.get("slice") == "frag" else render_layout(first["layout"]) if first.get("slice") == "layout"
               else K.render(first["const"]) if first.get("slice") == "const" else DD.render(first["decl"]) if first.get("slice") == "decl" else None)
        bad = [e for e in evs if e["event"] in ("Raised", "Diag", "ValueOp", "RtOp")]
        for v in sorted(set(vs)):
            payload = {"case": case, "config": first.get("config"), "verdict": v, "source": label, "src": src,
                       "events": [{k: x for k, x in e.items() if k != "lines"} for e in bad][-4:]}
            if v.startswith("viol:"):
                check.violation(core.canon({"case": case, "config": first.get("config")}), v[5:], payload)
            elif v.startswith("dev:"):
                check.violation(v[4:], v[4:], payload)
            elif v.startswith("drift:"):
                check.drift(payload)
            else:
                raise core.MachineryError(f"unexpected verdict {v} for tid {tid}")
    check.evals(2 * (len(progs) + len(layouts) + len(consts) + len(decls)) + sum(v["nops"] for v in vals) + sum(v["nops"] for v in rtobs))
    for p in progs:
        check.nontrivial(core.canon(p["prog"]))
    for p in layouts:
        check.nontrivial(core.canon(p["layout"]))
    for p in pairs:
        check.nontrivial(core.canon([p["a"], p["b"]]))
    for p in consts:
        check.nontrivial(core.canon(p["const"]))
    for p in decls:
        check.nontrivial(core.canon(p["decl"]))
    skipped = sum(1 for evs in per_decl for e in evs if e["event"] == "End" and e.get("skipped"))
    check.cov["declaration_modules"] = check.cov.get("declaration_modules", 0) + len(decls)
    check.cov["declaration_modules_not_importable"] = check.cov.get("declaration_modules_not_importable", 0) + skipped // 2
    check.cov["constant_expressions"] = check.cov.get("constant_expressions", 0) + sum(
        len(p["const"]["xs"]) * max(1, len(p["const"]["ys"])) for p in consts)
    ndiag = sum(1 if e["event"] == "Diag" else e.get("same_as_other_config", 0) for evs in per_prog + per_lay + per_const for e in evs
                if e["event"] in ("Diag", "End"))
    check.cov["diagnostics_judged"] = check.cov.get("diagnostics_judged", 0) + ndiag
    check.cov["value_operations"] = check.cov.get("value_operations", 0) + sum(v["nops"] for v in vals) + sum(v["nops"] for v in rtobs)
    for evs in (per_prog[:: max(1, len(per_prog) // 2)][:2] + per_lay[:: max(1, len(per_lay) // 2)][:2]):
        check.sample({"source": label, "events": [{k: x for k, x in e.items() if k != "lines"} for e in evs[:4]]})
    for v in vals[:1] + rtobs[:1]:
        check.sample({"source": label, "events": [v]})


# --------------------------------------------------------------------------- sensitivity of the trace oracle
def selftest_trace_oracle(check: core.Check) -> None:
    """Corrupted observations: every clause of the trace oracle must reject what it is there to reject."""
    src = "def f():\n    return zz_mark\n\n\n\n\n\n\nx = 1\n"
    evs = observe_source(0, src, {"slice": "frag", "prog": []}, lambda n: 0, _no_marker)
    begin = evs[0]
    good = next(e for e in evs if e["event"] == "Diag" and e["code"] == "undefined_name")

    def case(tid: int, diag: Optional[dict], tail: Optional[dict] = None) -> list[dict]:
        out = [{**begin, "tid": tid}]
        if diag is not None:
            out.append({**good, **diag, "tid": tid})
        out.append(tail if tail is not None else {"tid": tid, "event": "End", "skipped": False})
        return out

    I1 = {"k": "known", "o": {"c": "int", "v": "1", "items": []}}
    HR = {"k": "known", "o": {"c": "odd", "v": "hashraises_rt", "items": []}}
    expect: dict[int, tuple[str, list[dict]]] = {
        1: ("ok", case(1, {})),
        2: ("viol:IllFormedDiagnostic", case(2, {"col": 40, "origin": "none"})),            # column beyond the line
        3: ("viol:IllFormedDiagnostic", case(3, {"lineno": 10, "origin": "none"})),         # line beyond the file
        4: ("viol:IllFormedDiagnostic", case(4, {"msglen": 0})),
        5: ("viol:IllFormedDiagnostic", case(5, {"code": "no_such_code"})),
        6: ("viol:IllFormedDiagnostic", case(6, {"haspos": False, "lineno": 0, "col": 0, "ctx": [], "caret": -1})),
        7: ("viol:InternalError", case(7, {"code": "internal_error", "exc": "Internal error: KeyError('x')"})),
        8: ("viol:ContextNotFromFile", case(8, {"ctx": [{"n": e["n"], "t": 9999 if e["n"] == 1 else e["t"]} for e in good["ctx"]]})),
        9: ("viol:ContextNotFromFile", case(9, {"ctx": [e for e in good["ctx"] if e["n"] != good["lineno"]]})),
        10: ("drift:context", case(10, {"ctx": good["ctx"][:-1]})),
        11: ("drift:context", case(11, {"caret": good["caret"] + 1})),
        12: ("viol:CheckRaised", case(12, None, {"tid": 12, "event": "Raised", "exc": "X"})),
        13: ("viol:ValueOperationRaised", [{"tid": 13, "event": "ValueOp", "a": I1, "b": I1, "fails": [{"op": "hash", "exc": "RuntimeError: __hash__ raises"}]}]),
        14: ("viol:RuntimeApiRaised", [{"tid": 14, "event": "RtOp", "o": I1["o"], "a": I1, "fails": [{"op": "runtime.is_assignable", "exc": "TypeError: x"}]}]),
        # the behaviours of the repaired defects are violations now, not excused classes
        15: ("viol:InternalError", case(15, {"code": "internal_error", "exc": "", "head": "Match value is not a literal"})),
        16: ("viol:InternalError", case(16, {"code": "internal_error", "exc": "Internal error: AttributeError(\"'ellipsis' object has no attribute 'splitlines'\")"})),
        17: ("viol:InternalError", case(17, {"code": "internal_error", "exc": "Internal error: RecursionError('maximum recursion depth exceeded')"})),
        18: ("viol:InternalError", case(18, {"code": "internal_error", "exc": "Internal error: TypeError('unbound method type.mro() needs an argument')"})),
        19: ("viol:InternalError", case(19, {"code": "internal_error", "exc": "Internal error: IndexError('list index out of range')"})),
        20: ("viol:IllFormedDiagnostic", case(20, {"col": 40, "origin": "fwd"})),   # a position relative to a string annotation
        21: ("viol:ValueOperationRaised", [{"tid": 21, "event": "ValueOp", "a": HR, "b": I1, "fails": [{"op": "hash", "exc": "RuntimeError: __hash__ raises"}]}]),
        22: ("viol:RuntimeApiRaised", [{"tid": 22, "event": "RtOp", "o": HR["o"], "a": I1, "fails": [{"op": "runtime.is_assignable", "exc": "RuntimeError: __hash__ raises"}]}]),
    }
    # the repaired big-union fast path (426a2ab): the old crash, a hash exception with a big union as operand, is a violation
    big = {"k": "union", "ms": [{"k": "known", "o": {"c": "int", "v": str(i % 2), "items": []}} for i in range(12)]}
    expect[25] = ("viol:ValueOperationRaised", [{"tid": 25, "event": "ValueOp", "a": HR, "b": big,
                                                  "fails": [{"op": "unite_values", "exc": "RuntimeError: __hash__ raises"}]}])
    expect[26] = ("viol:ValueOperationRaised", [{"tid": 26, "event": "ValueOp", "a": big, "b": HR,
                                                  "fails": [{"op": "can_assign", "exc": "RuntimeError: __hash__ raises"}]}])
    # repaired crashes inside their former fragment kinds are violations now (55a5b7d, 918a2c8)
    beginv = {**begin, "prog": [{"kind": "version_info_compare", "a": "str", "b": "none", "w": ["def"]}]}
    begina = {**begin, "prog": [{"kind": "paramspec_alias", "a": "int", "b": "none", "w": ["def"]}]}
    end = lambda t: {"tid": t, "event": "End", "skipped": False}  # noqa: E731
    expect[29] = ("viol:InternalError", [{**beginv, "tid": 29}, {**good, "tid": 29, "frag": 1, "code": "internal_error", "exck": "TypeError",
                                          "site": "name_check_visitor.py:_visit_single_compare",
                                          "exc": "Internal error: TypeError(\"'>' not supported between instances of 'sys.version_info' and 'str'\")"}, end(29)])
    expect[30] = ("viol:InternalError", [{**begina, "tid": 30}, {**good, "tid": 30, "frag": 1, "code": "internal_error", "exck": "TypeError",
                                          "site": "annotations.py:get_type_alias", "exc": "Internal error: TypeError(\"unhashable type: 'list'\")"}, end(30)])
    # ... while the one open input-side class is excused inside its kind only
    expect[31] = ("dev:paramspec-substituted-by-non-signature", [{**begina, "tid": 31}, {**good, "tid": 31, "frag": 1, "code": "internal_error",
                                          "exck": "AssertionError", "site": "signature.py:substitute_typevars",
                                          "exc": "Internal error: AssertionError(TypedValue(typ=<class 'int'>, literal_only=False))"}, end(31)])
    expect[32] = ("viol:InternalError", [{**beginv, "tid": 32}, {**good, "tid": 32, "frag": 1, "code": "internal_error",
                                          "exck": "AssertionError", "site": "signature.py:substitute_typevars",
                                          "exc": "Internal error: AssertionError(TypedValue(typ=<class 'int'>, literal_only=False))"}, end(32)])
    # the seeded duplicate-enum-member crash and the repaired display crash (b889ca7) are violations
    begind = {**begin, "slice": "decl", "decl": {"kind": "enum", "v": "tup_list"}}
    begindh = {**begin, "slice": "decl", "decl": {"kind": "module_const", "v": "hash_runtimeerror"}}
    expect[33] = ("viol:InternalError", [{**begind, "tid": 33}, {**good, "tid": 33, "code": "internal_error", "exck": "TypeError", "site": "name_check_visitor.py:visit_Assign",
                                          "exc": "Internal error: TypeError(\"unhashable type: 'list'\")"}, end(33)])
    expect[34] = ("viol:InternalError", [{**begindh, "tid": 34}, {**good, "tid": 34, "code": "internal_error", "exck": "RuntimeError",
                                          "site": "name_check_visitor.py:visit_Dict", "exc": "Internal error: RuntimeError('__hash__ raises')"}, end(34)])
    expect[35] = ("viol:InternalError", [{**begind, "tid": 35}, {**good, "tid": 35, "code": "internal_error", "exck": "RuntimeError",
                                          "site": "name_check_visitor.py:visit_Dict", "exc": "Internal error: RuntimeError('__hash__ raises')"}, end(35)])
    expect[36] = ("viol:InternalError", [{**begindh, "tid": 36}, {**good, "tid": 36, "code": "internal_error", "exck": "RuntimeError",
                                          "site": "name_check_visitor.py:visit_Assign", "exc": "Internal error: RuntimeError('__hash__ raises')"}, end(36)])
    # the open input-side classes excuse nothing outside their own fragment kind
    expect[27] = ("viol:InternalError", case(27, {"code": "internal_error", "exck": "TypeError", "site": "name_check_visitor.py:_visit_single_compare",
                                                  "exc": "Internal error: TypeError(\"'>' not supported between instances of 'sys.version_info' and 'str'\")"}))
    expect[28] = ("viol:InternalError", case(28, {"code": "internal_error", "exck": "OverflowError", "site": "name_check_visitor.py:_visit_single_formatted_value",
                                                  "exc": "Internal error: OverflowError('%c arg not in range(0x110000)')"}))
    # a line that str.splitlines() would cut: the context must show the whole physical line (9834ac5); pieces are rejected
    src2 = "def f():\n    return (\"a\x0cb\", zz_mark)\n"
    evs2 = observe_source(0, src2, {"slice": "frag", "prog": []}, lambda n: 0, _no_marker)
    good2 = next(e for e in evs2 if e["event"] == "Diag" and e["code"] == "undefined_name")
    pieces = evs2[0]["lines"][1]["p"]
    if len(pieces) != 2:
        raise core.MachineryError(f"self-test: expected a line in two pieces, got {evs2[0]['lines']}")
    split_ctx = [{"n": 1, "t": evs2[0]["lines"][0]["t"]}, {"n": 2, "t": pieces[0]}, {"n": 3, "t": pieces[1]}]
    expect[23] = ("ok", [{**evs2[0], "tid": 23}, {**good2, "tid": 23}, {"tid": 23, "event": "End", "skipped": False}])
    expect[24] = ("viol:ContextNotFromFile", [{**evs2[0], "tid": 24}, {**good2, "tid": 24, "ctx": split_ctx}, {"tid": 24, "event": "End", "skipped": False}])
    verdicts, stats = adjudicate([evs for _, evs in expect.values()], parallel=1)
    check.add_trace_stats(stats)
    for tid, (want, _) in expect.items():
        got = sorted(set(verdicts.get(tid, []))) or ["ok"]
        if got != [want]:
            raise core.MachineryError(f"trace-oracle self-test {tid}: expected {want}, TLC said {got}")
    check.cov["trace_oracle_selftests"] = len(expect)


# --------------------------------------------------------------------------- run / replay
def run(check: core.Check) -> None:
    quick = check.tier == "quick"
    rnd = random.Random(check.seed)
    check.assumptions += [
        f"the grammar is the modelled one ({len(F.KINDS)} fragment kinds x 13 operand kinds x scope nestings of depth <= 3 "
        "(def / async def / class); every single fragment exhaustively, sequences of <= 4 fragments by simulation), not all of "
        "Python; totality is observed, not derived (exploration level)",
        "two enabled-code configurations: defaults and every code enabled; modules that fail to import are outside the domain",
        "position model: physical lines as CPython counts them (LF / CRLF / CR), node positions as CPython's parser reports "
        "them; layouts: 16 sites x 12 paddings x lines around x terminators (exhaustive core + simulation)",
        "well-formed values: objects wrapped by KnownValue follow the data model where the checker has to rely on it "
        "(__repr__ returns a str, __getattr__ raises AttributeError only); __eq__, __bool__, __hash__ may raise",
        "eight defects found by this check are repaired in /repo (known_findings.jsonl, status fixed); the specification requires "
        "the repaired behaviour (FixedLines / FixedFwd = TRUE; no excused internal_error / raising value operation); one class "
        "is open: column-is-utf8-byte-offset",
    ]
    # (1) the position model, exhaustively, with its sensitivity configurations
    with ThreadPoolExecutor(6) as ex:
        futs = {name: ex.submit(core.run_tlc, "TotalityEmit", f"Totality.{name}.cfg", timeout=1800,
                                workers=4 if name in ("pos", "pos5") else 1, coverage=(name in ("pos", "pos5")))
                for name in (["pos"] if quick else ["pos5"]) + ["posstrict", "posnobyte", "posnosplit", "posnofwd", "posnopos"]}
        res = {k: f.result() for k, f in futs.items()}
    main = "pos" if quick else "pos5"
    core.require_ok(res[main], "position model")
    core.require_coverage(res[main], ["PosNext"], "Totality position model")
    check.add_tlc(f"position-model:{main}", res[main])
    for name in ("posstrict", "posnobyte", "posnosplit", "posnofwd", "posnopos"):
        want = "PosStrict" if name == "posstrict" else "PosProperty"
        if res[name].violated != want:
            raise core.MachineryError(f"sensitivity: Totality.{name}.cfg should violate {want}, TLC said {res[name].violated} / {res[name].error}")
        check.add_tlc(f"sensitivity:{name} (violated as required)", res[name])
    # (2) the trace oracle rejects corrupted observations
    selftest_trace_oracle(check)
    # (3) generated inputs (independent TLC runs, side by side)
    with ThreadPoolExecutor(7) as ex:
        f_em = ex.submit(core.run_tlc, "TotalityEmit", "Totality.emit1.cfg" if quick else "Totality.emit1t.cfg", coverage=True, timeout=1800, workers=4)
        f_sim = ex.submit(core.simulate_cases, "TotalityEmit", "Totality.sim.cfg", 700 if quick else 8000, depth=14,
                          seed=check.seed + 4, check=check, first_num=40)
        f_lay = ex.submit(core.run_tlc, "TotalityEmit", "Totality.layq.cfg" if quick else "Totality.layfull.cfg", timeout=1800, workers=4)
        f_lsim = ex.submit(core.simulate_cases, "TotalityEmit", "Totality.laysim.cfg", 500 if quick else 4000, depth=6,
                           seed=check.seed + 5, check=check, first_num=60 if quick else 600)
        f_val = ex.submit(core.run_tlc, "TotalityEmit", "Totality.vals.cfg", timeout=1800, workers=4)
        f_rt = ex.submit(core.run_tlc, "TotalityEmit", "Totality.rt.cfg", timeout=1800, workers=2)
        f_pairs = ex.submit(core.run_tlc, "AssignEmit", "Assign.emit1.cfg", timeout=1800, workers=4)
        f_decl = ex.submit(core.run_tlc, "TotalityEmit", "Totality.decl.cfg", timeout=1800, workers=2)
        f_const = ex.submit(core.run_tlc, "TotalityEmit", "Totality.const.cfg" if quick else "Totality.constfull.cfg", timeout=1800, workers=2)
        em = core.require_ok(f_em.result(), "Totality emit")
        sim = f_sim.result()
        lem = core.require_ok(f_lay.result(), "layouts")
        lsim = f_lsim.result()
        vem = core.require_ok(f_val.result(), "wide value pairs")
        rem = core.require_ok(f_rt.result(), "runtime pairs")
        pem = core.require_ok(f_pairs.result(), "value pairs emit")
        kem = core.require_ok(f_const.result(), "constant-folding cases")
        dem = core.require_ok(f_decl.result(), "declaration cases")
    core.require_coverage(em, ["Next"], "Totality")
    check.add_tlc("emit1", em)
    progs = core.emitted_json(em)
    progs = progs + [p for p in sim if len(p["prog"]) > 1 or len(p["prog"][0]["w"]) > 1]
    check.add_tlc("layouts", lem)
    layouts = core.emitted_json(lem)
    seen = {core.canon(x) for x in layouts}
    layouts += [x for x in lsim if core.canon(x) not in seen]
    check.add_tlc("wide-value-pairs", vem)
    wide = core.emitted_json(vem)
    check.add_tlc("runtime-pairs", rem)
    rts = core.emitted_json(rem)
    check.add_tlc("value-pairs", pem)
    allpairs = core.emitted_json(pem)
    check.add_tlc("declarations", dem)
    decls = core.emitted_json(dem)
    if {(d["decl"]["kind"], d["decl"]["v"]) for d in decls} != {(k, v) for k in DD.KINDS for v in DD.VALUES}:
        raise core.MachineryError("Totality.tla DKinds / DValues and harness/c12_decls.py disagree")
    check.add_tlc("constant-folding", kem)
    consts = core.emitted_json(kem)
    fams = K.families()   # the tables of the renderer and of Totality.tla (KFamilies / KArity) must be the same
    seen_ops = {(c["const"]["fam"], c["const"]["idx"]) for c in consts}
    if seen_ops != {(f, i) for f, ops in fams.items() for i in range(1, len(ops) + 1)}:
        raise core.MachineryError("Totality.tla KFamilies and harness/c12_constfold.py disagree about the operation tables")
    for c in consts:
        ar = K.BINARY.get(c["const"]["fam"], "unary")
        if (ar == "unary") != (c["const"]["ys"] == []) or (ar in ("small", "bothsmall") and c["const"]["ys"] != K.YS_SMALL) or (
                ar == "bothsmall") != (c["const"]["xs"] == K.YS_SMALL):
            raise core.MachineryError(f"Totality.tla KArity and harness/c12_constfold.py disagree on {c['const']['fam']}")
    pairs = rnd.sample(allpairs, min(len(allpairs), 4000 if quick else 10**9))
    # always include the pairs with a big literal union on either side (set-based fast paths of MultiValuedValue)
    big = [p for p in allpairs if any(t["k"] == "union" and len(t["ms"]) >= 10 for t in (p["a"], p["b"]))]
    pairs = pairs + [p for p in big if p not in pairs]
    # always replayed: the callable-compatibility family (Values.tla CallFamily) and every pair with a big union
    fam = [p for p in wide if p["fam"] or p["big"]]
    check.cov["callable_family_pairs"] = len(fam)
    if quick:
        diag = [p for p in wide if p["a"] == p["b"] and not (p["fam"] or p["big"])]
        rest = [p for p in wide if p["a"] != p["b"] and not (p["fam"] or p["big"])]
        wide = fam + diag + rnd.sample(rest, min(len(rest), 4000))
    check.cov["exhaustive"] = False
    check.cov["rule"] = (
        "modules = sequences of fragments generated by TLC (every single fragment kind x operand in a plain and in an async "
        "function exhaustively, longer sequences and deeper scope nestings by simulation) x 2 configurations; layouts = site x "
        "padding x lines before in {0,1,4} x after in {0,4} x trailing newline exhaustively, fillers / terminators by simulation "
        "(thorough: before in {0,1,3,4} x after in {0,3,4} x 3 fillers x LF/CRLF exhaustively + 4000 simulated over everything); every diagnostic judged on the position model (WellFormed + context); value pairs = "
        "WideTerms x WideTerms of TotalityValues.tla (quick: the callable family CallFamily x CallFamily, the diagonal and 4000 sampled pairs) + Assign.tla's pairs, 12 binary operations "
        "per pair + 25 unary ones on the union; runtime API on RtObjects x RtTypes; constant folding = every operation of the 15 "
        "families (f-string specs / conversions / nested specs, % and str.format, calls, operators) x 21 constants x second-operand "
        "menu (quick: 11 values, thorough: 21; exponents and repeat counts from the small menu), one module per operation; "
        "declarations = every declaration kind (Enum / IntEnum / Flag bodies, dataclasses, NamedTuple, TypedDict, Protocol, plain "
        "class, module constant) x every member value incl. nominally hashable but unhashable ones, class statement at module level; non-trivial = distinct modules / layouts / pairs")
    judge(check, progs, layouts, pairs + wide, rts, "tlc-generated", consts, decls)


def replay(check: core.Check, witness: dict) -> None:
    c = witness["case"]
    if c.get("decl"):
        judge(check, [], [], [], [], "replay", [], [{"decl": c["decl"]}])
    elif c.get("const"):
        judge(check, [], [], [], [], "replay", [{"const": c["const"]}])
    elif c.get("prog"):
        judge(check, [{"prog": c["prog"]}], [], [], [], "replay")
    elif c.get("layout"):
        judge(check, [], [{"layout": c["layout"]}], [], [], "replay")
    elif c.get("o"):
        judge(check, [], [], [], [{"o": c["o"], "a": c["a"]}], "replay")
    else:
        judge(check, [], [], [{"a": c["a"], "b": c["b"]}], [], "replay")
