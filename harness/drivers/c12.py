"""C12 -- the checker is total: no crash, no internal error, well-formed output.

Spec: spec/Totality.tla -- (i) a TLC generator of deliberately odd / ill-typed modules (sequences of
fragment kinds x operand kinds), (ii) the life-cycle automaton of one check (Start -> Diag* -> End, every
Diag WellFormed, no Raise action).  Every generated module is rendered (FRAGMENTS below), checked by the
real visitor under two enabled-code configurations, and the recorded Begin/Diag/End/Raised event stream
is validated by TLC (TotalityTrace.tla).  The public value API (can_assign / unite_values /
substitute_typevars) is exercised on TLC-generated pairs of Values (Assign.tla's generator).
The strength is exploration-level (stated in DESIGN.md): TLA+ contributes the generator and the
acceptance automaton; totality is observed, not derived.
"""
from __future__ import annotations

import ast
import random
from typing import Any

from .. import assign_common as ac
from .. import core, pyz

LEVEL = "exploration"

PRELUDE = '''import os
from dataclasses import dataclass
from typing import Any, Optional, TypeVar, Union, overload

TT = TypeVar("TT", bound=int)

def helper_fn(x: int, y: str = "") -> int:
    return x

class HelperCls:
    a: int = 1
    def method(self, q: int) -> str:
        return ""

@dataclass
class HelperDC:
    f: int
    g: str = ""

@overload
def ov(x: int) -> int: ...
@overload
def ov(x: str) -> str: ...
def ov(x: Union[int, str]) -> Union[int, str]:
    return x

GG = 0
'''

OPERAND = {
    "int": "(1)", "str": '"s"', "none": "None", "list": '[1, "a"]', "dict": '{"k": 1}', "tuple": '(1, "a")',
    "func": "helper_fn", "cls": "HelperCls", "module": "os", "undefined": "zz_undefined_name", "float": "(1.5)",
    "bytes": 'b"x"', "set": "{1, 2}",
}
ANNOT = {
    "int": "int", "str": "str", "none": "None", "list": "list[int]", "dict": "dict[str, int]", "tuple": "tuple[int, *tuple[str, ...]]",
    "func": "helper_fn", "cls": "HelperCls", "module": "os", "undefined": "ZzUndefinedType", "float": "float | None",
    "bytes": "Optional[bytes]", "set": "set[list[int]]",
}


def fragment_lines(f: dict) -> list[str]:
    A, B = OPERAND[f["a"]], OPERAND[f["b"]]
    AN = ANNOT[f["a"]]
    k = f["kind"]
    table: dict[str, list[str]] = {
        "call_arity": [f"helper_fn({A}, {A}, {A})", "helper_fn()", f"{A}()", f"{A}({A})"],
        "call_kw": [f"helper_fn(x={A}, nope={A})", f"HelperCls().method(q={A}, q2={A})"],
        "binop": [f"{A} + {B}", f"{A} @ {B}", f"{A} < {B}", f"{A} ** {B}"],
        "unary": [f"-{A}", f"~{A}", f"not {A}", f"+{A}"],
        "subscript": [f"{A}[{B}]", f"v = {A}", f"v[{B}] = 1", f"del v[{B}]"],
        "attribute": [f"{A}.nope", f"v = {A}", "v.nope = 1", f"{A}.__class__.__name__.nope"],
        "compare": [f"{A} in {B}", f"{A} is {B}", f"{A} == {B} < {A}", f"{A} not in {B}"],
        "annotation": [f"def inner(p: {AN}, *a: {AN}, **k: {AN}) -> {AN}:", "    return p", f"inner({A})"],
        "string_annotation": [f"def inner(p: \"{AN}\") -> \"{AN} | None\":", "    return p", f"x: \"{AN}\" = {A}"],
        "odd_string_annotation": [f"def inner(p: \"lambda: {AN}\", q: \"{AN} if 1 else {AN}\", r: \"[{AN} for _ in ()]\") -> \"not {AN}\":", "    return p",
                                  f"y: \"{AN}.attr[0](1)\" = {A}", f"z: \"-{AN}\" = {A}", f"w: \"{{1: {AN}}}\" = {A}"],
        "mixed_returns": ["def inner(c: bool):", "    if c:", f"        return {A}", "    elif c is None:", "        return int", "    return HelperCls", "inner(True)"],
        "decorator": [f"@{A}", "def inner(q):", "    return q", "inner(1)"],
        "class_base": [f"class Inner({A}, metaclass=type):", "    pass", "Inner()"],
        "class_body": ["class Inner:", f"    x: {AN} = {A}", "    def m(self):", "        return self.y + self.x", "Inner().m().nope"],
        "listcomp": [f"[x.nope for x in {A} if x]", f"[[y for y in x] for x in {A}]"],
        "dictcomp": [f"{{k: v for k, v in {A}}}", f"{{x: x for x in {A}}}"],
        "genexp": [f"sum(x for x in {A})", f"list(x for x in {A} for y in x)"],
        "lambda_call": [f"(lambda x, *y, **z: x + {A})({A}, {A}, q={A})", "(lambda: undefined_in_lambda)()"],
        "starred_call": [f"helper_fn(*{A}, **{A})", f"print(*{A}, sep={A})"],
        "starred_assign": [f"first, *rest = {A}", "first.nope", "rest.nope", f"*only, = {A}"],
        "fstring": [f"f\"{{({A})!r:>10}} {{({A}).nope}} {{({A}):{{({A})}}}}\"", f"f'{{({A})=}}'"],
        "percent_format": [f"\"%d %s\" % {A}", f"\"%(a)s\" % {A}", f"\"{{}} {{nope}}\".format({A})"],
        "walrus": [f"if (w := {A}):", "    w.nope", f"print(w2 := {A}, w2)"],
        "match_stmt": [f"match {A}:", "    case [x, *y]:", "        x.nope", "    case {\"k\": v, **rest}:", "        v.nope",
                       "    case HelperCls(a=1) | HelperDC(1, g=\"\"):", "        pass", "    case str() | None | 1.5:", "        pass",
                       "    case (1 | 2) as z if z:", "        z.nope", "    case _:", "        pass"],
        "async_fn": ["async def inner():", f"    await {A}", f"    async with {A} as q:", "        q.nope", f"    async for z in {A}:", "        z.nope",
                     f"    return [x async for x in {A}]"],
        "with_stmt": [f"with {A} as q, {A}:", "    q.nope"],
        "for_loop": [f"for a, b in {A}:", "    a + b", "else:", "    b"],
        "unpack": [f"a, b = {A}", f"(c, d), e = {A}, {A}", f"[f, g] = {A}"],
        "augassign": [f"v = {A}", f"v += {B}", "v[0] -= 1", "v.attr *= 2"],
        "delete": [f"v = {A}", "del v", "v", f"del {A}.nope"],
        "global_stmt": ["global GG", "GG = \"now a str\"", "GG.nope"],
        "try_stmt": ["try:", f"    {A}.nope", f"except {A}:", "    pass", f"except (ValueError, {A}) as e:", "    e.nope", "else:", "    pass", "finally:", "    pass"],
        "return_value": ["def inner() -> int:", f"    return {A}", "def inner2() -> None:", f"    return {A}", "inner().nope"],
        "yield_stmt": ["def inner():", f"    x = yield {A}", f"    yield from {A}", "    return x", "for q in inner():", "    q.nope"],
        "assert_stmt": [f"assert {A}, {A}", f"assert isinstance({A}, int)", f"assert {A} is not None"],
        "ifexp": [f"({A} if {A} else {A}).nope", f"(1 if {A} else \"s\") + 1"],
        "boolop": [f"({A} and {B}) or (not {A})", f"({A} or {B}).nope"],
        "slice": [f"{A}[1:2]", f"{A}[::{A}]", f"{A}[1:2] = {A}"],
        "dict_display": [f"{{{A}: {B}, **{A}}}", f"{{{A}: 1, {A}: 2}}"],
        "set_display": [f"{{{A}, *{A}}}", f"{{{A}, {A}}}"],
        "nested_def": [f"def outer(p={A}, *a: {AN}, k: {AN} = {A}, **kw):", "    def innermost():", "        nonlocal p", "        p = 1", "        return p, a, k, kw",
                       "    return innermost", f"outer({A}, k={A})()"],
        "typevar_fn": ["def inner(x: TT) -> list[TT]:", "    return [x]", f"inner({A})", f"inner({A})[0].nope"],
        "overload_fn": [f"ov({A})", f"ov({A}, {A})", f"ov(x={A}).nope"],
        "dataclass_cls": ["@dataclass", "class DC:", f"    f: {AN} = {A}", f"HelperDC({A}, nope={A})", f"DC({A}).f.nope"],
    }
    if k not in table:
        raise core.MachineryError(f"no rendering for fragment kind {k}")
    return table[k]


def render(prog: list[dict]) -> str:
    lines = [PRELUDE]
    for i, f in enumerate(prog):
        lines.append(f"def frag_{i}():")
        for ln in fragment_lines(f):
            lines.append("    " + ln)
        lines.append("")
    return "\n".join(lines) + "\n"


CONFIGS: list[dict[str, bool] | None] = [None, "ALL"]  # type: ignore[list-item]


def _all_enabled() -> dict[str, bool]:
    from pyanalyze.error_code import ErrorCode

    return {e.name: True for e in ErrorCode}


def observe_prog(arg: tuple[int, dict]) -> list[dict]:
    tid, p = arg
    src = render(p["prog"])
    try:
        ast.parse(src)
    except SyntaxError as exc:
        raise core.MachineryError(f"generated module is not valid syntax: {exc}\n{src}")
    out = []
    src_lines = src.splitlines()
    for ci, cfg in enumerate(CONFIGS):
        settings = _all_enabled() if cfg == "ALL" else None
        ev_tid = tid * 2 + ci
        out.append({"tid": ev_tid, "event": "Begin", "nlines": len(src_lines), "linelens": [len(x) for x in src_lines],
                    "prog": p["prog"], "config": "all-enabled" if cfg == "ALL" else "default"})
        try:
            module = pyz.make_module(src)
        except Exception as exc:  # the module does not import: outside the property's domain
            out.append({"tid": ev_tid, "event": "End", "note": f"module does not import: {type(exc).__name__}"})
            continue
        try:
            fails = pyz.check_source(src, settings=settings, module=module)
        except BaseException as exc:  # noqa: BLE001  (SystemExit etc. are raises too)
            out.append({"tid": ev_tid, "event": "Raised", "exc": f"{type(exc).__name__}: {exc}"[:500]})
            continue
        for f in fails:
            code = getattr(f.get("code"), "name", None) or "none"
            out.append({"tid": ev_tid, "event": "Diag", "code": code, "lineno": f.get("lineno") if f.get("lineno") is not None else 0,
                        "col": f.get("col_offset") if f.get("col_offset") is not None else 0,
                        "msglen": len(f.get("description") or ""), "msg": (f.get("description") or "")[:300]})
        out.append({"tid": ev_tid, "event": "End"})
    return out


def observe_values(arg: tuple[int, dict]) -> dict:
    from pyanalyze.value import unite_values

    tid, p = arg
    ck = pyz.get_checker()
    try:
        a, b = ac.val(p["a"]), ac.val(p["b"])
        a.can_assign(b, ck)
        b.can_assign(a, ck)
        u = unite_values(a, b)
        u.substitute_typevars({})
        str(u), hash(u), u == a, u.simplify()
        a.can_overlap  # attribute exists
        return {"tid": tid, "event": "ValueOp", "ok": True}
    except core.MachineryError:
        raise
    except Exception as exc:  # noqa: BLE001
        return {"tid": tid, "event": "ValueOp", "ok": False, "exc": f"{type(exc).__name__}: {exc}"[:300], "a": p["a"], "b": p["b"]}


def judge(check: core.Check, progs: list[dict], pairs: list[dict], label: str) -> None:
    from pyanalyze.error_code import ErrorCode

    header = {"tid": -1, "event": "Codes", "codes": sorted(e.name for e in ErrorCode)}
    per_prog = core.pmap(observe_prog, list(enumerate(progs)), chunk=20)
    base = 2 * len(progs)
    vals = core.pmap(observe_values, [(base + i, p) for i, p in enumerate(pairs)], chunk=2000)
    batches: list[list[dict]] = [[header]]
    for evs in per_prog + [[v] for v in vals]:
        if len(batches[-1]) + len(evs) > 30000:
            batches.append([header])
        batches[-1].extend(evs)
    by_tid: dict[int, list[dict]] = {}
    for evs in per_prog:
        for e in evs:
            by_tid.setdefault(e["tid"], []).append(e)
    for v in vals:
        by_tid[v["tid"]] = [v]
    for b in batches:
        verdicts, stats = core.adjudicate("TotalityTrace", "TotalityTrace.cfg", b, batch=10**9)
        check.add_trace_stats(stats)
        for tid, vs in verdicts.items():
            evs = by_tid.get(tid, [])
            first = evs[0] if evs else {}
            key_obj = first.get("prog") or {k: first.get(k) for k in ("a", "b")}
            for v in set(vs):
                if v.startswith("viol:"):
                    bad = [e for e in evs if e["event"] in ("Raised", "Diag", "ValueOp")][-3:]
                    check.violation(core.canon({"case": key_obj, "config": first.get("config")}), v[5:],
                                    {"case": {"prog": first.get("prog"), "a": first.get("a"), "b": first.get("b")},
                                     "config": first.get("config"), "events": bad,
                                     "src": render(first["prog"]) if first.get("prog") else None, "source": label})
    check.evals(2 * len(progs) + len(pairs))
    for p in progs:
        check.nontrivial(core.canon(p["prog"]))
    for evs in per_prog[:: max(1, len(per_prog) // 2)][:2]:
        check.sample({"source": label, "events": evs[:6]})


def run(check: core.Check) -> None:
    quick = check.tier == "quick"
    rnd = random.Random(check.seed)
    check.assumptions += [
        "the grammar is the modelled one (42 fragment kinds x 13 operand kinds, sequences of <=2 exhaustively in thorough, "
        "<=4 by simulation), not all of Python; totality is observed, not derived (exploration level)",
        "two enabled-code configurations: defaults and every code enabled; modules that fail to import are outside the domain",
    ]
    em = core.require_ok(core.run_tlc("TotalityEmit", "Totality.emit1.cfg", coverage=True, timeout=1800), "Totality emit")
    core.require_coverage(em, ["Next"], "Totality")
    check.add_tlc("emit1", em)
    progs = core.emitted_json(em)
    sim = core.simulate_cases("TotalityEmit", "Totality.sim.cfg", 700 if quick else 12000, depth=6, seed=check.seed + 4,
                              check=check, first_num=1)
    progs = progs + [p for p in sim if len(p["prog"]) > 1]
    pem = core.require_ok(core.run_tlc("AssignEmit", "Assign.emit1.cfg", timeout=1800), "value pairs emit")
    check.add_tlc("value-pairs", pem)
    pairs = core.emitted_json(pem)
    allpairs = pairs
    pairs = rnd.sample(allpairs, min(len(allpairs), 8000 if quick else 10**9))
    # always include the pairs with a big literal union on either side (set-based fast paths of MultiValuedValue)
    big = [p for p in allpairs if any(t["k"] == "union" and len(t["ms"]) >= 10 for t in (p["a"], p["b"]))]
    pairs = pairs + [p for p in big if p not in pairs]
    check.cov["exhaustive"] = False
    check.cov["rule"] = ("modules = sequences of fragments generated by TLC (every single fragment exhaustively, longer sequences by "
                         "simulation) x 2 configurations; value pairs from Assign.tla's generator; non-trivial = distinct modules")
    judge(check, progs, pairs, "tlc-generated")


def replay(check: core.Check, witness: dict) -> None:
    c = witness["case"]
    if c.get("prog"):
        judge(check, [{"prog": c["prog"]}], [], "replay")
    else:
        judge(check, [], [{"a": c["a"], "b": c["b"]}], "replay")
