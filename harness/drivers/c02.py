"""C02 -- narrowing never loses the actual value and never widens.

Model: spec/Narrowing.tla (+ spec/Boolability.tla), extending Assign.tla / ValueAlgebra.tla / Values.tla.
TLC proves, for every type term V of the bounded space, every condition c (isinstance, issubclass,
TypeIs / TypeGuard functions, is / is not, == / !=, in / not in, truthiness, len comparisons, the class /
identity constraints behind assert_is_instance / assert_is, not / and / or over those, and the value /
singleton / class / or / sequence (fixed and starred, capture sub-patterns) patterns of `match`) and both
polarities, that the modelled narrowing keeps every object of V on which the condition evaluates to the
polarity (N1), adds nothing outside V and the tested type (N2), and that an always-true / always-false
truthiness verdict is right for every object (N3) -- up to the named deviation classes.

Binding: every TLC-generated case is replayed (i) through pyanalyze.stacked_scopes.constrain_value with
the real Constraint / predicate objects built from the model's abstract-constraint term (and their
.invert()), and (ii) as a generated `def f(x: T): if <cond>: x / else: x` through the real visitor
(or `match x: case <pattern>: x / case _: x`; annotate=True, inferred value of the `x` nodes).  Every observation carries what real CPython evaluated
the condition to on every object of the universe; TLC (spec/trace/NarrowingTrace.tla) first checks its
own model of the conditions against that, then judges N1 / N2 / N3 on the REAL results and compares them
with the model (drift).
"""
from __future__ import annotations

import random
from concurrent.futures import ThreadPoolExecutor
from typing import Any, Optional

from .. import core
from .. import narrow_common as nc

LEVEL = "model_checking"
ACTIONS = [
    "ChooseV", "ChooseVCompound", "ChooseIsinstance", "ChooseIssubclass", "ChooseTypeIs", "ChooseTypeGuard", "ChooseIs",
    "ChooseEq", "ChooseIn", "ChooseTruthy", "ChooseLen", "ChooseLegacyIsinstance", "ChooseLegacyIsvalue", "ChooseNot",
    "ChooseAnd", "ChooseOr", "ChooseDeep", "ChooseMatch", "ChooseMatchOr", "ChooseMatchSeq",
]
BATCH = 6000


def universe() -> list[dict]:
    """The object universe in the order TLC enumerates it."""
    res = core.require_ok(core.run_tlc("NarrowingEmit", "Narrowing.objs.cfg", workers=1, timeout=300), "Narrowing objs")
    return [c for c in core.emitted_json(res) if "objs" in c][0]["objs"]


def split_emitted(emitted: list[dict]) -> tuple[list[dict], list[dict], list[dict]]:
    objs = [c["objs"] for c in emitted if "objs" in c]
    vs = [c["v"] for c in emitted if set(c) == {"v"}]
    cases = [c for c in emitted if "ac" in c]
    return (objs[0] if objs else []), vs, cases


def observe(cases: list[dict], vs: list[dict], objs_t: list[dict], *, procs: int = core.NCPU) -> tuple[list[dict], list[dict]]:
    """All observations for the cases: boolability per V, api route per case, visitor route where expressible.
    Returns (observations with tids, raised)."""
    nc.set_universe(objs_t)  # before the worker processes are forked
    obs: list[dict] = []
    obs += core.pmap(nc.observe_bool, [(0, v) for v in vs], procs=procs, chunk=500)
    obs += core.pmap(nc.observe_api, [(0, c) for c in cases], procs=procs, chunk=500)
    vis = []
    for c in cases:
        anno = nc.visitor_capable(c)
        if anno is not None:
            vis.append((0, c, anno))
    chunks = [vis[i : i + 150] for i in range(0, len(vis), 150)]
    for part in core.pmap(nc.observe_visitor_chunk, chunks, procs=procs, chunk=1):
        obs += part
    for i, o in enumerate(obs):
        o["tid"] = i + 1
    return [o for o in obs if o["kind"] != "raised"], [o for o in obs if o["kind"] == "raised"]


def adjudicate(obs: list[dict], objs_t: list[dict], parallel: int = 6) -> tuple[dict, dict]:
    """NarrowingTrace wants the universe header as the first line of every trace file."""
    chunks = [obs[i : i + BATCH] for i in range(0, len(obs), BATCH)]
    header = {"tid": 0, "kind": "objs", "objs": objs_t}

    def one(chunk):
        return core.adjudicate("NarrowingTrace", "NarrowingTrace.cfg", [header] + chunk, batch=10**9, timeout=3000)

    verdicts: dict[Any, list[str]] = {}
    stats = {"observations": 0, "states": 0, "transitions": 0, "batches": 0}
    with ThreadPoolExecutor(max(1, parallel)) as ex:
        for v, st in ex.map(one, chunks):
            for k, vals in v.items():
                verdicts.setdefault(k, []).extend(vals)
            stats["observations"] += st["observations"] - 1
            stats["states"] += st["states"]
            stats["transitions"] += st["transitions"]
            stats["batches"] += st["batches"]
    return verdicts, stats


def case_key(o: dict) -> str:
    return core.canon({"v": o["v"], "c": o.get("c")})


def judge(check: core.Check, cases: list[dict], vs: list[dict], objs_t: list[dict], label: str) -> dict[str, int]:
    by_case = {core.canon({"v": c["v"], "c": c["c"]}): c for c in cases}
    good, raised = observe(cases, vs, objs_t)
    for o in raised:
        check.violation(case_key(o), "PublicApiRaised", {"case": by_case.get(case_key(o), o), "observation": o, "source": label})
    verdicts, stats = adjudicate(good, objs_t)
    check.add_trace_stats(stats)
    check.evals(len(good) + len(raised))
    counts: dict[str, int] = {}
    by_tid = {o["tid"]: o for o in good}
    if 0 in verdicts:
        raise core.MachineryError(f"trace header rejected: {verdicts[0]}")
    for tid, vals in verdicts.items():
        o = by_tid[tid]
        payload = {"case": by_case.get(case_key(o), {"v": o["v"]}), "observation": o, "source": label}
        for v in vals:
            counts[v.split(":")[0]] = counts.get(v.split(":")[0], 0) + 1
            if v.startswith("oracle:"):
                raise core.MachineryError(f"the oracle model disagrees with real CPython ({v}) on {o}")
            if v.startswith("viol:"):
                check.violation(case_key(o) + "#" + o.get("route", "bool"), v[5:], payload)
            elif v.startswith("dev:"):
                check.violation(v[4:], v[4:], payload)  # class key, matched against known_findings.jsonl
            elif v.startswith("drift:"):
                check.drift({"verdict": v, **payload})
            else:
                raise core.MachineryError(f"unknown verdict {v}")
    # bookkeeping: distinct non-trivial cases = the real code changed the type in at least one branch
    for o in good:
        if o["kind"] == "narrow" and (o["pos"] != o["v"] or o["neg"] != o["v"]):
            check.nontrivial(case_key(o))
        if o["kind"] == "narrow":
            k = "route_" + o["route"]
            check.cov[k] = check.cov.get(k, 0) + 1
            kk = check.cov.setdefault("observations_by_condition_kind", {})
            kk[o["c"]["kind"]] = kk.get(o["c"]["kind"], 0) + 1
        else:
            check.cov["boolability_observations"] = check.cov.get("boolability_observations", 0) + 1
    for o in good[:: max(1, len(good) // 4)][:4]:
        check.sample({"source": label, **{k: v for k, v in o.items() if k != "holds" and k != "truth"}})
    return counts


def run(check: core.Check) -> None:
    quick = check.tier == "quick"
    rnd = random.Random(check.seed)
    check.assumptions += [
        "Member (Values.tla) is the meaning of a type; HoldsCode / Truthy (Narrowing.tla / Boolability.tla) model CPython's "
        "evaluation of the conditions and are compared with the real evaluation on all 43 objects in every observation",
        "== / != / in: objects whose equality with a tested literal is cross-type (True == 1) and instances of classes with a "
        "user __eq__ (A, B) are outside the quantifier, as the property says",
        "gradual-typing leniencies excluded from N1 for TypeIs tests against a parametrised type: a bare generic class in V "
        "(list = list[Any]) and the empty container (member of every parametrisation)",
        "TypeIs / TypeGuard functions are hand-written run-time tests of exactly their type (validated against Member)",
        "visitor route: no model prediction (oracle only) for and/or conditions and for conditions containing a call the "
        "visitor rejects; V with *tuple[...] segments and the class/identity constraints (assert_is_instance) are api-route only",
        "not covered: mapping / class-with-subpattern / guarded / nested sequence match patterns, comparison predicates other than len (x < 3), len inside and/or chains (MinLen/MaxLen "
        "annotations), TypedDict / Callable / TypeVar values, attribute or subscript targets (self.x, a[0])",
    ]
    cfg = "Narrowing.quick.cfg" if quick else "Narrowing.thorough.cfg"
    res = core.require_ok(core.run_tlc("Narrowing", cfg, timeout=3400), "Narrowing exhaustive")
    check.add_tlc("exhaustive:" + cfg, res)
    # vacuity: every generator action fires (coverage run of the generator alone: -coverage on the recursive
    # invariants exhausts the heap)
    cov = core.require_ok(core.run_tlc("Narrowing", "Narrowing.cov.cfg", workers=2, coverage=True, timeout=900), "coverage")
    core.require_coverage(cov, ACTIONS, "Narrowing")
    check.add_tlc("coverage:Narrowing.cov.cfg", cov)
    # sensitivity self-tests (InvN3Strict holds once the abstract-class repair is declared applied in the cfgs)
    abc_fixed = "abc_boolable" in (core.SPEC / "mc" / "Narrowing.strict3.cfg").read_text().split("NFixed")[1].split("\n")[0]
    for c, inv in (("Narrowing.sens.cfg", "InvN1"), ("Narrowing.strict1.cfg", "InvN1Strict"),
                   ("Narrowing.strict3.cfg", None if abc_fixed else "InvN3Strict")):
        r = core.run_tlc("Narrowing", c, workers=2, timeout=900)
        if r.violated != inv:
            raise core.MachineryError(f"sensitivity self-test {c}: expected {inv} to be violated, got {r.violated} / {r.error}")
    check.cov["sensitivity"] = (
        "InvN1 is violated when the model's EqualsPredicate drops the `typ is bool` test (NBug=eq_bool_no_typecheck); "
        "InvN1Strict / InvN3Strict (no deviation classes) are violated on the model of the current code"
    )
    em = core.require_ok(
        core.run_tlc("NarrowingEmit", "Narrowing.emit.quick.cfg" if quick else "Narrowing.emit.thorough.cfg", timeout=3000), "emit"
    )
    check.add_tlc("emit", em)
    objs_t, vs, cases = split_emitted(core.emitted_json(em))
    if not cases or not objs_t:
        raise core.MachineryError("no cases emitted")
    limit = 30000 if quick else 10**7
    exhaustive = len(cases) <= limit
    if not exhaustive:
        cases = rnd.sample(cases, limit)
    check.cov["exhaustive"] = exhaustive
    check.cov["rule"] = (
        "cases (V, condition) enumerated by TLC (Narrowing.tla generator), each judged for both polarities on the api route and, "
        "where V has annotation syntax, through the visitor; non-trivial = the real code changed the type of x in at least one branch"
    )
    kinds = {c["c"]["kind"] for c in cases}
    missing = {"isinstance", "issubclass", "typeis", "typeguard", "is", "eq", "in", "truthy", "boolcall", "len", "c_isinstance",
               "c_isvalue", "not", "and", "or", "m_value", "m_singleton", "m_class", "m_or", "m_seq"} - kinds
    if missing:
        raise core.MachineryError(f"condition kinds never generated: {sorted(missing)}")
    counts = judge(check, cases, vs, objs_t, "tlc-exhaustive")
    # beyond the exhaustive replay bound: depth-2 values by TLC simulation
    sim = core.simulate_cases("NarrowingEmit", "Narrowing.sim.cfg", 1500 if quick else 40000, depth=3, seed=check.seed + 11, check=check)
    sim = [c for c in sim if "ac" in c]
    counts2 = judge(check, sim, [], objs_t, "tlc-simulate-depth2")
    check.cov["verdict_counts"] = {"exhaustive": counts, "simulate": counts2}


def replay(check: core.Check, witness: dict) -> None:
    case = witness["case"]
    objs_t = universe()
    judge(check, [case] if "ac" in case else [], [case["v"]], objs_t, "replay")


def selftest_binding(check: core.Check) -> None:
    """Corrupt recorded fields of real observations and confirm that TLC's verdict flags each corruption."""
    objs_t = universe()
    em = core.require_ok(core.run_tlc("NarrowingEmit", "Narrowing.emit.quick.cfg", timeout=900), "emit")
    _, _, cases = split_emitted(core.emitted_json(em))
    want = {"v": {"k": "union", "ms": [{"k": "typed", "c": "int"}, {"k": "known", "o": {"c": "NoneType", "v": "None", "items": []}}]}}
    case = next(c for c in cases if c["v"] == want["v"] and c["c"]["kind"] == "is" and not c["c"]["neg"] and c["c"]["lits"][0]["c"] == "NoneType")
    good, _ = observe([case], [], objs_t, procs=1)
    base = next(o for o in good if o["route"] == "api")
    never = {"k": "union", "ms": []}
    a = dict(base, tid=1)                                   # untouched
    b = dict(base, tid=2, neg=never)                        # the else-branch type is lost
    c = dict(base, tid=3, pos={"k": "typed", "c": "str"})   # the if-branch type is widened
    d = dict(base, tid=4, holds=[1 - h if h < 2 else h for h in base["holds"]])  # CPython outcome falsified
    verdicts, _ = adjudicate([a, b, c, d], objs_t, parallel=1)
    ok = (
        1 not in verdicts
        and any(v.startswith("viol:N1-neg") for v in verdicts.get(2, []))
        and any(v.startswith("viol:N2-pos") for v in verdicts.get(3, []))
        and any(v.startswith("oracle:holds") for v in verdicts.get(4, []))
    )
    print("selftest_binding verdicts:", {k: v for k, v in sorted(verdicts.items())})
    if not ok:
        raise core.MachineryError(f"binding self-test failed: {verdicts}")
    print("selftest_binding: corrupted neg / pos / holds fields are flagged (viol:N1-neg, viol:N2-pos, oracle:holds); the untouched line passes")
