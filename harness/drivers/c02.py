"""C02 -- narrowing never loses the actual value and never widens.

Model: spec/Narrowing.tla (+ spec/Boolability.tla), extending Assign.tla / ValueAlgebra.tla / Values.tla.
TLC proves, for every type term V of the bounded space, every condition c (isinstance, issubclass,
TypeIs / TypeGuard functions, is / is not, == / !=, in / not in, truthiness, len comparisons (either operand order), ordering comparisons against a
numeric literal (x < 1, x >= 0, ...), the class /
identity constraints behind assert_is_instance / assert_is, not / and / or over those, and the value /
singleton / class / or / sequence (fixed and starred, capture sub-patterns) patterns of `match`) and both
polarities, that the modelled narrowing keeps every object of V on which the condition evaluates to the
polarity (N1), adds nothing outside V and the tested type (N2), and that an always-true / always-false
truthiness verdict is right for every object (N3) -- up to the named deviation classes.

Binding: every TLC-generated case is replayed (i) through pyanalyze.stacked_scopes.constrain_value with
the real Constraint / predicate objects built from the model's abstract-constraint term (and their
.invert()), and (ii) as a generated `def f(x: T): if <cond>: x / else: x` through the real visitor
(or `match x: case <pattern>: x / case _: x`; annotate=True, inferred value of the `x` nodes).  Every observation carries what real CPython evaluated
the condition to on every object of the universe; TLC (spec/trace/NarrowingTrace.tla) first checks its
own model of the conditions against that, then judges N1 / N2 / N3 on the REAL results and compares them
with the model (drift).

Flow-level slice (spec/ConstraintFlow.tla, spec/trace/ConstraintFlowTrace.tla, harness/flow_common.py): constraints are attached to
the definition nodes that were current when the condition was evaluated and may be applied later.  TLC enumerates small
functions over x / a saved condition ok / opaque flag() calls (assignment, saved condition, if on a flag / a saved
condition / an immediate condition, else, early return, walrus, `c and U(x)` / `c or U(x)`, while on a flag / saved /
immediate condition) and proves that the model of FunctionScope (fake definition nodes, the origin guard of
_add_single_constraint, combine_subscopes, two visits of a loop body) keeps, at every recorded read of x, every object
a concrete CPython execution can see there (FlowN1) and adds nothing outside the assignments that can reach the read
(FlowN2).  Every function is rendered to Python, checked by the real visitor and executed under real CPython for every
argument object and choice of flags; TLC first compares its execution model with the recorded runs, then judges the REAL
inferred types and compares them with the model.

Match statements with several cases and guards (spec/MatchCases.tla, spec/trace/MatchCasesTrace.tla): visit_Match's per-case
bookkeeping -- the subject narrowed by the pattern and the guard inside a case, the inverted AND of pattern and guard
constraints carried to the later cases and to the code after the match, the implicit else dropped when the subject is
exhausted -- against a concrete execution of the match for every object and every outcome of the opaque guards; reads of x in
guard position, in every case body and after the match; replayed through the real visitor and real CPython.
"""
from __future__ import annotations

import json
import random
import time
from concurrent.futures import ThreadPoolExecutor
from typing import Any, Optional

from .. import core
from .. import flow_common as fc
from .. import narrow_common as nc

LEVEL = "model_checking"
ACTIONS = [
    "ChooseV", "ChooseVCompound", "ChooseIsinstance", "ChooseIssubclass", "ChooseTypeIs", "ChooseTypeGuard", "ChooseIs",
    "ChooseEq", "ChooseIn", "ChooseTruthy", "ChooseLen", "ChooseCmp", "ChooseLenR", "ChooseLegacyIsinstance", "ChooseLegacyIsvalue", "ChooseNot",
    "ChooseAnd", "ChooseOr", "ChooseDeep", "ChooseMatch", "ChooseMatchOr", "ChooseMatchSeq",
]
BATCH = 6000
FLOW_ACTIONS = [
    "ADecl", "AAssign", "ASaveCond", "AOkFlag", "AUse", "AReturn", "AEnterIf", "AEnterIfSaved", "AEnterIfCond", "AEnterIfWalrus",
    "AEnterIfAnd", "AEnterIfOr", "AEnterWhile", "AEnterWhileSaved", "AEnterWhileCond", "AElse", "AMerge", "AFinish",
]
FLOW_SLICES = {"quick": ["q1", "q2", "q3", "q4"], "thorough": ["q1", "q2", "q3", "q4", "t1", "t2", "t3"]}
# slices whose functions are only model-checked (Impl |= oracle), not replayed: none in quick
FLOW_REPLAY_LIMIT = {"quick": 10**9, "thorough": 400000}
FLOW_BATCH = 2000
MATCH_ACTIONS = ["MChooseSubject", "MAddCase", "MFinish"]
MATCH_SLICES = {"quick": ["q1", "q2"], "thorough": ["q1", "q2", "t1", "t2"]}


def universe() -> list[dict]:
    """The object universe in the order TLC enumerates it."""
    res = core.require_ok(core.run_tlc("NarrowingEmit", "Narrowing.objs.cfg", workers=1, timeout=300), "Narrowing objs")
    return [c for c in core.emitted_json(res) if "objs" in c][0]["objs"]


def split_emitted(emitted: list[dict]) -> tuple[list[dict], list[dict], list[dict]]:
    objs = [c["objs"] for c in emitted if "objs" in c]
    vs = [c["v"] for c in emitted if set(c) == {"v"}]
    cases = [c for c in emitted if "ac" in c]
    return (objs[0] if objs else []), vs, cases


def observe(cases: list[dict], vs: list[dict], objs_t: list[dict], *, procs: int = core.NCPU) -> tuple[list[dict], list[dict]]:
    """All observations for the cases: boolability per V, api route per case, visitor route where expressible.
    Returns (observations with tids, raised)."""
    nc.set_universe(objs_t)  # before the worker processes are forked
    obs: list[dict] = []
    obs += core.pmap(nc.observe_bool, [(0, v) for v in vs], procs=procs, chunk=500)
    obs += core.pmap(nc.observe_api, [(0, c) for c in cases], procs=procs, chunk=500)
    vis = []
    for c in cases:
        anno = nc.visitor_capable(c)
        if anno is not None:
            vis.append((0, c, anno))
    chunks = [vis[i : i + 150] for i in range(0, len(vis), 150)]
    for part in core.pmap(nc.observe_visitor_chunk, chunks, procs=procs, chunk=1):
        obs += part
    for i, o in enumerate(obs):
        o["tid"] = i + 1
    return [o for o in obs if o["kind"] != "raised"], [o for o in obs if o["kind"] == "raised"]


def adjudicate(obs: list[dict], objs_t: list[dict], parallel: int = 6) -> tuple[dict, dict]:
    """NarrowingTrace wants the universe header as the first line of every trace file."""
    chunks = [obs[i : i + BATCH] for i in range(0, len(obs), BATCH)]
    header = {"tid": 0, "kind": "objs", "objs": objs_t}

    def one(chunk):
        return core.adjudicate("NarrowingTrace", "NarrowingTrace.cfg", [header] + chunk, batch=10**9, timeout=3000)

    verdicts: dict[Any, list[str]] = {}
    stats = {"observations": 0, "states": 0, "transitions": 0, "batches": 0}
    with ThreadPoolExecutor(max(1, parallel)) as ex:
        for v, st in ex.map(one, chunks):
            for k, vals in v.items():
                verdicts.setdefault(k, []).extend(vals)
            stats["observations"] += st["observations"] - 1
            stats["states"] += st["states"]
            stats["transitions"] += st["transitions"]
            stats["batches"] += st["batches"]
    return verdicts, stats


def case_key(o: dict) -> str:
    return core.canon({"v": o["v"], "c": o.get("c")})


def judge(check: core.Check, cases: list[dict], vs: list[dict], objs_t: list[dict], label: str) -> dict[str, int]:
    by_case = {core.canon({"v": c["v"], "c": c["c"]}): c for c in cases}
    good, raised = observe(cases, vs, objs_t)
    for o in raised:
        check.violation(case_key(o), "PublicApiRaised", {"case": by_case.get(case_key(o), o), "observation": o, "source": label})
    verdicts, stats = adjudicate(good, objs_t)
    check.add_trace_stats(stats)
    check.evals(len(good) + len(raised))
    counts: dict[str, int] = {}
    by_tid = {o["tid"]: o for o in good}
    if 0 in verdicts:
        raise core.MachineryError(f"trace header rejected: {verdicts[0]}")
    for tid, vals in verdicts.items():
        o = by_tid[tid]
        payload = {"case": by_case.get(case_key(o), {"v": o["v"]}), "observation": o, "source": label}
        for v in vals:
            counts[v.split(":")[0]] = counts.get(v.split(":")[0], 0) + 1
            if v.startswith("oracle:"):
                raise core.MachineryError(f"the oracle model disagrees with real CPython ({v}) on {o}")
            if v.startswith("viol:"):
                check.violation(case_key(o) + "#" + o.get("route", "bool"), v[5:], payload)
            elif v.startswith("dev:"):
                check.violation(v[4:], v[4:], payload)  # class key, matched against known_findings.jsonl
            elif v.startswith("drift:"):
                check.drift({"verdict": v, **payload})
            else:
                raise core.MachineryError(f"unknown verdict {v}")
    # bookkeeping: distinct non-trivial cases = the real code changed the type in at least one branch
    for o in good:
        if o["kind"] == "narrow" and (o["pos"] != o["v"] or o["neg"] != o["v"]):
            check.nontrivial(case_key(o))
        if o["kind"] == "narrow":
            k = "route_" + o["route"]
            check.cov[k] = check.cov.get(k, 0) + 1
            kk = check.cov.setdefault("observations_by_condition_kind", {})
            kk[o["c"]["kind"]] = kk.get(o["c"]["kind"], 0) + 1
        else:
            check.cov["boolability_observations"] = check.cov.get("boolability_observations", 0) + 1
    for o in good[:: max(1, len(good) // 4)][:4]:
        check.sample({"source": label, **{k: v for k, v in o.items() if k != "holds" and k != "truth"}})
    return counts


# --------------------------------------------------------------------------- flow-level slice (ConstraintFlow.tla)
def _flow_cfg_constants(cfg: str) -> dict[str, str]:
    out = {}
    for line in (core.SPEC / "mc" / cfg).read_text().splitlines():
        if "=" in line and line.startswith("  "):
            k, v = line.strip().split("=", 1)
            out[k.strip()] = v.strip()
    return out


def flow_case_key(case: dict) -> str:
    return core.canon({"decl": case["decl"], "toks": case["toks"]}) + "#flow"


_FLOW_INTERN: dict[str, Any] = {}


def _flow_intern(case: dict) -> dict:
    """Share the (few distinct) token / type records between the cases: 10^5 parsed functions otherwise take gigabytes."""
    case["toks"] = [_FLOW_INTERN.setdefault(core.canon(t), t) for t in case["toks"]]
    case["decl"] = _FLOW_INTERN.setdefault(core.canon(case["decl"]), case["decl"])
    return case


def _flow_digest(case: dict) -> str:
    import hashlib

    return hashlib.blake2b(flow_case_key(case).encode(), digest_size=12).hexdigest()


def flow_observe(cases: list[dict], first_tid: int = 1, procs: int = core.NCPU) -> list[dict]:
    items = [(first_tid + i, c) for i, c in enumerate(cases)]
    chunks = [items[i : i + 120] for i in range(0, len(items), 120)]
    return [o for part in core.pmap(fc.observe_chunk, chunks, procs=procs, chunk=1) for o in part]


def flow_adjudicate(obs: list[dict], parallel: int = 6) -> tuple[dict, dict]:
    lines = [{k: v for k, v in o.items() if k != "src"} for o in obs]
    return core.adjudicate("ConstraintFlowTrace", "ConstraintFlowTrace.cfg", lines, batch=FLOW_BATCH, parallel=parallel, timeout=3000)


def flow_judge(check: core.Check, cases: list[dict], label: str, wave: int = 30000, selftest: bool = False, pre: Any = None) -> dict[str, int]:
    """Observe and adjudicate in waves (observations carry the recorded runs: memory is bounded by one wave)."""
    counts: dict[str, int] = {}
    fl = check.cov.setdefault("flow", {})
    wall = fl.setdefault("wall_s", {})
    for w0 in range(0, len(cases), wave):
        t0 = time.time()
        extra = [_flow_selftest_case()] if selftest and w0 == 0 else []
        obs = pre if (pre is not None and w0 == 0) else flow_observe(cases[w0 : w0 + wave] + extra, first_tid=w0 + 1)
        lines = []
        if extra:   # the binding self-test rides along with the first wave (corrupted copies of one real observation)
            lines = _flow_selftest_lines(obs.pop())
        t1 = time.time()
        verdicts, stats = flow_adjudicate(obs + lines, parallel=8)
        if extra:
            _flow_selftest_verdicts(verdicts)
            stats["observations"] -= len(lines)
        wall["observe"] = round(wall.get("observe", 0) + t1 - t0, 1)
        wall["adjudicate"] = round(wall.get("adjudicate", 0) + time.time() - t1, 1)
        check.add_trace_stats(stats)
        check.evals(len(obs))
        by_tid = {o["tid"]: o for o in obs}
        for tid, vals in verdicts.items():
            o = by_tid[tid]
            case = {"decl": o["decl"], "toks": o["toks"]}
            payload = {"case": case, "observation": {k: o[k] for k in ("src", "inf", "runs")}, "source": label}
            for v in sorted(set(vals)):
                counts[v] = counts.get(v, 0) + 1
                if v.startswith("oracle:"):
                    raise core.MachineryError(f"the execution model disagrees with real CPython ({v}) on\n{o['src']}\nruns={o['runs']}")
                if v.startswith("viol:"):
                    check.violation(flow_case_key(case), v[5:], payload)
                elif v.startswith("dev:"):
                    check.violation(v[4:], v[4:], payload)
                elif v.startswith("drift:"):
                    check.drift({"verdict": v, **payload})
                else:
                    raise core.MachineryError(f"unknown verdict {v}")
        fl["functions_replayed"] = fl.get("functions_replayed", 0) + len(obs)
        fl["recorded_reads_judged"] = fl.get("recorded_reads_judged", 0) + sum(len(o["inf"]) for o in obs)
        fl["cpython_runs_compared"] = fl.get("cpython_runs_compared", 0) + sum(len(o["runs"]) for o in obs)
        if w0 == 0:
            for o in obs[:: max(1, len(obs) // 2)][:2]:
                check.sample({"source": label, "src": o["src"], "inf": o["inf"], "runs": len(o["runs"])}, limit=8)
    return counts


def _flow_selftest_case() -> dict:
    I, S = {"k": "typed", "c": "int"}, {"k": "typed", "c": "str"}
    isinst = {"kind": "isinstance", "cls": ["int"], "lits": [], "t": {"k": "union", "ms": []}, "op": "", "n": 0, "neg": False, "subs": []}
    none = {"c": "NoneType", "v": "None", "items": []}
    truthy = dict(isinst, kind="truthy", cls=[])
    tok = lambda t, c=truthy, d=none: {"t": t, "c": c, "d": d}  # noqa: E731
    # ok = isinstance(x, int); if flag(): x = "a"; if ok: U(6, x)
    return {"decl": {"k": "union", "ms": [I, S]},
            "toks": [tok("save", isinst), tok("ifflag"), tok("asg", d={"c": "str", "v": "a", "items": []}), tok("end"), tok("ifok"), tok("use"), tok("end")]}


SELFTEST_TID = 900000000


def _flow_selftest_lines(base: dict) -> list[dict]:
    """Corrupt recorded fields of one real flow observation (TLC must flag each corruption).  The inferred types of all
    four lines are written by hand: the self-test must not depend on the tree under test."""
    I, S = {"k": "typed", "c": "int"}, {"k": "typed", "c": "str"}
    none = {"c": "NoneType", "v": "None", "items": []}
    # the guard drops the stale constraint: x is int | str | Literal['a'] in the branch
    a = dict(base, tid=SELFTEST_TID + 1, inf=[{"u": 6, "t": {"k": "union", "ms": [I, S, {"k": "known", "o": {"c": "str", "v": "a", "items": []}}]}}])
    b = dict(base, tid=SELFTEST_TID + 2, inf=[{"u": 6, "t": I}])                                     # the stale narrowing: 'a' is lost
    c = dict(base, tid=SELFTEST_TID + 3, inf=[{"u": 6, "t": {"k": "union", "ms": [I, S, {"k": "known", "o": none}]}}])   # widened
    d = dict(a, tid=SELFTEST_TID + 4, runs=base["runs"][1:])                                          # a CPython run withheld
    return [a, b, c, d]


def _flow_selftest_verdicts(verdicts: dict) -> None:
    mine = {k - SELFTEST_TID: verdicts.pop(k) for k in list(verdicts) if k > SELFTEST_TID}
    ok = (1 not in mine and "viol:FlowN1" in mine.get(2, []) and "viol:FlowN2" in mine.get(3, [])
          and mine.get(4, []) == ["oracle:runs"])
    if not ok:
        raise core.MachineryError(f"flow binding self-test failed: {mine}")


def flow_selftest_binding() -> None:
    (base,) = flow_observe([_flow_selftest_case()], procs=1)
    verdicts, _ = flow_adjudicate(_flow_selftest_lines(base), parallel=1)
    _flow_selftest_verdicts(verdicts)


def flow_start(check: core.Check) -> dict:
    """Start the TLC runs of the flow slice (they overlap with the TLC runs of the Narrowing part)."""
    tc = _flow_cfg_constants("ConstraintFlowTrace.cfg")
    if int(tc["FBits"]) != fc.FBITS or int(tc["FMaxTicks"]) != fc.FMAXTICKS:
        raise core.MachineryError("flow_common.FBITS / FMAXTICKS differ from ConstraintFlowTrace.cfg")
    slices = FLOW_SLICES[check.tier]
    # quick: one self-test per oracle clause / deviation class; thorough: all
    sens = [("ConstraintFlow.sens_guard.cfg", "InvFlow"), ("ConstraintFlow.sens_widen.cfg", "InvFlow"),
            ("ConstraintFlow.sens_oldkey.cfg", "InvFlow")]
    if check.tier != "quick":
        sens += [("ConstraintFlow.strict.cfg", "InvFlowStrict"), ("ConstraintFlow.sens_noguard.cfg", "InvFlow"),
                 ("ConstraintFlow.sens_once.cfg", "InvFlow"), ("ConstraintFlow.fixed.cfg", None), ("ConstraintFlow.fixed5.cfg", None)]

    def tlc_slice(name: str):
        big = name in ("q1", "t1", "t2", "t3")
        return name, core.run_tlc("ConstraintFlowEmit", f"ConstraintFlow.{name}.cfg", workers=max(2, core.NCPU // 2) if big else 3, timeout=3000)

    def tlc_sens(item):
        return item, core.run_tlc("ConstraintFlowEmit", item[0], workers=2, timeout=900)

    def tlc_cov():
        return core.run_tlc("ConstraintFlow", "ConstraintFlow.cov.cfg", workers=2, coverage=True, timeout=900)

    def tlc_match(name: str):
        return name, core.run_tlc("MatchCasesEmit", f"MatchCases.{name}.cfg", workers=max(2, core.NCPU // 2) if name.startswith("t") else 3, timeout=3000)

    def tlc_match_sens(item):
        return item, core.run_tlc("MatchCasesEmit", item[0], workers=2, timeout=900)

    def tlc_match_cov():
        return core.run_tlc("MatchCases", "MatchCases.cov.cfg", workers=2, coverage=True, timeout=900)

    match_sens = [("MatchCases.sens_nullguard.cfg", "InvMatch")] + ([] if check.tier == "quick" else [("MatchCases.sens_guard.cfg", "InvMatch")])
    ex = ThreadPoolExecutor(6)
    return {"t0": time.time(), "ex": ex, "slices": [ex.submit(tlc_slice, n) for n in slices], "cov": ex.submit(tlc_cov),
            "sens": [ex.submit(tlc_sens, it) for it in sens],
            "m_slices": [ex.submit(tlc_match, n) for n in MATCH_SLICES[check.tier]], "m_cov": ex.submit(tlc_match_cov),
            "m_sens": [ex.submit(tlc_match_sens, it) for it in match_sens]}


def flow_collect(check: core.Check, started: dict) -> dict:
    """Wait for the TLC runs (called before any worker process is forked)."""
    started["results"] = [f.result() for f in started["slices"]]
    started["sens_results"] = [f.result() for f in started["sens"]]
    started["cov_result"] = started["cov"].result()
    started["m_results"] = [f.result() for f in started["m_slices"]]
    started["m_sens_results"] = [f.result() for f in started["m_sens"]]
    started["m_cov_result"] = started["m_cov"].result()
    started["ex"].shutdown()
    started["t1"] = time.time()
    return started


def flow_finish(check: core.Check, started: dict) -> list[dict]:
    """Bookkeeping of the TLC runs of the flow slice; returns the functions to replay (judged by flow_judge)."""
    rnd = random.Random(check.seed + 5)
    results, sens_results = started["results"], started["sens_results"]
    cov = core.require_ok(started["cov_result"], "flow coverage")
    core.require_coverage(cov, FLOW_ACTIONS, "ConstraintFlow")
    check.add_tlc("coverage:ConstraintFlow.cov.cfg", cov)
    t0, t1 = started["t0"], started["t1"]
    for (cfg, inv), r in sens_results:
        if r.violated != inv or (inv is None and not r.ok):
            raise core.MachineryError(f"flow sensitivity self-test {cfg}: expected {inv} to be violated, got {r.violated} / {r.error}")
    fl = check.cov.setdefault("flow", {})
    fl["wall_s"] = {"tlc_slices_coverage_sensitivity (overlapping the Narrowing TLC runs)": round(t1 - t0, 1)}
    fl["sensitivity"] = (
        "(quick runs sens_guard, sens_widen, sens_oldkey; thorough all) "
        "InvFlow is violated when the Impl model's origin guard is reversed (the seeded-change family) or removed, when a loop body is "
        "visited once, and (FlowN2) when an assignment keeps the old definition nodes; InvFlowStrict (no deviation class) is violated on "
        "the model of the code as it is (strict.cfg: the open class saved-alternatives-negated-as-conjunction) and holds on the model with "
        "proposed/C02-fix-4.diff as well (fixed.cfg, fixed5.cfg); InvFlow is violated when fake nodes are keyed by (statement, constraint) "
        "as before repair a080673 (sens_oldkey.cfg: a saved condition re-applied on the second visit of a loop body overwrites its node, "
        "definition cycle, cached placeholder Never); corrupted observations (stale narrowing, "
        "widened type, withheld CPython run) are flagged viol:FlowN1 / viol:FlowN2 / oracle:runs"
    )
    fl["slices"] = {}
    all_cases: dict[str, dict] = {}
    for name, res in results:
        core.require_ok(res, f"ConstraintFlow {name}")
        check.add_tlc(f"flow:{name} (InvFlowEmit)", res)
        cases = []
        for line in res.stdout.splitlines():       # as core.emitted_json, but interning while parsing
            if line.startswith('"{'):
                c = json.loads(json.loads(line))
                if "toks" in c:
                    cases.append(_flow_intern(c))
        res.stdout = ""
        consts = _flow_cfg_constants(f"ConstraintFlow.{name}.cfg")
        fl["slices"][name] = {
            "functions": len(cases), "states": res.distinct,
            "bounds": {k: consts[k] for k in ("FKinds", "FConds", "FLits", "FDecls", "FMaxStmts", "FMaxDepth")},
            "with_fake_definition_node": sum(1 for c in cases if c["fakes"] > 0),
            "with_constraint_dropped_by_origin_guard": sum(1 for c in cases if c["drops"] > 0),
            "with_fake_node_overwritten_on_loop_revisit": sum(1 for c in cases if c["overwritten"] > 0),
        }
        for c in cases:
            all_cases.setdefault(_flow_digest(c), dict(c, slice=name))
    cases = list(all_cases.values())
    if not cases:
        raise core.MachineryError("no flow functions emitted")
    kinds = {t["t"] for c in cases for t in c["toks"]}
    missing = {"asg", "save", "okflag", "use", "ret", "ifflag", "ifok", "ifc", "else", "end", "whflag", "whok", "whc", "ifwal", "ifand", "ifor"} - kinds
    if missing:
        raise core.MachineryError(f"flow token kinds never generated: {sorted(missing)}")
    if not any(c["drops"] > 0 for c in cases) or not any(c["fakes"] > 1 for c in cases):
        raise core.MachineryError("flow slice is vacuous: the origin guard never drops a constraint / no function stacks fake nodes")
    if any(c["overwritten"] > 0 for c in cases):
        raise core.MachineryError("the model of the repaired node keying (a080673) overwrote a fake node")
    limit = FLOW_REPLAY_LIMIT[check.tier]
    fl["functions_model_checked"] = len(cases)
    if check.tier == "quick":
        # rebalancing: q1 is the largest slice and most of its functions never narrow (no fake definition node created, no
        # constraint dropped); quick replays a seeded third of those and every other function, thorough replays all
        idle = [c for c in cases if c["slice"] == "q1" and c["fakes"] == 0 and c["drops"] == 0]
        keep = set(map(id, rnd.sample(idle, len(idle) // 3)))
        cases = [c for c in cases if not (c["slice"] == "q1" and c["fakes"] == 0 and c["drops"] == 0) or id(c) in keep]
        fl["quick_sampled_out_of_q1_without_narrowing"] = len(idle) - len(keep)
    fl["replay_exhaustive"] = len(cases) <= limit and check.tier != "quick"
    if len(cases) > limit:
        # the quick slices are always replayed in full; the rest is a seeded sample
        must = [c for c in cases if c["slice"].startswith("q")]
        rest = [c for c in cases if not c["slice"].startswith("q")]
        cases = must + rnd.sample(rest, min(len(rest), limit))
    for c in cases:
        if c["fakes"] > 0 or c["drops"] > 0:
            check.nontrivial(_flow_digest(c))
    plain = [{"decl": c["decl"], "toks": c["toks"]} for c in cases]
    fl["rule"] = (
        "functions enumerated by TLC (ConstraintFlow.tla generator: every token sequence within the bounds of each slice, no dead code, "
        "no empty blocks, ok bound before it is tested, at most one loop level), each model-checked (InvFlow) and replayed through the real "
        f"visitor and real CPython (FBits={fc.FBITS} free flag() results, loop bodies entered at most {fc.FMAXTICKS} times per run, argument "
        "objects 1 / True / 'a' / None of the declared type); non-trivial = the model creates a fake definition node or the origin guard drops a constraint; quick replays every function in which the model creates a fake node or drops a constraint and a seeded third of the remaining functions of slice q1, thorough replays all"
    )
    check.cov["rule"] = check.cov.get("rule", "") + "; FLOW SLICE: " + fl["rule"] + " -- bounds per slice under coverage.flow.slices"
    check.cov["exhaustive_flow_replay"] = fl["replay_exhaustive"]
    return plain


# --------------------------------------------------------------------------- match statements with several cases and guards (MatchCases.tla)
def match_case_key(case: dict) -> str:
    return core.canon({"subj": case["subj"], "cases": case["cases"]}) + "#match"


def match_observe(cases: list[dict], first_tid: int = 1, procs: int = core.NCPU) -> list[dict]:
    items = [(first_tid + i, c) for i, c in enumerate(cases)]
    chunks = [items[i : i + 100] for i in range(0, len(items), 100)]
    return [o for part in core.pmap(fc.observe_match_chunk, chunks, procs=procs, chunk=1) for o in part]


def match_adjudicate(obs: list[dict], parallel: int = 8) -> tuple[dict, dict]:
    lines = [{k: v for k, v in o.items() if k != "src"} for o in obs]
    return core.adjudicate("MatchCasesTrace", "MatchCasesTrace.cfg", lines, batch=1500, parallel=parallel, timeout=3000)


def _match_selftest_case() -> dict:
    # x: Optional[int];  case None if flag(): U(12, x) / case _: U(22, x);  U(99, x)
    cnd = {"kind": "m_singleton", "cls": [], "lits": [{"c": "NoneType", "v": "None", "items": []}], "t": {"k": "union", "ms": []},
           "op": "", "n": 0, "neg": False, "subs": []}
    wild = dict(cnd, kind="m_wild", lits=[])
    return {"subj": {"k": "union", "ms": [{"k": "typed", "c": "int"}, {"k": "known", "o": {"c": "NoneType", "v": "None", "items": []}}]},
            "cases": [{"p": cnd, "g": "flag"}, {"p": wild, "g": "none"}]}


def _match_selftest_lines(base: dict) -> list[dict]:
    """Corrupted copies of one real observation; all inferred types written by hand (independent of the tree under test)."""
    I = {"k": "typed", "c": "int"}
    N = {"k": "known", "o": {"c": "NoneType", "v": "None", "items": []}}
    opt = {"k": "union", "ms": [I, N]}
    good = [{"u": 12, "t": N}, {"u": 22, "t": opt}, {"u": 99, "t": {"k": "union", "ms": [N, I]}}]
    a = dict(base, tid=SELFTEST_TID + 1, inf=good)
    b = dict(base, tid=SELFTEST_TID + 2, inf=[good[0], {"u": 22, "t": I}, good[2]])      # the seeded family: None fails the guard, reaches case _
    c = dict(base, tid=SELFTEST_TID + 3, inf=[good[0], {"u": 22, "t": {"k": "union", "ms": [I, N, {"k": "typed", "c": "str"}]}}, good[2]])
    d = dict(a, tid=SELFTEST_TID + 4, runs=base["runs"][1:])
    return [a, b, c, d]


def _match_selftest_verdicts(verdicts: dict) -> None:
    mine = {k - SELFTEST_TID: verdicts.pop(k) for k in list(verdicts) if k > SELFTEST_TID}
    ok = (1 not in mine and "viol:MatchN1" in mine.get(2, []) and "viol:MatchN2" in mine.get(3, []) and mine.get(4, []) == ["oracle:runs"])
    if not ok:
        raise core.MachineryError(f"match binding self-test failed: {mine}")


def match_judge(check: core.Check, cases: list[dict], label: str, wave: int = 20000, selftest: bool = False, pre: Any = None) -> dict[str, int]:
    counts: dict[str, int] = {}
    ml = check.cov.setdefault("match_cases", {})
    wall = ml.setdefault("wall_s", {})
    for w0 in range(0, len(cases), wave):
        t0 = time.time()
        extra = [_match_selftest_case()] if selftest and w0 == 0 else []
        obs = pre if (pre is not None and w0 == 0) else match_observe(cases[w0 : w0 + wave] + extra, first_tid=w0 + 1)
        lines = _match_selftest_lines(obs.pop()) if extra else []
        t1 = time.time()
        verdicts, stats = match_adjudicate(obs + lines)
        if extra:
            _match_selftest_verdicts(verdicts)
            stats["observations"] -= len(lines)
        wall["observe"] = round(wall.get("observe", 0) + t1 - t0, 1)
        wall["adjudicate"] = round(wall.get("adjudicate", 0) + time.time() - t1, 1)
        check.add_trace_stats(stats)
        check.evals(len(obs))
        by_tid = {o["tid"]: o for o in obs}
        for tid, vals in verdicts.items():
            o = by_tid[tid]
            case = {"subj": o["subj"], "cases": o["cases"]}
            payload = {"case": case, "observation": {k: o[k] for k in ("src", "inf")}, "source": label}
            for v in sorted(set(vals)):
                counts[v] = counts.get(v, 0) + 1
                if v.startswith("oracle:"):
                    raise core.MachineryError(f"the model of the match semantics disagrees with real CPython ({v}) on\n{o['src']}")
                if v.startswith("viol:"):
                    check.violation(match_case_key(case), v[5:], payload)
                elif v.startswith("dev:"):
                    check.violation(v[4:], v[4:], payload)
                elif v.startswith("drift:"):
                    check.drift({"verdict": v, **payload})
                else:
                    raise core.MachineryError(f"unknown verdict {v}")
        ml["functions_replayed"] = ml.get("functions_replayed", 0) + len(obs)
        ml["reads_judged"] = ml.get("reads_judged", 0) + sum(len(o["inf"]) for o in obs)
        ml["cpython_runs_compared"] = ml.get("cpython_runs_compared", 0) + sum(len(o["runs"]) for o in obs)
        for o in obs:
            if any(r["t"] != o["subj"] for r in o["inf"]):
                check.nontrivial(_flow_digest({"decl": o["subj"], "toks": o["cases"]}))
        if w0 == 0:
            for o in obs[:: max(1, len(obs) // 2)][:2]:
                check.sample({"source": label, "src": o["src"], "inf": o["inf"], "runs": len(o["runs"])}, limit=10)
    return counts


def match_finish(check: core.Check, started: dict) -> list[dict]:
    cov = core.require_ok(started["m_cov_result"], "match coverage")
    core.require_coverage(cov, MATCH_ACTIONS, "MatchCases")
    check.add_tlc("coverage:MatchCases.cov.cfg", cov)
    for (cfg, inv), r in started["m_sens_results"]:
        if r.violated != inv:
            raise core.MachineryError(f"match sensitivity self-test {cfg}: expected {inv} to be violated, got {r.violated} / {r.error}")
    ml = check.cov.setdefault("match_cases", {})
    ml["sensitivity"] = (
        "InvMatch is violated when the Impl model drops a NULL guard constraint from the constraints of a case (MBug=drop_null_guard, the "
        "seeded-change family: the inverse carried to later cases becomes the plain negated pattern) and when the guard is not carried at "
        "all (MBug=guard_not_carried); corrupted observations (object failing the guard narrowed out of the next case, widened type, "
        "withheld CPython run) are flagged viol:MatchN1 / viol:MatchN2 / oracle:runs"
    )
    ml["slices"] = {}
    all_cases: dict[str, dict] = {}
    for name, res in started["m_results"]:
        core.require_ok(res, f"MatchCases {name}")
        check.add_tlc(f"match:{name} (InvMatchEmit)", res)
        cases = [c for c in core.emitted_json(res) if "cases" in c]
        res.stdout = ""
        consts = _flow_cfg_constants(f"MatchCases.{name}.cfg")
        ml["slices"][name] = {"functions": len(cases), "states": res.distinct,
                              "bounds": {k: consts[k] for k in ("MSubjects", "MPatterns", "MGuards", "MMaxCases")}}
        for c in cases:
            c["cases"] = [_FLOW_INTERN.setdefault(core.canon(x), x) for x in c["cases"]]
            all_cases.setdefault(_flow_digest({"decl": c["subj"], "toks": c["cases"]}), c)
    cases = list(all_cases.values())
    guards = {cs["g"] for c in cases for cs in c["cases"]}
    pats = {cs["p"]["kind"] for c in cases for cs in c["cases"]}
    if not {"none", "flag", "guse", "xnn", "ynone"} <= guards or not {"m_value", "m_singleton", "m_class", "m_wild"} <= pats:
        raise core.MachineryError(f"match slice: guards / pattern kinds never generated: {sorted(guards)} {sorted(pats)}")
    ml["functions_model_checked"] = len(cases)
    ml["rule"] = (
        "functions `match x:` with 2-3 cases (pattern, guard) enumerated by TLC (MatchCases.tla: every sequence within the bounds of each "
        "slice; nothing after an irrefutable unguarded case), each model-checked (InvMatch) and replayed through the real visitor (reads "
        "in guard position, in every case body and after the match) and real CPython (17 objects x y in {None, 1} x every outcome of the "
        "opaque guards); non-trivial = the real inferred type differs from the subject type at some read"
    )
    check.cov["rule"] = check.cov.get("rule", "") + "; MATCH CASES: " + ml["rule"]
    return cases


def judge_flow_and_match(check: core.Check, fcases: list[dict], mcases: list[dict]) -> None:
    fl, ml = check.cov["flow"], check.cov["match_cases"]
    flabel, mlabel = "tlc-flow-" + check.tier, "tlc-match-" + check.tier
    if len(fcases) <= 30000 and len(mcases) <= 20000:
        # one wave each: observe both (forked workers) first, then let TLC adjudicate the two traces side by side (threads only)
        t0 = time.time()
        fobs = flow_observe(fcases + [_flow_selftest_case()])
        mobs = match_observe(mcases + [_match_selftest_case()])
        fl.setdefault("wall_s", {})["observe_both_slices"] = round(time.time() - t0, 1)
        with ThreadPoolExecutor(2) as ex:
            f1 = ex.submit(flow_judge, check, fcases, flabel, selftest=True, pre=fobs)
            f2 = ex.submit(match_judge, check, mcases, mlabel, selftest=True, pre=mobs)
            fl["verdict_counts"], ml["verdict_counts"] = f1.result(), f2.result()
    else:
        fl["verdict_counts"] = flow_judge(check, fcases, flabel, selftest=True)
        ml["verdict_counts"] = match_judge(check, mcases, mlabel, selftest=True)


def run(check: core.Check) -> None:
    quick = check.tier == "quick"
    rnd = random.Random(check.seed)
    check.assumptions += [
        "Member (Values.tla) is the meaning of a type; HoldsCode / Truthy (Narrowing.tla / Boolability.tla) model CPython's "
        "evaluation of the conditions and are compared with the real evaluation on all 43 objects in every observation",
        "== / != / in: objects whose equality with a tested literal is cross-type (True == 1) and instances of classes with a "
        "user __eq__ (A, B) are outside the quantifier, as the property says",
        "gradual-typing leniencies excluded from N1 for TypeIs tests against a parametrised type: a bare generic class in V "
        "(list = list[Any]) and the empty container (member of every parametrisation)",
        "TypeIs / TypeGuard functions are hand-written run-time tests of exactly their type (validated against Member)",
        "visitor route: no model prediction (oracle only) for and/or conditions and for conditions containing a call the "
        "visitor rejects; V with *tuple[...] segments and the class/identity constraints (assert_is_instance) are api-route only",
        "flow slice: x is the only narrowed variable (a parameter, re-assigned literals), one saved-condition variable ok, conditions "
        "isinstance(x, int|str) / x is (not) None and their `not`, opaque flag() calls; U(k, x) returns True (the visitor sees `-> bool`); "
        "return only as the last statement of a branch; no break / continue / try / for (C09's subject); no attribute or subscript targets",
        "match slice (MatchCases.tla): 2-3 cases, guards flag() / G(k, x) (opaque) / x is not None / isinstance(x, int) / y is None, patterns "
        "value / singleton / class / or / sequence (captures) / {} / _ / capture; the mapping pattern {} is modelled against the bare class "
        "Mapping (its Mapping[K, V] type variables are outside the term algebra; subjects never contain object / Any)",
        "not covered: mapping patterns with keys / class-with-subpattern / nested sequence match patterns, ordering comparisons with the variable on the right (1 < x) or against "
        "non-numeric literals, len / ordering comparisons inside and/or chains (MinLen/MaxLen/Gt.. "
        "annotations), TypedDict / Callable / TypeVar values, attribute or subscript targets (self.x, a[0])",
    ]
    flow = flow_start(check)
    cfg = "Narrowing.quick.cfg" if quick else "Narrowing.thorough.cfg"
    res = core.require_ok(core.run_tlc("Narrowing", cfg, timeout=3400), "Narrowing exhaustive")
    check.add_tlc("exhaustive:" + cfg, res)
    # vacuity: every generator action fires (coverage run of the generator alone: -coverage on the recursive
    # invariants exhausts the heap)
    cov = core.require_ok(core.run_tlc("Narrowing", "Narrowing.cov.cfg", workers=2, coverage=True, timeout=900), "coverage")
    core.require_coverage(cov, ACTIONS, "Narrowing")
    check.add_tlc("coverage:Narrowing.cov.cfg", cov)
    # sensitivity self-tests (InvN3Strict holds once the abstract-class repair is declared applied in the cfgs)
    abc_fixed = "abc_boolable" in (core.SPEC / "mc" / "Narrowing.strict3.cfg").read_text().split("NFixed")[1].split("\n")[0]
    nsens = (("Narrowing.sens.cfg", "InvN1"), ("Narrowing.sens_cmp.cfg", "InvN1"), ("Narrowing.sens_lenr.cfg", "InvN1Strict"),
             ("Narrowing.strict1.cfg", "InvN1Strict"), ("Narrowing.strict3.cfg", None if abc_fixed else "InvN3Strict"))
    with ThreadPoolExecutor(len(nsens)) as ex:       # (no worker process has been forked yet)
        nres = list(ex.map(lambda it: core.run_tlc("Narrowing", it[0], workers=2, timeout=900), nsens))
    for (c, inv), r in zip(nsens, nres):
        if r.violated != inv:
            raise core.MachineryError(f"sensitivity self-test {c}: expected {inv} to be violated, got {r.violated} / {r.error}")
    check.cov["sensitivity"] = (
        "InvN1 is violated when the model's EqualsPredicate drops the `typ is bool` test (NBug=eq_bool_no_typecheck) and when the "
        "negative branch of an ordering comparison keeps using the positive operator (NBug=cmp_neg_not_negated); "
        "InvN1Strict / InvN3Strict (no deviation classes) are violated on the model of the current code"
    )
    em = core.require_ok(
        core.run_tlc("NarrowingEmit", "Narrowing.emit.quick.cfg" if quick else "Narrowing.emit.thorough.cfg", timeout=3000), "emit"
    )
    check.add_tlc("emit", em)
    objs_t, vs, cases = split_emitted(core.emitted_json(em))
    if not cases or not objs_t:
        raise core.MachineryError("no cases emitted")
    limit = 30000 if quick else 10**7
    exhaustive = len(cases) <= limit
    if not exhaustive:
        cases = rnd.sample(cases, limit)
    check.cov["exhaustive"] = exhaustive
    check.cov["rule"] = (
        "cases (V, condition) enumerated by TLC (Narrowing.tla generator), each judged for both polarities on the api route and, "
        "where V has annotation syntax, through the visitor; non-trivial = the real code changed the type of x in at least one branch"
    )
    kinds = {c["c"]["kind"] for c in cases}
    missing = {"isinstance", "issubclass", "typeis", "typeguard", "is", "eq", "in", "truthy", "boolcall", "len", "cmp", "lenr", "c_isinstance",
               "c_isvalue", "not", "and", "or", "m_value", "m_singleton", "m_class", "m_or", "m_seq"} - kinds
    if missing:
        raise core.MachineryError(f"condition kinds never generated: {sorted(missing)}")
    flow_collect(check, flow)  # before the first fork of worker processes
    counts = judge(check, cases, vs, objs_t, "tlc-exhaustive")
    # beyond the exhaustive replay bound: depth-2 values by TLC simulation
    sim = core.simulate_cases("NarrowingEmit", "Narrowing.sim.cfg", 1500 if quick else 40000, depth=3, seed=check.seed + 11, check=check)
    sim = [c for c in sim if "ac" in c]
    counts2 = judge(check, sim, [], objs_t, "tlc-simulate-depth2")
    check.cov["verdict_counts"] = {"exhaustive": counts, "simulate": counts2}
    judge_flow_and_match(check, flow_finish(check, flow), match_finish(check, flow))


def replay(check: core.Check, witness: dict) -> None:
    case = witness["case"]
    if "toks" in case:
        flow_judge(check, [{"decl": case["decl"], "toks": case["toks"]}], "replay")
        return
    if "cases" in case:
        match_judge(check, [{"subj": case["subj"], "cases": case["cases"]}], "replay")
        return
    objs_t = universe()
    judge(check, [case] if "ac" in case else [], [case["v"]], objs_t, "replay")


def selftest_binding(check: core.Check) -> None:
    """Corrupt recorded fields of real observations and confirm that TLC's verdict flags each corruption."""
    objs_t = universe()
    em = core.require_ok(core.run_tlc("NarrowingEmit", "Narrowing.emit.quick.cfg", timeout=900), "emit")
    _, _, cases = split_emitted(core.emitted_json(em))
    want = {"v": {"k": "union", "ms": [{"k": "typed", "c": "int"}, {"k": "known", "o": {"c": "NoneType", "v": "None", "items": []}}]}}
    case = next(c for c in cases if c["v"] == want["v"] and c["c"]["kind"] == "is" and not c["c"]["neg"] and c["c"]["lits"][0]["c"] == "NoneType")
    good, _ = observe([case], [], objs_t, procs=1)
    base = next(o for o in good if o["route"] == "api")
    never = {"k": "union", "ms": []}
    a = dict(base, tid=1)                                   # untouched
    b = dict(base, tid=2, neg=never)                        # the else-branch type is lost
    c = dict(base, tid=3, pos={"k": "typed", "c": "str"})   # the if-branch type is widened
    d = dict(base, tid=4, holds=[1 - h if h < 2 else h for h in base["holds"]])  # CPython outcome falsified
    verdicts, _ = adjudicate([a, b, c, d], objs_t, parallel=1)
    ok = (
        1 not in verdicts
        and any(v.startswith("viol:N1-neg") for v in verdicts.get(2, []))
        and any(v.startswith("viol:N2-pos") for v in verdicts.get(3, []))
        and any(v.startswith("oracle:holds") for v in verdicts.get(4, []))
    )
    print("selftest_binding verdicts:", {k: v for k, v in sorted(verdicts.items())})
    if not ok:
        raise core.MachineryError(f"binding self-test failed: {verdicts}")
    print("selftest_binding: corrupted neg / pos / holds fields are flagged (viol:N1-neg, viol:N2-pos, oracle:holds); the untouched line passes")
    flow_selftest_binding()
    print("selftest_binding (flow): stale narrowing / widened type / withheld CPython run are flagged (viol:FlowN1, viol:FlowN2, oracle:runs); the untouched line passes")
