"""C16 part D -- what the fix PRODUCERS decide and generate (spec/FixShapes.tla, trace spec FixShapesTrace.tla).

TLC enumerates (1) assignment statements structurally (1..MaxTargets targets that are unused/used names, 2-tuples or
subscript stores; a walrus name inside the value; a pure value or a call with an effect) and (2) the named shapes of
every producer (unused variable on other statement types, missing_f, use_fstrings, too_many_positional_args,
unused_ignore), proves "the replacement that is applied is the intended change" on the Impl model of the producers'
decisions outside the named deviation classes, and emits the cases.  This driver renders each case as a function
`fn(n)`, runs the real fixer to the fixpoint and records: which diagnostics were reported and which of them OFFERED a
replacement (in emission order), whether every rewritten text parses, whether the proposing diagnostic went away,
whether a new KIND of diagnostic appeared, whether fn -- really executed on 0/1/7/10 -- returns/raises exactly what the
intended program does, and whether every name read in fn still has a definition.  FixShapesTrace.tla judges.
Called from c16.run()."""
from __future__ import annotations

import ast
import builtins
import contextlib
import io
import re
from typing import Any, Optional

from .. import core, pyz
from . import c16c

SETTINGS = {"missing_f": True, "use_fstrings": True, "unused_variable": True, "unused_assignment": True,
            "too_many_positional_args": True, "unused_ignore": True}
OPTIONS = {"maximum_positional_args": 2}
INPUTS = (0, 1, 7, 10)
MAX_STEPS = 6
CODES = {"unused": {"unused_variable", "unused_assignment"}, "assign": {"unused_variable", "unused_assignment"},
         "pct": {"use_fstrings"}}

PRELUDE = '''from contextlib import contextmanager

LOG: list[int] = []

def bump(a: int) -> int:
    LOG.append(a)
    return a

def bumpdiv(a: int) -> tuple[int, int]:
    LOG.append(a)
    return divmod(a, 3)

@contextmanager
def ctx():
    yield 5

def translate(s: str, **kw: object) -> str:
    return s.format(**kw)

def g3(a: int, b: int, c: int) -> object:
    return (a, b, c)

def gd(a: int, b: int = 1, c: int = 2) -> object:
    return (a, b, c)

def gk(a: int, b: int, c: int, *, d: int = 0) -> object:
    return (a, b, c, d)

def gv(a: int, b: int, *rest: int) -> object:
    return (a, b, rest)

def gp(a: int, b: int, /, c: int) -> object:
    return (a, b, c)

'''

# producer -> shape -> (body lines of fn as written, body lines of the INTENDED program or None = unchanged)
SHAPES: dict[str, dict[str, tuple[list[str], Optional[list[str]]]]] = {
    "unused": {
        "ann_value": (["y: int = n * 2", "return n"], None),
        "ann_novalue": (["y: int", "return n"], None),
        "aug": (["t = n", "t += 1", "return n"], None),
        "walrus_expr": (["str((w := n * 2))", "return n"], None),
        "for_target": (["for i in range(3):", "    bump(n)", "return (n, list(LOG))"], None),
        "with_as": (["with ctx() as h:", "    bump(n)", "return (n, list(LOG))"], None),
        "except_as": (["try:", "    int('x')", "except ValueError as e:", "    bump(n)", "return (n, list(LOG))"], None),
        "comp_name": (["r = [0 for q in range(n)]", "return r"], None),
        "comp_tuple_wholly": (["r = [0 for a, b in [(1, 2)] * n]", "return r"], None),
        "comp_tuple_partly": (["r = [a for a, b in [(1, 2)] * n]", "return r"], None),
        "import_alias": (["import os as unused_os", "return n"], None),
        "from_import": (["from os import path as unused_path", "return n"], None),
        "reassigned": (["y = 1", "y = n", "return y"], None),
        "list_wholly": (["[p, q] = divmod(n, 3)", "return n"], None),
    },
    "missing_f": {
        "plain": (['s = "hello {name}"', "return s"], ['s = f"hello {name}"', "return s"]),
        "raw": (['s = r"a\\d {name}"', "return s"], ['s = fr"a\\d {name}"', "return s"]),
        "bytes": (['s = b"hello {name}"', "return (s, name)"], None),
        "u_prefix": (['s = u"hello {name}"', "return s"], ['s = f"hello {name}"', "return s"]),
        "concat": (['s = "a {name} " "b {n}"', "return s"], ['s = f"a {name} " f"b {n}"', "return s"]),
        "concat_lines": (['s = ("a {name} "', '     "b {n}")', "return s"], ['s = (f"a {name} "', '     f"b {n}")', "return s"]),
        "concat_one_plain": (['s = "no braces " "b {n}"', "return s"], ['s = "no braces " f"b {n}"', "return s"]),
        "escaped_braces": (['s = "{name} {{n}}"', "return s"], ['s = f"{name} {{n}}"', "return s"]),
        "spec": (['s = "{n:>4}|{name!r}"', "return s"], ['s = f"{n:>4}|{name!r}"', "return s"]),
        "single_in_double": (['s = "say \'hi\' {name}"', "return s"], ['s = f"say \'hi\' {name}"', "return s"]),
        "double_in_single": (["s = 'say \"hi\" {name}'", "return s"], ["s = f'say \"hi\" {name}'", "return s"]),
        "both_quotes": (['s = "it\'s \\"q\\" {name}"', "return s"], ['s = f"it\'s \\"q\\" {name}"', "return s"]),
        "newline_escape": (['s = "line {name}\\n"', "return s"], ['s = f"line {name}\\n"', "return s"]),
        "triple": (['s = """first {name}', '        second {n}"""', "return s"],
                   ['s = f"""first {name}', '        second {n}"""', "return s"]),
        "in_fstring_escaped": (['s = f"{name} {{n}}"', "return s"], None),
        "fstring_concat_plain": (['s = f"{n} " "and {name}"', "return s"], ['s = f"{n} " f"and {name}"', "return s"]),
        "expr_inside": (['s = "{n + 1}"', "return s"], ['s = f"{n + 1}"', "return s"]),
        "unknown_name": (['s = "hello {nobody}"', "return s"], None),
        "format_call": (['s = "hello {name}".format(name=name)', "return s"], None),
        "docstring_like": (['"hello {name}"', "return name"], None),
        "call_keyword": (['s = translate("hello {name}", name=name)', "return s"], None),
    },
    "use_fstrings": {
        "single": (['s = "v %s" % n', "return s"], None),
        "tuple": (['s = "%s-%s" % (name, n)', "return s"], None),
        "mapping": (['s = "%(a)s" % {"a": n}', "return s"], None),
        "percent": (['s = "100%% %s" % n', "return s"], None),
        "conv_r": (['s = "v %r" % name', "return s"], None),
        "conv_d": (['s = "v %d" % n', "return s"], None),
        "width": (['s = "v %5d" % n', "return s"], None),
        "precision": (['s = "v %.2f" % n', "return s"], None),
        "needs_parens": (['s = "v %s" % (n + 1)', "return s"], None),
        "attribute": (['s = "v %s" % n.real', "return s"], None),
        "single_quote_inside": (['s = "it\'s %s" % name', "return s"], None),
        "double_quote_inside": (["s = 'say \"%s\"' % name", "return s"], None),
        "both_quotes": (['s = "it\'s \\"%s\\"" % name', "return s"], None),
        "trailing_text": (['s = "a %s b" % n', "return s"], None),
        "newline_end": (['s = "hello %s!\\n" % name', "return s"], None),
        "newline_end_notext": (['s = "hello %s\\n" % name', "return s"], None),
        "double_newline_end": (['s = "a %s\\n\\n" % name', "return s"], None),
        "two_trailing_newline": (['s = "%s and %s!\\n" % (name, n)', "return s"], None),
        "newline_mid": (['s = "a\\nb %s c" % name', "return s"], None),
        "tab_escape": (['s = "a\\t%s" % name', "return s"], None),
        "brace": (['s = "{%s}" % name', "return s"], None),
        "tuple_var": (["t = (name, n)", 's = "%s-%s" % t', "return s"], None),
        "bytes": (['s = b"v %s" % b"x"', "return s"], None),
        "str_of_tuple": (['s = "v %s" % (name,)', "return s"], None),
    },
    "too_many_positional_args": {
        "plain": (["return g3(n, n, 2)"], None),
        "defaults": (["return gd(n, n, 2)"], None),
        "kwonly": (["return gk(n, n, 2, d=4)"], None),
        "varargs": (["return gv(n, n, 2, 3)"], None),
        "posonly": (["return gp(n, n, 2)"], None),
        "starred": (["t = (n, n, 2)", "return g3(*t)"], None),
        "mixed_kw": (["return g3(n, n, c=2)"], None),
        "below_limit": (["return gd(n, c=3)"], None),
    },
    "unused_ignore": {
        "own_line": (["# static analysis: ignore[undefined_name]", "return n"], None),
        "own_line_bare": (["# static analysis: ignore", "return n"], None),
        "trailing": (["return n  # static analysis: ignore[undefined_name]"], None),
        "trailing_text_after": (["return n  # static analysis: ignore[undefined_name] because legacy"], None),
        "trailing_text_before": (["return n  # legacy # static analysis: ignore[undefined_name]"], None),
        "trailing_two_markers": (["return n  # static analysis: ignore[undefined_name] # static analysis: ignore[not_callable]"], None),
        "trailing_comment_after": (["return n  # static analysis: ignore[undefined_name] # because legacy"], None),
        "in_string": (['s = "# static analysis: ignore[undefined_name]"', "return s"], None),
    },
}


def _fn(body: list[str]) -> str:
    uses = any(re.search(r"(?<![_\w])name(?![_\w])", b) for b in body)
    return "def fn(n: int) -> object:\n" + ("    name = str(n)\n" if uses else "") + "".join("    " + b + "\n" for b in body)


def _assign_body(case: dict) -> list[str]:
    targets, used = [], []
    for i, k in enumerate(case["targets"], 1):
        if k in ("nu", "nU"):
            targets.append(f"v{i}")
            if k == "nU":
                used.append(f"v{i}")
        elif k == "sub":
            targets.append(f"box[{i}]")
        else:
            targets.append(f"v{i}a, v{i}b")
            used += [f"v{i}{s}" for s, u in zip("ab", k[1:]) if u == "U"]
    value = "divmod(n, 3)" if case["rhs"] == "pure" else "bumpdiv(n)"
    if case["inner"] != "none":
        value = f"(k := {value})"
        if case["inner"] == "used":
            used.append("k")
    ret = ", ".join([*used, "list(LOG)", "box"])
    return ["box = [0, 0, 0, 0]", " = ".join(targets) + " = " + value, f"return ({ret})"]


# argument values that expose every field of a %-specifier: sign flags need non-negative numbers, width / zero padding
# short values, precision long strings / fractions
PCT_VALUES = {"d": "(5, -5, 0, 123456)", "x": "(5, -5, 0, 123456)", "f": "(2.5, -2.5, 0.0, 1234.5678)",
              "s": '("ab", "abcdefgh", "")', "r": '("ab", "abcdefgh", "")'}


def _pct_body(case: dict) -> list[str]:
    spec = "%" + case["flag"] + ("" if case["width"] == "none" else case["width"]) + (
        "" if case["prec"] == "none" else "." + case["prec"]) + case["conv"]
    expr = f'"v {spec}|%s." % (a, name)' if case["two"] else f'"v {spec}." % a'
    return ["out = []", f"for a in {PCT_VALUES[case['conv']]}:", f"    out.append({expr})", "return out"]


def render(case: dict, intended: bool = False) -> str:
    if case["fam"] == "pct":
        return PRELUDE + _fn(_pct_body(case))            # %-to-f-string conversion must not change any result
    if case["fam"] == "assign":
        return PRELUDE + _fn(_assign_body(case))         # removing dead bindings never changes what fn returns
    body, want = SHAPES[case["producer"]][case["shape"]]
    return PRELUDE + _fn(want if intended and want is not None else body)


def check_and_fix(src: str):
    from pyanalyze.name_check_visitor import NameCheckVisitor

    c16c._install_capture()
    checker = pyz.get_checker(SETTINGS, options=OPTIONS)
    module = pyz.make_module(src)
    tree = ast.parse(src)
    del c16c._CAPTURED[:]
    with contextlib.redirect_stderr(io.StringIO()), contextlib.redirect_stdout(io.StringIO()):
        v = NameCheckVisitor(module.__name__ + ".py", src, tree, module=module, checker=checker)
        result, new_src = v.check_for_test(apply_changes=True)
    changes = c16c._CAPTURED[-1] if c16c._CAPTURED else []
    return pyz.brief(result), new_src, changes


def behaviour(src: str) -> Any:
    ns: dict[str, Any] = {}
    try:
        exec(compile(src, "<c16d>", "exec", dont_inherit=True), ns)
    except Exception as exc:  # noqa: BLE001
        return ("import", type(exc).__name__)
    out = []
    for v in INPUTS:
        ns["LOG"].clear()
        try:
            out.append(("ok", repr(ns["fn"](v))))
        except Exception as exc:  # noqa: BLE001
            out.append(("raise", type(exc).__name__))
    return out


def all_reads_defined(src: str) -> bool:
    """Every name read inside fn is a parameter, bound somewhere in fn, a module global or a builtin."""
    tree = ast.parse(src)
    glob = {n.name for n in tree.body if isinstance(n, (ast.FunctionDef, ast.AsyncFunctionDef, ast.ClassDef))}
    for n in tree.body:
        if isinstance(n, (ast.Import, ast.ImportFrom)):
            glob |= {(a.asname or a.name).split(".")[0] for a in n.names}
        elif isinstance(n, (ast.Assign, ast.AnnAssign)):
            glob |= {t.id for t in ast.walk(n) if isinstance(t, ast.Name) and isinstance(t.ctx, ast.Store)}
    fn = next(n for n in tree.body if isinstance(n, ast.FunctionDef) and n.name == "fn")
    bound = {a.arg for a in fn.args.args}
    for n in ast.walk(fn):
        if isinstance(n, ast.Name) and isinstance(n.ctx, ast.Store):
            bound.add(n.id)
        elif isinstance(n, (ast.Import, ast.ImportFrom)):
            bound |= {(a.asname or a.name).split(".")[0] for a in n.names}
        elif isinstance(n, ast.ExceptHandler) and n.name:
            bound.add(n.name)
    reads = {n.id for n in ast.walk(fn) if isinstance(n, ast.Name) and isinstance(n.ctx, ast.Load)}
    return all(r in bound or r in glob or hasattr(builtins, r) for r in reads)


def observe_one(arg: tuple[int, dict]) -> dict:
    tid, case = arg
    src = render(case)
    ast.parse(src)
    allowed = CODES.get(case["fam"] if case["fam"] != "table" else case["producer"], {case.get("producer")})
    want_beh = behaviour(render(case, intended=True))
    cur = src
    offers: list[bool] = []
    applied = False
    parses = gone = nonew = True
    clean = False
    steps = []
    for step in range(MAX_STEPS):
        fails, new, changes = check_and_fix(cur)
        codes = [f[0] for f in fails]
        if step == 0:
            if not set(codes) <= allowed:
                raise core.MachineryError(f"realised case {case} raises {fails}, expected only {sorted(allowed)}:\n{src}")
            if len(changes) != len(fails):
                raise core.MachineryError(f"{case}: {len(fails)} diagnostics but {len(changes)} recorded changes")
            offers = [adds is not None for _, adds in changes]
        if new == cur:
            clean = True
            break
        applied = True
        steps.append(new)
        try:
            ast.parse(new)
        except SyntaxError:
            parses = False
            break
        after, _, _ = check_and_fix(new)
        acodes = [f[0] for f in after]
        first = codes[0]
        if acodes.count(first) >= codes.count(first):
            gone = False
        if not set(acodes) <= set(codes):
            nonew = False
        cur = new
    same = reaching = True
    if parses:
        same = behaviour(cur) == want_beh
        reaching = all_reads_defined(cur)
    return {"tid": tid, "event": "Obs", "case": case, "offers": offers, "applied": applied, "parses": parses,
            "gone": gone, "nonew": nonew, "same": bool(same), "reaching": bool(reaching), "clean": bool(clean or not parses),
            "_src": src, "_steps": steps, "_want": want_beh, "_got": behaviour(cur) if parses else None}


PUBLIC = lambda o: {k: v for k, v in o.items() if not k.startswith("_")}  # noqa: E731


def _adjudicate(check: core.Check, obs: list[dict], label: str) -> dict[str, int]:
    by_tid = {o["tid"]: o for o in obs}
    verdicts, stats = core.adjudicate("FixShapesTrace", "FixShapesTrace.cfg", [PUBLIC(o) for o in obs], batch=10**9)
    check.add_trace_stats(stats)
    counts: dict[str, int] = {}
    for tid, vs in verdicts.items():
        o = by_tid[tid]
        payload = {"case": {**o["case"], "part": "shapes"}, "source": label, "src": o["_src"], "steps": o["_steps"],
                   "intended_behaviour": o["_want"], "behaviour": o["_got"],
                   "observation": {k: v for k, v in PUBLIC(o).items() if k != "case"}}
        for v in sorted(set(vs)):
            counts[v] = counts.get(v, 0) + 1
            if v.startswith("viol:"):
                check.violation(core.canon({"shapes": o["case"]}), v[5:], payload)
            elif v.startswith("dev:"):
                check.violation(v[4:], v[4:], payload)
            elif v.startswith("oracle:"):
                raise core.MachineryError(f"FixShapes oracle problem ({v}) on {o['case']}")
            else:
                check.drift({"verdict": v, **payload})
    return counts


def run_part_d(check: core.Check, quick: bool) -> None:
    cfg = "FixShapes.quick.cfg" if quick else "FixShapes.thorough.cfg"
    res = core.require_ok(core.run_tlc("FixShapesEmit", cfg, coverage=True, timeout=1700), "FixShapes exhaustive")
    core.require_coverage(res, ["PickFam", "AddTarget", "EndTargets", "PickInner", "PickRhs", "PickShape"], "FixShapes")
    check.add_tlc("shapes:exhaustive+emit:" + cfg, res)
    for scfg, inv in (("FixShapes.strict.cfg", "AppliedIsIntendedStrict"), ("FixShapes.chainany.cfg", "AppliedIsIntended"),
                      ("FixShapes.flagblind.cfg", "AppliedIsIntended")):
        r = core.run_tlc("FixShapes", scfg, timeout=600)
        if r.violated != inv:
            raise core.MachineryError(f"sensitivity self-test failed: {scfg} must violate {inv}, got {r.violated} / {r.error}")
    cases = sorted(core.emitted_json(res), key=core.canon)
    obs = core.pmap(observe_one, list(enumerate(cases)), chunk=20)
    counts = _adjudicate(check, obs, "tlc-exhaustive")
    # corrupted-observation self-tests on a case outside every deviation class
    base = next(o for o in obs if o["case"]["fam"] == "assign" and o["case"]["targets"] == ["nu"]
                and o["case"]["inner"] == "none" and o["case"]["rhs"] == "pure")
    chain = next(o for o in obs if o["case"]["fam"] == "assign" and o["case"]["targets"] == ["nu", "nU"]
                 and o["case"]["inner"] == "none" and o["case"]["rhs"] == "pure")
    corrupt = [
        ({**base, "same": False}, {"viol:OnlyIntendedChange"}),
        # the seeded mechanism of C16-5: a flag-only specifier is offered and applied, the sign disappears
        ({**next(o for o in obs if o["case"]["fam"] == "pct" and o["case"]["flag"] == "+" and o["case"]["width"] == "none"
                 and o["case"]["prec"] == "none" and o["case"]["conv"] == "d" and not o["case"]["two"]),
          "offers": [True], "applied": True, "same": False}, {"viol:OnlyIntendedChange"}),
        ({**base, "reaching": False, "nonew": False}, {"viol:OnlyIntendedChange", "viol:NoNewDiagnosticKind"}),
        ({**base, "parses": False}, {"viol:StillParses"}),
        ({**base, "gone": False, "clean": False}, {"viol:ProposingDiagnosticGone", "viol:FixLoopTerminatesClean"}),
        # the seeded mechanism: a chained assignment offers and applies the removal, the used name loses its binding
        ({**chain, "offers": [True], "applied": True, "same": False, "nonew": False}, {"viol:OnlyIntendedChange", "viol:NoNewDiagnosticKind"}),
    ]
    cobs = [{**PUBLIC(o), "tid": i} for i, (o, _) in enumerate(corrupt)]
    cverd, _ = core.adjudicate("FixShapesTrace", "FixShapesTrace.cfg", cobs, batch=10**9)
    for i, (_, expect) in enumerate(corrupt):
        got = {v for v in cverd.get(i, []) if v.startswith("viol:")}
        if not expect <= got:
            raise core.MachineryError(f"FixShapesTrace self-test {i}: judged {sorted(cverd.get(i, []))}, expected {sorted(expect)}")
    check.evals(len(obs))
    for o in obs:
        check.nontrivial("shapes:" + core.canon(o["case"]))
    for o in (obs[0], obs[len(obs) // 2], obs[-1]):
        check.sample({"source": "shapes", "case": o["case"], "src": o["_src"], "steps": o["_steps"],
                      "observation": {k: v for k, v in PUBLIC(o).items() if k != "case"}})
    check.cov["shapes_cases"] = len(obs)
    check.cov["shapes_applied"] = sum(1 for o in obs if o["applied"])
    check.cov["shapes_verdict_counts"] = counts
    check.cov["shapes_sensitivity"] = (
        "AppliedIsIntendedStrict is violated on the model (the deviation classes are real); the Impl variant that offers the "
        "removal for any name target of a chained assignment (ChainAny = TRUE) and the one whose %-specifier guard ignores "
        "conversion flags (FlagBlind = TRUE) are rejected by TLC (AppliedIsIntended violated)")
    check.cov["rule"] = str(check.cov.get("rule", "")) + (
        f" | part D (FixShapes.tla): {len(obs)} producer cases = assignment statements with <= {2 if quick else 3} targets "
        "(unused/used name, 2-tuple, subscript) x walrus in the value x pure/effectful value, the named shapes of every "
        "producer, and %-specifiers flag{none,+,space,-,0,#} x width{none,5} x precision{none,.0,.2} x conversion{d,s,r,x,f} x "
        "1-2 specifiers executed on positive/negative/zero ints, floats, short/long/empty strings; each fixed by the real code to the fixpoint, fn executed before/after on 0/1/7/10")
    check.assumptions.append(
        "FixShapes: 'the intended change' is judged by really executing fn on 4 inputs (results, exceptions, the LOG of "
        "effectful calls, a subscripted list) against the intended program, by the set of diagnostic kinds and by a "
        "definition check of every read name; the attribute tables of family 2 are hand-written per shape")


def replay_part_d(check: core.Check, witness: dict) -> None:
    case = {k: v for k, v in witness["case"].items() if k != "part"}
    _adjudicate(check, [observe_one((0, case))], "replay")
