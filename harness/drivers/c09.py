"""C09 -- name binding: reaching definitions and (possibly) undefined names.

Model: spec/Scopes.tla (FunctionScope + what the visitor issues per statement), oracle spec/CFG.tla
(collecting semantics, strict and liberal), generator spec/ScopeGen.tla.  Every skeleton TLC builds is
rendered to a Python function, checked by the real visitor (diagnostics + annotated inferred values
give the set of definitions pyanalyze considers able to reach each use) and TLC adjudicates the real
report against the oracle (ScopesTrace.tla).  Second observable on the same state: the unused_variable /
unused_assignment reports per binding (a binding that reaches a use on a strict path must not be reported).
Bindings without a literal value (imports, `as` targets, loop targets, walrus, captures) are observed on the
function scope's usage_to_definition_nodes itself (mode "nodes").
"""
from __future__ import annotations

import ast
import random
from typing import Any

from .. import core, pyz

LEVEL = "model_checking"

PRELUDE = '''
def cond() -> bool:
    return True

def it() -> list[int]:
    return []

def wrapv(v: object) -> list[int]:
    return []

def subj() -> object:
    return 0

class cm:
    def __enter__(self) -> None:
        return None
    def __exit__(self, *args: object) -> None:
        return None

class scm:
    def __enter__(self) -> None:
        return None
    def __exit__(self, *args: object) -> bool:
        return True
'''


class Maps:
    """Where the renderer put things (line numbers in the module being built)."""

    def __init__(self) -> None:
        self.uses: dict[int, tuple[int, str]] = {}    # line of a use in the function's own scope -> (use id, variable)
        self.nested: dict[int, tuple[int, str]] = {}  # line of the scope node of a read from a nested scope -> (use id, variable)
        self.defs: dict[int, tuple[int, str]] = {}    # line of a binding -> (id, statement kind)
        self.foreign: set[int] = set()                # lines whose bindings belong to an inner scope


# how reads / bindings inside an inner scope are spelled, per program: form -> (read, binding)
# (a class body READING a function variable is outside the domain: in the checking phase pyanalyze resolves it without a
# node context, i.e. flow-insensitively from name_to_all_definition_nodes, by design -- stacked_scopes.py:1143)
INNER_FORMS = {"comp": ("comp", "comp"), "lam": ("lam", "lam"), "cls": ("comp", "cls")}


def render_block(block: list[dict], ind: int, out: list[str], uses: Any, sfx: str = "", form: str = "comp") -> None:
    # sfx: suffix of variable names (a batch of functions shares one module; `nonlocal` before the enclosing
    # function's first assignment leaks the name into the module scope, which must not reach the other functions)
    # form: how reads / bindings inside an inner scope are spelled (comprehension, lambda, class body)
    maps = uses if isinstance(uses, Maps) else None
    if maps is not None:
        uses = maps.uses
    pad = "    " * ind
    if not block:
        out.append(pad + "pass")
        return

    def bind(s: dict) -> None:
        if maps is not None:
            maps.defs[len(out)] = (s["id"], s["k"])

    for s in block:
        k = s["k"]
        if k == "assign":
            out.append(f"{pad}{s['v']}{sfx} = {s['id']}")
            bind(s)
        elif k == "use":
            out.append(f"{pad}{s['v']}{sfx}")
            uses[len(out)] = (s["id"], s["v"])
        elif k == "call":
            out.append(f"{pad}cond()")
        elif k == "aug":
            out.append(f"{pad}{s['v']}{sfx} += 1")
            uses[len(out)] = (s["id"], s["v"])
            bind(s)
        elif k == "import":
            out.append(f"{pad}import os as {s['v']}{sfx}")
            bind(s)
        elif k == "exas":
            pass          # rendered with the handler's header
        elif k == "citer":
            out.append(f"{pad}[0 for _ in wrapv({s['v']}{sfx})]")
            uses[len(out)] = (s["id"], s["v"])
        elif k == "cuse":
            v = f"{s['v']}{sfx}"
            out.append(pad + {"comp": f"[{v} for _ in it()]", "lam": f"(lambda: {v})()"}[INNER_FORMS[form][0]])
            if maps is not None:
                maps.nested[len(out)] = (s["id"], s["v"])
        elif k == "cbind":
            v = f"{s['v']}{sfx}"
            out.append(pad + {"comp": f"[0 for {v} in it()]", "lam": f"(lambda {v}: 0)(0)", "cls": f"class C{s['id']}: {v} = 0"}[INNER_FORMS[form][1]])
            if maps is not None:
                maps.foreign.add(len(out))
        elif k == "cwal":
            out.append(f"{pad}[({s['v']}{sfx} := 0) for _ in it()]")
            bind(s)
        elif k == "defg":
            out.append(f"{pad}def g{s['id']}() -> None:")
            if maps is not None:
                maps.nested[len(out)] = (s["id"], s["v"])
            out.append(f"{pad}    {s['v']}{sfx}")
            uses[len(out)] = (s["id"], s["v"])
        elif k == "defn":
            out.append(f"{pad}def g{s['id']}() -> None:")
            out.append(f"{pad}    nonlocal {s['v']}{sfx}")
            out.append(f"{pad}    {s['v']}{sfx} = {s['id']}")
            bind(s)
        elif k == "callg":
            out.append(f"{pad}g{s['t']}()")
        elif k == "return":
            out.append(f"{pad}return")
        elif k == "raise":
            out.append(f"{pad}raise Exception()")
        elif k in ("break", "continue"):
            out.append(pad + k)
        elif k in ("if", "ifw"):
            out.append(f"{pad}if cond():" if k == "if" else f"{pad}if ({s['v']}{sfx} := cond()):")
            if k == "ifw":
                bind(s)
            render_block(s["body"], ind + 1, out, maps or uses, sfx, form)
            if s["orelse"]:
                out.append(f"{pad}else:")
                render_block(s["orelse"], ind + 1, out, maps or uses, sfx, form)
        elif k == "whilev":
            name = f"s{s['id']}{sfx}"
            out.append(f"{pad}{name} = " + {"mlist": "[0]", "elist": "[]", "tuple": "(0,)", "one": "1", "zero": "0"}[s["t"]])
            out.append(f"{pad}while {name}:")
            if s["t"] == "mlist":
                out.append(f"{pad}    {name}.pop()")
            render_block(s["body"], ind + 1, out, maps or uses, sfx, form)
            if s["orelse"]:
                out.append(f"{pad}else:")
                render_block(s["orelse"], ind + 1, out, maps or uses, sfx, form)
        elif k in ("while", "for", "forv"):
            head = (f"for {s['v']}{sfx} in it():" if k == "forv" else "for _ in it():" if k == "for"
                    else ("while True:" if s["true"] else "while cond():"))
            out.append(pad + head)
            if k == "forv":
                bind(s)
            render_block(s["body"], ind + 1, out, maps or uses, sfx, form)
            if s["orelse"]:
                out.append(f"{pad}else:")
                render_block(s["orelse"], ind + 1, out, maps or uses, sfx, form)
        elif k in ("with", "withas"):
            out.append(f"{pad}with {'scm' if s['supp'] else 'cm'}()" + (f" as {s['v']}{sfx}:" if k == "withas" else ":"))
            if k == "withas":
                bind(s)
            render_block(s["body"], ind + 1, out, maps or uses, sfx, form)
        elif k == "match":
            out.append(f"{pad}match subj():")
            for c in s["cases"]:
                pat = {"cap": f"{s['v']}{sfx}", "seq": f"[{s['v']}{sfx}]", "wild": "_"}[c["pat"]]
                out.append(f"{pad}    case {pat}" + (" if cond():" if c["guard"] else ":"))
                if c["pat"] != "wild" and maps is not None:
                    maps.defs[len(out)] = (c["id"], "capture")
                render_block(c["body"], ind + 2, out, maps or uses, sfx, form)
        elif k == "try":
            out.append(f"{pad}try:")
            render_block(s["body"], ind + 1, out, maps or uses, sfx, form)
            for h in s["handlers"]:
                if h and h[0]["k"] == "exas":
                    out.append(f"{pad}except Exception as {h[0]['v']}{sfx}:")
                    bind(h[0])
                    render_block(h[1:], ind + 1, out, maps or uses, sfx, form)
                else:
                    out.append(f"{pad}except Exception:")
                    render_block(h, ind + 1, out, maps or uses, sfx, form)
            if s["orelse"]:
                out.append(f"{pad}else:")
                render_block(s["orelse"], ind + 1, out, maps or uses, sfx, form)
            if s["final"]:
                out.append(f"{pad}finally:")
                render_block(s["final"], ind + 1, out, maps or uses, sfx, form)
        else:
            raise core.MachineryError(f"cannot render statement {s}")


def literals_of(value: Any) -> list[int]:
    from pyanalyze.value import AnnotatedValue, KnownValue, MultiValuedValue

    if isinstance(value, AnnotatedValue):
        value = value.value
    vals = value.vals if isinstance(value, MultiValuedValue) else [value]
    out = []
    for v in vals:
        if isinstance(v, AnnotatedValue):
            v = v.value
        if isinstance(v, KnownValue) and type(v.val) is int:
            out.append(v.val)
    return out


NAME_DEF_KINDS = ("assign", "aug", "ifw", "withas", "forv", "cwal")   # = ScopeGen!NameDefKinds
_captured: list[Any] = []
_capture_installed = False


def _install_capture() -> None:
    """Record every FunctionScope when its unused-variable check runs (i.e. after both visits of the function):
    the state anchor usage_to_definition_nodes is read from it.  Wraps a method in this process only."""
    global _capture_installed
    if _capture_installed:
        return
    from pyanalyze.name_check_visitor import NameCheckVisitor

    orig = NameCheckVisitor._check_function_unused_vars

    def wrapper(self: Any, scope: Any, enclosing_statement: Any = None) -> Any:
        _captured.append(scope)
        return orig(self, scope, enclosing_statement)

    NameCheckVisitor._check_function_unused_vars = wrapper
    _capture_installed = True


def _resolve_nodes(scope: Any, nodes: list[Any]) -> list[Any]:
    """Definition nodes behind constraint pseudo-nodes (FunctionScope._resolve_origin without the origin cut-off)."""
    from pyanalyze import stacked_scopes as ss

    out: list[Any] = []
    seen: set[int] = set()
    pending = list(nodes)
    while pending:
        d = pending.pop(0)
        if id(d) in seen:
            continue
        seen.add(id(d))
        val = None if d is ss._UNINITIALIZED else scope.definition_node_to_value.get(d)
        if isinstance(val, ss._ConstrainedValue):
            pending.extend(val.definition_nodes)
        else:
            out.append(d)
    return out


def observe_batch(arg: tuple) -> list[dict]:
    """mode "value": the definitions reaching a use are read off the inferred value (every assignment is a distinct
    int literal); mode "nodes": they are read from the function scope's usage_to_definition_nodes (needed for
    bindings without a literal value: imports, `as` targets, loop targets, ...).  In both modes the (possibly)
    undefined-name diagnostics decide whether "unbound" is reported, and the unused_variable / unused_assignment
    diagnostics are recorded per binding."""
    start, progs = arg[0], arg[1]
    mode = arg[2] if len(arg) > 2 else "value"
    from pyanalyze import stacked_scopes as ss

    lines = PRELUDE.strip("\n").split("\n")
    where: list[tuple[int, Maps]] = []
    for j, p in enumerate(progs):
        lines.append("")
        lines.append(f"def f_{j}() -> None:")
        maps = Maps()
        render_block(p["prog"], 1, lines, maps, f"_{j}", p.get("form", "comp"))
        where.append((j, maps))
    src = "\n".join(lines) + "\n"
    if mode == "nodes":
        _install_capture()
        _captured.clear()
    fails, visitor, tree = pyz.check_source(src, annotate=True, want_visitor=True)
    undefined_lines: dict[int, list[str]] = {}
    unused_lines: dict[int, list[str]] = {}
    for code, lineno, _col in pyz.brief(fails):
        if code in ("undefined_name", "possibly_undefined_name"):
            undefined_lines.setdefault(lineno, []).append(code)
        elif code in ("unused_variable", "unused_assignment"):
            unused_lines.setdefault(lineno, []).append(code)
        elif code in ("internal_error",):
            raise core.MachineryError(f"internal_error while checking generated skeletons at line {lineno}")
    values: dict[int, Any] = {}
    scopes: dict[str, Any] = {}
    if mode == "value":
        for node in ast.walk(tree):
            if isinstance(node, ast.Expr) and isinstance(node.value, ast.Name) and isinstance(node.value.ctx, ast.Load):
                values[node.lineno] = getattr(node.value, "inferred_value", None)
    else:
        for sc in _captured:
            if isinstance(sc.scope_node, ast.FunctionDef):
                scopes[sc.scope_node.name] = sc
        _captured.clear()
    claimed: set[int] = set()
    obs = []
    for (j, maps), p in zip(where, progs):
        rec = []
        marks = []
        if mode == "value":
            for lineno, (uid, var) in sorted(maps.uses.items()):
                val = values.get(lineno)
                if val is None:
                    raise core.MachineryError(f"no inferred value for the use on line {lineno}\n{src}")
                defs = sorted(set(literals_of(val)))
                if undefined_lines.get(lineno):
                    defs = [0] + defs
                rec.append([uid, defs])
        else:
            sc = scopes.get(f"f_{j}")
            if sc is None:
                raise core.MachineryError(f"no function scope captured for f_{j}")
            found: dict[int, list[Any]] = {}
            for (knode, kname), nodes in sc.usage_to_definition_nodes.items():
                if isinstance(knode, ast.Name) and maps.uses.get(knode.lineno, (None, None))[1] is not None:
                    uid, var = maps.uses[knode.lineno]
                elif isinstance(knode, tuple) and len(knode) == 2 and isinstance(knode[1], ast.AST) \
                        and getattr(knode[1], "lineno", None) in maps.nested:
                    uid, var = maps.nested[knode[1].lineno]
                else:
                    continue
                if kname != f"{var}_{j}":
                    continue
                found.setdefault(uid, []).extend(_resolve_nodes(sc, nodes))
            # (a nested def appears in both maps with the same id: the diagnostic is on the line of the inner read)
            all_uses = {uid: ln for ln, (uid, _v) in maps.nested.items()}
            all_uses.update({uid: ln for ln, (uid, _v) in maps.uses.items()})
            for uid, ln in sorted(all_uses.items()):
                ids: set[int] = set()
                marker = uid not in found
                for d in found.get(uid, []):
                    if d is ss._UNINITIALIZED:
                        marker = True
                    elif getattr(d, "lineno", None) in maps.defs:
                        ids.add(maps.defs[d.lineno][0])
                    else:
                        raise core.MachineryError(f"definition node {d!r} of use {uid} in f_{j} is not a rendered binding\n{src}")
                if undefined_lines.get(ln):
                    ids.add(0)
                rec.append([uid, sorted(ids)])
                marks.append([uid, 1 if marker else 0])
        unused = []
        for ln, (did, kind) in sorted(maps.defs.items()):
            if unused_lines.get(ln):
                claimed.add(ln)
                if kind not in NAME_DEF_KINDS:
                    raise core.MachineryError(f"unused-variable report for a binding of kind {kind} on line {ln}\n{src}")
                unused.append(did)
        claimed |= maps.foreign
        o = {"tid": start + j, "prog": p["prog"], "uses": rec, "unused": unused, "marks": marks}
        if "form" in p:
            o["form"] = p["form"]
        obs.append(o)
    stray = sorted(set(unused_lines) - claimed)
    if stray:
        raise core.MachineryError(f"unused-variable reports on lines {stray} that are not bindings of a generated function\n{src}")
    return obs


def render_one(prog: list[dict], form: str = "comp") -> str:
    lines = ["def f() -> None:"]
    render_block(prog, 1, lines, {}, "", form)
    return "\n".join(lines)


_pending: list[dict] = []      # observations waiting for TLC's verdict (all slices are judged together: one JVM start costs
                               # more than judging a few hundred observations)


def judge(check: core.Check, progs: list[dict], label: str, mode: str = "value", need_use: bool = True) -> None:
    """Replay the bodies through the real checker; the observations are judged by flush()."""
    import time

    if need_use:
        progs = [p for p in progs if _has_use(p["prog"])]
    t0 = time.time()
    base = check.cov.get("evaluations", 0) + len(_pending)
    batches = [(base + i, progs[i : i + 150], mode) for i in range(0, len(progs), 150)]
    parts = core.pmap(observe_batch, batches, chunk=1)
    obs = [o for part in parts for o in part]
    for o in obs:
        o["_label"], o["_mode"] = label, mode
    _pending.extend(obs)
    check.cov.setdefault("phase_s", {})[label] = {"observations": len(obs), "real_code_s": round(time.time() - t0, 1)}
    for o in obs[:: max(1, len(obs) // 3)][:3]:
        check.sample({"source": label, "src": render_one(o["prog"], o.get("form", "comp")), "uses": o["uses"], "unused": o["unused"]},
                     limit=12)
    if len(_pending) >= 40000:
        flush(check)


def flush(check: core.Check) -> None:
    """TLC adjudicates every pending observation against ScopesTrace.tla (at most 14 batches, run side by side; the
    observations are dealt round-robin so that the slices with the costly bodies are spread over the batches)."""
    import time

    obs = list(_pending)
    _pending.clear()
    if not obs:
        return
    t0 = time.time()
    k = min(14, max(1, len(obs) // 150))
    dealt = [obs[j] for i in range(k) for j in range(i, len(obs), k)]
    batch = -(-len(dealt) // k)
    wire = [{key: val for key, val in o.items() if not key.startswith("_")} for o in dealt]
    verdicts, stats = core.adjudicate("ScopesTrace", "ScopesTrace.cfg", wire, batch=batch, parallel=14, timeout=2400)
    check.add_trace_stats(stats)
    check.evals(len(obs))
    check.cov["tlc_judging_s"] = round(check.cov.get("tlc_judging_s", 0) + time.time() - t0, 1)
    by_tid = {o["tid"]: o for o in obs}
    if len(by_tid) != len(obs):
        raise core.MachineryError("observation ids are not unique")
    for tid, vs in verdicts.items():
        o = by_tid[tid]
        form = o.get("form", "comp")
        payload = {"case": {"prog": o["prog"], "mode": o["_mode"], "form": form}, "src": render_one(o["prog"], form), "uses": o["uses"],
                   "unused": o["unused"], "source": o["_label"]}
        for v in set(vs):
            if v.startswith("viol:"):
                check.violation(core.canon(o["prog"]), v[5:], payload)
            elif v.startswith("dev:"):
                check.violation(v[4:], v[4:], payload)
            elif v.startswith("info:"):
                check.cov["information"][v[5:]] = check.cov["information"].get(v[5:], 0) + 1
            else:
                check.drift({"verdict": v, **payload})
    check.cov["bindings_judged_for_unused"] = check.cov.get("bindings_judged_for_unused", 0) + sum(
        _count_defs(o["prog"]) for o in obs)
    check.cov["unused_reports_seen"] = check.cov.get("unused_reports_seen", 0) + sum(len(o["unused"]) for o in obs)
    for o in obs:
        if any(s["k"] not in ("assign", "use", "call", "callg") for s in o["prog"]):
            check.nontrivial(core.canon(o["prog"]))


def _blocks(s: dict) -> list[list[dict]]:
    return [s[key] for key in ("body", "orelse", "final") if key in s] + list(s.get("handlers", [])) + [c["body"] for c in s.get("cases", [])]


def _count_defs(block: list[dict]) -> int:
    return sum((1 if s["k"] in NAME_DEF_KINDS else 0) + sum(_count_defs(b) for b in _blocks(s))
               for s in block)


def _has_use(block: list[dict]) -> bool:
    for s in block:
        if s["k"] in ("use", "defg", "aug", "cuse", "citer"):
            return True
        if any(_has_use(b) for b in _blocks(s)):
            return True
    return False


class _TLCJobs:
    """Independent generator / model-checking configurations run side by side (each is short and far from using 16 cores,
    except the exhaustive run of the thorough tier, which goes on while the slices are replayed); results are collected
    when they are first needed."""

    def __init__(self, check: core.Check, jobs: list[tuple[str, str, str]], parallel: int) -> None:
        from concurrent.futures import ThreadPoolExecutor

        self.check = check
        self.cfg = {name: cfg for name, _m, cfg in jobs}
        self.ex = ThreadPoolExecutor(max(1, parallel))
        self.futs = {name: self.ex.submit(core.run_tlc, module, cfg, timeout=3400) for name, module, cfg in jobs}
        self.done: dict[str, core.TLCResult] = {}

    def get(self, name: str) -> core.TLCResult:
        if name not in self.done:
            res = core.require_ok(self.futs[name].result(), f"ScopeGen {self.cfg[name]}")
            self.check.add_tlc(name, res)
            self.done[name] = res
        return self.done[name]

    def finish(self) -> None:
        for name in self.futs:
            self.get(name)
        self.ex.shutdown()


def _sample(rnd: random.Random, progs: list[dict], n: int) -> list[dict]:
    """A seeded sample that does not depend on the order in which TLC's workers emitted the bodies."""
    if len(progs) <= n:
        return progs
    return rnd.sample(sorted(progs, key=core.canon), n)


def _with_forms(progs: list[dict]) -> list[dict]:
    """Every body of the inner-scope slice is rendered with comprehensions and with lambdas; bodies with a binding
    inside an inner scope also with a class body."""
    out = []
    for p in progs:
        forms = ["comp", "lam"] + (["cls"] if _has_kind(p["prog"], "cbind") else [])
        out += [dict(p, form=f) for f in forms]
    return out


def _has_kind(block: list[dict], kind: str) -> bool:
    return any(s["k"] == kind or any(_has_kind(b, kind) for b in _blocks(s)) for s in block)


# Sensitivity of the oracle clauses added with the binding forms / inner scopes / the unused-variable observable:
# (program, what the real checker would have to report for the clause to be vacuous, verdict TLC must give).
def _a(v: str, i: int) -> dict:
    return {"k": "assign", "v": v, "id": i}


def _u(v: str, i: int) -> dict:
    return {"k": "use", "v": v, "id": i}


def _try(i: int, body: list, handlers: list, orelse: list = [], final: list = []) -> dict:
    return {"k": "try", "id": i, "body": body, "handlers": handlers, "orelse": orelse, "final": final}


SELFTEST: list[tuple[str, list[dict], list[list], list[int], str]] = [
    # a live assignment reported as unused
    ("unused-live", [_a("x", 1), _u("x", 2)], [[2, [1]]], [1], "viol:UsedAssignmentReportedUnused"),
    ("unused-dead-ok", [_a("x", 1), _a("x", 2), _u("x", 3)], [[3, [2]]], [1], "ok"),
    ("unused-info", [_a("x", 1), _a("x", 2), _u("x", 3)], [[3, [2]]], [], "info:UnusedAssignmentNotReported"),
    # x += 1: the read sees the earlier binding, later reads see the augmented assignment only
    ("aug-read", [_a("x", 1), {"k": "aug", "v": "x", "id": 2}, _u("x", 3)], [[2, []], [3, [2]]], [], "viol:ReachingDefinitions"),
    ("aug-bind", [_a("x", 1), {"k": "aug", "v": "x", "id": 2}, _u("x", 3)], [[2, [1]], [3, [1]]], [], "viol:ReachingDefinitions"),
    ("aug-unbound", [{"k": "aug", "v": "x", "id": 1}], [[1, []]], [], "viol:ReachingDefinitions"),
    ("import-binds", [{"k": "import", "v": "x", "id": 1}, _u("x", 2)], [[2, [0]]], [], "viol:ReachingDefinitions"),
    # except E as x: bound inside the handler, unbound after it
    ("exas-inside", [_try(1, [{"k": "call", "id": 2}], [[{"k": "exas", "v": "x", "id": 3}, _u("x", 4)]])], [[4, [0]]], [],
     "viol:ReachingDefinitions"),
    ("exas-after-ok", [_try(1, [{"k": "call", "id": 2}], [[{"k": "exas", "v": "x", "id": 3}]]), _u("x", 4)], [[4, [0]]], [],
     "drift:reported"),
    ("exas-after", [_a("x", 1), _try(2, [{"k": "call", "id": 3}], [[{"k": "exas", "v": "x", "id": 4}]]), _u("x", 5)], [[5, [1, 4]]], [],
     "dev:except-name-outlives-handler"),
    ("exas-after-wrong", [_a("x", 1), _try(2, [{"k": "call", "id": 3}], [[{"k": "exas", "v": "x", "id": 4}]]), _u("x", 5)], [[5, [4]]], [],
     "viol:ReachingDefinitions"),
    # walrus in an if test, with-as target, for target
    ("ifw-binds", [{"k": "ifw", "v": "x", "id": 1, "body": [_u("x", 2)], "orelse": []}], [[2, [0]]], [], "viol:ReachingDefinitions"),
    ("withas-binds", [{"k": "withas", "v": "x", "id": 1, "supp": False, "body": [_u("x", 2)]}], [[2, [0]]], [], "viol:ReachingDefinitions"),
    ("forv-binds", [{"k": "forv", "v": "x", "id": 1, "body": [_u("x", 2)], "orelse": []}], [[2, [0]]], [], "viol:ReachingDefinitions"),
    ("forv-after", [{"k": "forv", "v": "x", "id": 1, "body": [{"k": "call", "id": 2}], "orelse": []}, _u("x", 3)], [[3, [1]]], [],
     "viol:ReachingDefinitions"),
    # inner scopes
    ("cuse-reads", [_a("x", 1), {"k": "cuse", "v": "x", "id": 2}], [[2, [0]]], [], "viol:ReachingDefinitions"),
    ("citer-reads", [_a("x", 1), {"k": "citer", "v": "x", "id": 2}], [[2, [0]]], [], "viol:ReachingDefinitions"),
    ("cbind-leak", [{"k": "cbind", "v": "x", "id": 1}, _u("x", 2)], [[2, [1]]], [], "viol:ReachingDefinitions"),
    ("cbind-ok", [{"k": "cbind", "v": "x", "id": 1}, _u("x", 2)], [[2, [0]]], [], "ok"),
    ("cwal-binds", [{"k": "cwal", "v": "x", "id": 1}, _u("x", 2)], [[2, [0]]], [], "viol:ReachingDefinitions"),
    ("cwal-dev", [{"k": "cwal", "v": "x", "id": 1}, _u("x", 2)], [[2, [1]]], [], "dev:comprehension-walrus-assumed-executed"),
    ("cwal-strict", [{"k": "cwal", "v": "x", "id": 1}, _u("x", 2)], [[2, [0, 1]]], [], "drift:reported"),
    # match: a capture binds; it stays bound when the guard fails
    ("match-cap-binds", [{"k": "match", "v": "x", "id": 1, "cases": [{"pat": "cap", "guard": False, "id": 111, "body": [_u("x", 2)]}]}],
     [[2, [0]]], [], "viol:ReachingDefinitions"),
    ("match-seq-may-fail", [{"k": "match", "v": "x", "id": 1, "cases": [{"pat": "seq", "guard": False, "id": 111, "body": [{"k": "call", "id": 2}]}]},
                            _u("x", 3)], [[3, [111]]], [], "viol:ReachingDefinitions"),
    ("match-guard-keeps", [{"k": "match", "v": "x", "id": 1, "cases": [{"pat": "cap", "guard": True, "id": 111, "body": [{"k": "return", "id": 2}]}]},
                           _u("x", 3)], [[3, [111]]], [], "drift:reported"),
    ("match-guard-dev", [{"k": "match", "v": "x", "id": 1, "cases": [{"pat": "cap", "guard": True, "id": 111, "body": [{"k": "return", "id": 2}]}]},
                         _u("x", 3)], [[3, [0]]], [], "dev:match-capture-dropped-when-guard-fails"),
    # while <known local>: a never-true test skips the body, the popped one-element list runs it exactly once
    ("whilev-never", [{"k": "whilev", "t": "zero", "id": 1, "body": [_a("x", 2)], "orelse": []}, _u("x", 3)], [[3, [2]]], [],
     "viol:ReachingDefinitions"),
    ("whilev-once", [{"k": "whilev", "t": "mlist", "id": 1, "body": [_a("x", 2)], "orelse": []}, _u("x", 3)], [[3, [0]]], [],
     "viol:ReachingDefinitions"),
    ("whilev-always", [_a("x", 1), {"k": "whilev", "t": "tuple", "id": 2, "body": [_a("x", 3), {"k": "break", "id": 4}], "orelse": []}, _u("x", 5)],
     [[5, [1]]], [], "viol:ReachingDefinitions"),
    # the unbound marker and the diagnostic must go together
    ("marker", [_u("x", 1)], [[1, []]], [], "drift:uninit-marker-vs-diagnostic"),
]


def selftest(check: core.Check) -> None:
    obs = []
    for i, (name, prog, uses, unused, _want) in enumerate(SELFTEST):
        marks = [[1, 1]] if name == "marker" else []
        obs.append({"tid": i, "prog": prog, "uses": uses, "unused": unused, "marks": marks})
    verdicts, stats = core.adjudicate("ScopesTrace", "ScopesTrace.cfg", obs, timeout=600)
    for i, (name, _prog, _uses, _unused, want) in enumerate(SELFTEST):
        got = set(verdicts.get(i, []))
        if (want == "ok" and got) or (want != "ok" and want not in got):
            raise core.MachineryError(f"sensitivity self-test {name}: TLC gave {sorted(got)}, expected {want}")
    check.cov["sensitivity_selftests"] = len(SELFTEST)
    for name, cfg in (("unused-strict", "ScopeGen.unusedstrict.cfg"), ("binders-strict", "ScopeGen.bindersstrict.cfg")):
        res = core.run_tlc("ScopeGen", cfg, timeout=900)
        if res.violated not in ("InvUnusedStrict", "InvC09Strict"):
            raise core.MachineryError(f"sensitivity self-test {cfg}: the strict invariant must be violated by the model of the "
                                      f"known deviations, TLC said {res.violated} / {res.error}")
        check.cov["sensitivity_selftests"] += 1


def run(check: core.Check) -> None:
    quick = check.tier == "quick"
    rnd = random.Random(check.seed)
    check.cov["information"] = {}
    # thorough: 5 statements / depth 3 / two variables and 6 statements / depth 3 / one variable (6 statements with two
    # variables, ScopeGen.thorough.cfg, is > 4 * 10^8 states: beyond the 30-minute tier on a shared machine)
    jobs = ([] if quick else [("exhaustive6-one-variable", "ScopeGen", "ScopeGen.thorough6x.cfg")]) + [
            ("exhaustive", "ScopeGen", "ScopeGen.quick.cfg" if quick else "ScopeGen.thorough5.cfg"),
            ("emit", "ScopeGenEmit", "ScopeGen.emit3.cfg" if quick else "ScopeGen.emit4.cfg"),
            ("nested5", "ScopeGenEmit", "ScopeGen.nested5.cfg"),
            ("closure4", "ScopeGenEmit", "ScopeGen.closure.cfg"),
            ("loopexit7", "ScopeGenEmit", "ScopeGen.loopexit.cfg"),
            ("loopcont6", "ScopeGenEmit", "ScopeGen.loopcont.cfg"),
            ("finally5", "ScopeGenEmit", "ScopeGen.finally.cfg"),
            ("binders4", "ScopeGenEmit", "ScopeGen.binders.cfg"),
            ("inner4", "ScopeGenEmit", "ScopeGen.inner.cfg"),
            ("match5", "ScopeGenEmit", "ScopeGen.match.cfg"),
            ("whiletest5", "ScopeGenEmit", "ScopeGen.whiletest.cfg")]
    if not quick:
        jobs += [("finally6", "ScopeGenEmit", "ScopeGen.finally6.cfg"),
                 ("nested6-model-only", "ScopeGen", "ScopeGen.nested6.cfg"),
                 ("loopcont7-model-only", "ScopeGen", "ScopeGen.loopcont7.cfg"),
                 ("binders5-model-only", "ScopeGen", "ScopeGen.binders5.cfg"),
                 ("inner5-model-only", "ScopeGen", "ScopeGen.inner5.cfg")]
    # quick: everything at once; thorough: the exhaustive run (first job, > 10^8 states) keeps one slot until the end
    tlc = _TLCJobs(check, jobs, parallel=len(jobs) if quick else 3)
    if quick:
        tlc.finish()
    selftest(check)
    progs = core.emitted_json(tlc.get("emit"))
    limit = 2000 if quick else 10**7
    exhaustive = len(progs) <= limit
    if not exhaustive:
        progs = _sample(rnd, progs, limit)
    check.cov["exhaustive"] = exhaustive
    check.cov["rule"] = ("function bodies built by TLC's generator (ScopeGen.tla); non-trivial = contains a control construct. "
                         "Slices: all bodies <= 4 statements / depth 2 / 2 variables on the model (thorough: 5 / depth 3 / 2 variables "
                         "and 6 / depth 3 / 1 variable, without dead tails; InvAll: reaching definitions and unused-variable "
                         "reports), replayed <= 3 (4) statements; nested5 try/suppressing-with in if-branches; "
                         "closure4; loopexit7 (break under try / suppressing with); loopcont6 (thorough 7 on the model: one loop, if / try "
                         "branches leaving by continue / break / return); finally5 (thorough 6: for + try, finally clause "
                         "reading what body / handlers / else bind, break / continue through finally); binders4 (thorough 5 on the "
                         "model: augmented assignment, import, walrus-if, with-as, for target, except-as; if / for / with / try "
                         "nesting, one variable); inner4 (thorough 5 on the model: comprehension / lambda reads, first iterable, "
                         "comprehension / lambda / class-body bindings that must not leak, walrus in a comprehension; if / for); match5 "
                         "(match statements with one or two cases: capture, sequence capture, wildcard, guards; nested in if / match); "
                         "whiletest5 (`while s:` with s a local bound to [0] popped by the body / [] / (0,) / 1 / 0, nested in if)")
    judge(check, progs, "tlc-exhaustive")
    # targeted slice: try / suppressing with nested in if-branches, one variable, depth 3 (5 statements exhaustively on
    # the model; replayed exhaustively in both tiers; 6 statements model-checked in thorough)
    judge(check, core.emitted_json(tlc.get("nested5")), "tlc-nested-suppress")
    # closures: nested functions reading a variable of the enclosing function or assigning it through `nonlocal`, and
    # calls of them (4 statements, if-nesting; replayed exhaustively in both tiers)
    judge(check, core.emitted_json(tlc.get("closure4")), "tlc-closures")
    # loop exits: one loop whose body contains a try statement / suppressing with and a break inside it (7 statements on
    # the model; the 47k bodies with a break under a try / suppressing with are replayed -- a seeded sample in the quick tier)
    lprogs = core.emitted_json(tlc.get("loopexit7"))
    if quick:
        lprogs = _sample(rnd, lprogs, 5000)
    judge(check, lprogs, "tlc-loop-exit")
    # loop-carried definitions: one loop with if / try branches that leave by continue / break / return (6 statements; the
    # bodies with a continue and a use are all replayed; 7 statements on the model in thorough)
    cprogs = core.emitted_json(tlc.get("loopcont6"))      # replayed exhaustively in both tiers
    judge(check, cprogs, "tlc-loop-continue")
    # finally clauses: for + try/except/else/finally, the finally clause reads a variable that the body / a handler / the
    # else clause binds (blocks that bind and then return / break / continue, re-binding after a call), and break / continue
    # leaving through a finally clause (5 statements, replayed exhaustively; 6 statements in thorough, sampled)
    fprogs = core.emitted_json(tlc.get("finally5"))
    if not quick:
        f6 = core.emitted_json(tlc.get("finally6"))
        fprogs += _sample(rnd, f6, 10000)
    judge(check, fprogs, "tlc-finally")
    # other binding forms, observed on the state anchor itself (usage_to_definition_nodes of the function scope) because
    # their values are not literals; replayed exhaustively in thorough, a seeded sample in quick
    bprogs = core.emitted_json(tlc.get("binders4"))
    if quick:
        bprogs = _sample(rnd, bprogs, 3000)
    judge(check, bprogs, "tlc-binders", mode="nodes", need_use=False)
    iprogs = core.emitted_json(tlc.get("inner4"))
    if quick:
        iprogs = _sample(rnd, iprogs, 900)
    judge(check, _with_forms(iprogs), "tlc-inner-scopes", mode="nodes", need_use=False)
    # match statements: captures (`case x`, `case [x]`), guards, the wildcard; nested in if / match (5 statements)
    mprogs = [p for p in core.emitted_json(tlc.get("match5")) if _has_kind(p["prog"], "match")]
    mprogs = _sample(rnd, mprogs, 1500 if quick else 20000)
    judge(check, mprogs, "tlc-match", mode="nodes")
    # while tests that are known locals: a one-element list the body pops, an empty list, a non-empty tuple, 1, 0 (the loop
    # inside if-branches; visit_While's always_entered must hold for the immutable always-true values only)
    wprogs = _sample(rnd, core.emitted_json(tlc.get("whiletest5")), 3000 if quick else 20000)
    judge(check, wprogs, "tlc-while-test")
    sim = core.simulate_cases("ScopeGenEmit", "ScopeGen.sim.cfg", 120 if quick else 12000, depth=30, seed=check.seed + 9,
                              check=check)
    judge(check, sim, "tlc-simulate")
    flush(check)
    tlc.finish()
    check.assumptions.append(
        "C09 domain: no dead code after return/raise/break/continue in a block (and, in the slices loopcont / binders / inner / "
        "match, after a compound statement that cannot complete normally: ScopeGen!DeadTail); `del` is not generated (pyanalyze treats `del x` as a "
        "read, _is_read_ctx); `global` is not generated (module variables are flow-insensitive by design); a class body READING a "
        "function variable is not generated (resolved without node context, flow-insensitively, by design); match subjects are "
        "calls (no narrowing of a subject variable: that is C02's matter). Bindings without a literal value are observed on FunctionScope.usage_to_definition_nodes "
        "(captured when _check_function_unused_vars runs) together with the undefined-name diagnostics; TLC checks that the "
        "_UNINITIALIZED marker and the diagnostic agree.")


def replay(check: core.Check, witness: dict) -> None:
    case = witness["case"]
    check.cov.setdefault("information", {})
    judge(check, [{"prog": case["prog"], "form": case.get("form", "comp")}], "replay", mode=case.get("mode", "value"), need_use=False)
    flush(check)
