"""C09 -- name binding: reaching definitions and (possibly) undefined names.

Model: spec/Scopes.tla (FunctionScope + what the visitor issues per statement), oracle spec/CFG.tla
(collecting semantics, strict and liberal), generator spec/ScopeGen.tla.  Every skeleton TLC builds is
rendered to a Python function, checked by the real visitor (diagnostics + annotated inferred values
give the set of definitions pyanalyze considers able to reach each use) and TLC adjudicates the real
report against the oracle (ScopesTrace.tla).
"""
from __future__ import annotations

import ast
import random
from typing import Any

from .. import core, pyz

LEVEL = "model_checking"

PRELUDE = '''
def cond() -> bool:
    return True

def it() -> list[int]:
    return []

class cm:
    def __enter__(self) -> None:
        return None
    def __exit__(self, *args: object) -> None:
        return None

class scm:
    def __enter__(self) -> None:
        return None
    def __exit__(self, *args: object) -> bool:
        return True
'''


def render_block(block: list[dict], ind: int, out: list[str], uses: dict[int, tuple[int, str]], sfx: str = "") -> None:
    # sfx: suffix of variable names (a batch of functions shares one module; `nonlocal` before the enclosing
    # function's first assignment leaks the name into the module scope, which must not reach the other functions)
    pad = "    " * ind
    if not block:
        out.append(pad + "pass")
        return
    for s in block:
        k = s["k"]
        if k == "assign":
            out.append(f"{pad}{s['v']}{sfx} = {s['id']}")
        elif k == "use":
            out.append(f"{pad}{s['v']}{sfx}")
            uses[len(out)] = (s["id"], s["v"])
        elif k == "call":
            out.append(f"{pad}cond()")
        elif k == "defg":
            out.append(f"{pad}def g{s['id']}() -> None:")
            out.append(f"{pad}    {s['v']}{sfx}")
            uses[len(out)] = (s["id"], s["v"])
        elif k == "defn":
            out.append(f"{pad}def g{s['id']}() -> None:")
            out.append(f"{pad}    nonlocal {s['v']}{sfx}")
            out.append(f"{pad}    {s['v']}{sfx} = {s['id']}")
        elif k == "callg":
            out.append(f"{pad}g{s['t']}()")
        elif k == "return":
            out.append(f"{pad}return")
        elif k == "raise":
            out.append(f"{pad}raise Exception()")
        elif k in ("break", "continue"):
            out.append(pad + k)
        elif k == "if":
            out.append(f"{pad}if cond():")
            render_block(s["body"], ind + 1, out, uses, sfx)
            if s["orelse"]:
                out.append(f"{pad}else:")
                render_block(s["orelse"], ind + 1, out, uses, sfx)
        elif k in ("while", "for"):
            head = "for _ in it():" if k == "for" else ("while True:" if s["true"] else "while cond():")
            out.append(pad + head)
            render_block(s["body"], ind + 1, out, uses, sfx)
            if s["orelse"]:
                out.append(f"{pad}else:")
                render_block(s["orelse"], ind + 1, out, uses, sfx)
        elif k == "with":
            out.append(f"{pad}with {'scm' if s['supp'] else 'cm'}():")
            render_block(s["body"], ind + 1, out, uses, sfx)
        elif k == "try":
            out.append(f"{pad}try:")
            render_block(s["body"], ind + 1, out, uses, sfx)
            for h in s["handlers"]:
                out.append(f"{pad}except Exception:")
                render_block(h, ind + 1, out, uses, sfx)
            if s["orelse"]:
                out.append(f"{pad}else:")
                render_block(s["orelse"], ind + 1, out, uses, sfx)
            if s["final"]:
                out.append(f"{pad}finally:")
                render_block(s["final"], ind + 1, out, uses, sfx)
        else:
            raise core.MachineryError(f"cannot render statement {s}")


def literals_of(value: Any) -> list[int]:
    from pyanalyze.value import AnnotatedValue, KnownValue, MultiValuedValue

    if isinstance(value, AnnotatedValue):
        value = value.value
    vals = value.vals if isinstance(value, MultiValuedValue) else [value]
    out = []
    for v in vals:
        if isinstance(v, AnnotatedValue):
            v = v.value
        if isinstance(v, KnownValue) and type(v.val) is int:
            out.append(v.val)
    return out


def observe_batch(arg: tuple[int, list[dict]]) -> list[dict]:
    start, progs = arg
    lines = PRELUDE.strip("\n").split("\n")
    where: list[tuple[int, dict[int, tuple[int, str]]]] = []
    for j, p in enumerate(progs):
        lines.append("")
        lines.append(f"def f_{j}() -> None:")
        uses: dict[int, tuple[int, str]] = {}
        render_block(p["prog"], 1, lines, uses, f"_{j}")
        where.append((j, uses))
    src = "\n".join(lines) + "\n"
    fails, visitor, tree = pyz.check_source(src, annotate=True, want_visitor=True)
    undefined_lines: dict[int, list[str]] = {}
    for code, lineno, _col in pyz.brief(fails):
        if code in ("undefined_name", "possibly_undefined_name"):
            undefined_lines.setdefault(lineno, []).append(code)
        elif code in ("internal_error",):
            raise core.MachineryError(f"internal_error while checking generated skeletons at line {lineno}")
    values: dict[int, Any] = {}
    for node in ast.walk(tree):
        if isinstance(node, ast.Expr) and isinstance(node.value, ast.Name) and isinstance(node.value.ctx, ast.Load):
            values[node.lineno] = getattr(node.value, "inferred_value", None)
    obs = []
    for (j, uses), p in zip(where, progs):
        rec = []
        for lineno, (uid, var) in sorted(uses.items()):
            val = values.get(lineno)
            if val is None:
                raise core.MachineryError(f"no inferred value for the use on line {lineno}\n{src}")
            defs = sorted(set(literals_of(val)))
            if undefined_lines.get(lineno):
                defs = [0] + defs
            rec.append([uid, defs])
        obs.append({"tid": start + j, "prog": p["prog"], "uses": rec})
    return obs


def render_one(prog: list[dict]) -> str:
    lines = ["def f() -> None:"]
    render_block(prog, 1, lines, {})
    return "\n".join(lines)


def judge(check: core.Check, progs: list[dict], label: str) -> None:
    progs = [p for p in progs if _has_use(p["prog"])]
    batches = [(i, progs[i : i + 150]) for i in range(0, len(progs), 150)]
    parts = core.pmap(observe_batch, batches, chunk=1)
    obs = [o for part in parts for o in part]
    verdicts, stats = core.adjudicate("ScopesTrace", "ScopesTrace.cfg", obs, batch=120, parallel=14, timeout=1500)
    check.add_trace_stats(stats)
    check.evals(len(obs))
    by_tid = {o["tid"]: o for o in obs}
    for tid, vs in verdicts.items():
        o = by_tid[tid]
        payload = {"case": {"prog": o["prog"]}, "src": render_one(o["prog"]), "uses": o["uses"], "source": label}
        for v in set(vs):
            if v.startswith("viol:"):
                check.violation(core.canon(o["prog"]), v[5:], payload)
            elif v.startswith("dev:"):
                check.violation(v[4:], v[4:], payload)
            else:
                check.drift({"verdict": v, **payload})
    for o in obs:
        if any(s["k"] not in ("assign", "use", "call", "callg") for s in o["prog"]):
            check.nontrivial(core.canon(o["prog"]))
    for o in obs[:: max(1, len(obs) // 3)][:3]:
        check.sample({"source": label, "src": render_one(o["prog"]), "uses": o["uses"]})


def _has_use(block: list[dict]) -> bool:
    for s in block:
        if s["k"] in ("use", "defg"):
            return True
        for key in ("body", "orelse", "final"):
            if key in s and _has_use(s[key]):
                return True
        for h in s.get("handlers", []):
            if _has_use(h):
                return True
    return False


def run(check: core.Check) -> None:
    quick = check.tier == "quick"
    rnd = random.Random(check.seed)
    res = core.require_ok(core.run_tlc("ScopeGen", "ScopeGen.quick.cfg" if quick else "ScopeGen.thorough.cfg", timeout=3400),
                          "ScopeGen exhaustive")
    check.add_tlc("exhaustive", res)
    em = core.require_ok(core.run_tlc("ScopeGenEmit", "ScopeGen.emit3.cfg" if quick else "ScopeGen.emit4.cfg", timeout=3000), "emit")
    check.add_tlc("emit", em)
    progs = core.emitted_json(em)
    limit = 1000 if quick else 10**7
    exhaustive = len(progs) <= limit
    if not exhaustive:
        progs = rnd.sample(progs, limit)
    check.cov["exhaustive"] = exhaustive
    check.cov["rule"] = "function bodies built by TLC's generator (ScopeGen.tla); non-trivial = contains a control construct"
    judge(check, progs, "tlc-exhaustive")
    # targeted slice: try / suppressing with nested in if-branches, one variable, depth 3 (5 statements exhaustively on
    # the model; replayed exhaustively in both tiers; 6 statements model-checked in thorough)
    nest = core.require_ok(core.run_tlc("ScopeGenEmit", "ScopeGen.nested5.cfg", timeout=3000), "ScopeGen nested5")
    check.add_tlc("nested5", nest)
    nprogs = core.emitted_json(nest)
    judge(check, nprogs, "tlc-nested-suppress")
    # closures: nested functions reading a variable of the enclosing function or assigning it through `nonlocal`, and
    # calls of them (4 statements, if-nesting; replayed exhaustively in both tiers)
    clo = core.require_ok(core.run_tlc("ScopeGenEmit", "ScopeGen.closure.cfg", timeout=3000), "ScopeGen closure")
    check.add_tlc("closure4", clo)
    judge(check, core.emitted_json(clo), "tlc-closures")
    # loop exits: one loop whose body contains a try statement / suppressing with and a break inside it (7 statements on
    # the model; the 47k bodies with a break under a try / suppressing with are replayed -- a seeded sample in the quick tier)
    lx = core.require_ok(core.run_tlc("ScopeGenEmit", "ScopeGen.loopexit.cfg", timeout=3000), "ScopeGen loopexit")
    check.add_tlc("loopexit7", lx)
    lprogs = core.emitted_json(lx)
    if quick:
        lprogs = rnd.sample(lprogs, 5000)
    judge(check, lprogs, "tlc-loop-exit")
    if not quick:
        nest6 = core.require_ok(core.run_tlc("ScopeGen", "ScopeGen.nested6.cfg", timeout=3400), "ScopeGen nested6")
        check.add_tlc("nested6-model-only", nest6)
    sim = core.simulate_cases("ScopeGenEmit", "ScopeGen.sim.cfg", 120 if quick else 12000, depth=30, seed=check.seed + 9,
                              check=check)
    judge(check, sim, "tlc-simulate")


def replay(check: core.Check, witness: dict) -> None:
    judge(check, [{"prog": witness["case"]["prog"]}], "replay")
