"""C20 -- type evaluation functions follow their specification (docs/type_evaluation.md).

spec/TypeEval.tla: Ref* = the documented symbolic execution (argument kinds, compatibility with
`Any` only matching `Any` under exclude_any, comparisons, version/platform checks, one execution of
the body per combination of union members), Impl* = transcription of pyanalyze/type_evaluation.py
and of the positions computed by Signature.bind_arguments.  TLC proves, for every generated body x
signature x call x argument types inside the bounds, that Impl = Ref or the case falls in one of the
named deviation classes.

S->C: every case TLC enumerates / simulates is realised as a real `@evaluated` function plus a call
inside a checked function, run through NameCheckVisitor; recorded per call: the inferred value of
the call node, the diagnostics at the call, and (by wrapping Evaluator.evaluate, the linearization
point) the positions fed from binding, the returned value and every UserRaisedError.
C->S: the recorded observations are adjudicated by TLC against spec/trace/TypeEvalTrace.tla.  The
Python side only renders cases and records what happened; every comparison is made by TLC.
"""
from __future__ import annotations

import ast
import linecache
import os
import random
import re
import sys
import warnings
from concurrent.futures import ThreadPoolExecutor
from typing import Any, Optional

from .. import core, pyz

LEVEL = "model_checking"

HEADER = (
    "import enum\n"
    "import sys\n"
    "from typing import Any, Union\n"
    "from typing_extensions import Literal\n"
    "from pyanalyze.extensions import evaluated, is_keyword, is_of_type, is_positional, is_provided, show_error\n"
    "class E(enum.IntEnum):\n"
    "    A = 1\n"
)
PARAM_ANNOTATION = "Union[int, str, None]"
# LT / LE: Literal[True] and a member of an IntEnum with value 1 -- both == 1 in Python, distinct as types
ATOM_SRC = {
    "L1": "Literal[1]", "L2": "Literal[2]", "Lx": 'Literal["x"]', "Ly": 'Literal["y"]',
    "None": "None", "int": "int", "str": "str", "Any": "Any", "LT": "Literal[True]", "LE": "Literal[E.A]",
}
LIT_SRC = {"L1": "1", "L2": "2", "Lx": '"x"', "Ly": '"y"', "None": "None", "LT": "True", "LE": "E.A", "X": "int()"}
OP_SRC = {"eq": "==", "ne": "!=", "is": "is", "isnot": "is not", "ge": ">=", "lt": "<", "le": "<=", "gt": ">",
          "in": "in", "notin": "not in"}
# TypeEval!StrTab: the strings of typed tuple elements, in Python's string order
STR_TAB = ["3", "alpha", "beta", "candidate", "final", "x"]
assert STR_TAB == sorted(STR_TAB)
ENV_KINDS = ("ver", "veri", "plat", "platin", "platsw")
BARE_SRC = {"a": "a", "True": "True", "plat": "sys.platform"}
KIND_SRC = {"prov": "is_provided", "pos": "is_positional", "kw": "is_keyword"}
DEFAULT_SRC = {"a": "1", "b": '"x"'}


# --------------------------------------------------------------------------- rendering (codec)


def type_src(atoms: list[str]) -> str:
    parts = [ATOM_SRC[a] for a in atoms]
    return parts[0] if len(parts) == 1 else "Union[" + ", ".join(parts) + "]"


def cond_src(c: dict) -> str:
    k = c["k"]
    if k == "kind":
        return f"{KIND_SRC[c['f']]}({c['v']})"
    if k == "oft":
        extra = "" if c["x"] else ", exclude_any=False"
        return f"is_of_type({c['v']}, {type_src(c['tt'])}{extra})"
    if k == "cmp":
        return f"{c['v']} {OP_SRC[c['op']]} {LIT_SRC[c['lit']]}"
    if k == "ver":
        tup = [elem_src(x) for x in c["tup"]]
        t = tup[0] if c["sc"] else "(" + ", ".join(tup) + ("," if len(tup) == 1 else "") + ")"
        return f"sys.version_info {OP_SRC[c['op']]} {t}"
    if k == "veri":
        return f"sys.version_info[{c['i']}] {OP_SRC[c['op']]} {c['n']}"
    if k == "plat":
        return f'sys.platform {OP_SRC[c["op"]]} "{c["name"]}"'
    if k == "platin":
        names = [f'"{n}"' for n in c["names"]]
        return f"sys.platform {OP_SRC[c['op']]} ({', '.join(names)}{',' if len(names) == 1 else ''})"
    if k == "platsw":
        return f'sys.platform.startswith("{c["name"]}")'
    if k == "cmpin":
        lits = [LIT_SRC[x] for x in c["lits"]]
        return f"{c['v']} {OP_SRC[c['op']]} ({', '.join(lits)}{',' if len(lits) == 1 else ''})"
    if k == "chain":
        return "sys.version_info >= (3,) >= (3,)" if c["w"] == "ver" else f"{c['v']} == 1 == 1"
    if k == "cmprev":
        return f"{LIT_SRC[c['lit']]} == {c['v']}"
    if k == "bare":
        return BARE_SRC[c["w"]]
    if k == "not":
        return f"not ({cond_src(c['c'])})"
    if k in ("and", "or"):
        return f" {k} ".join(f"({cond_src(x)})" for x in c["cs"])
    raise core.MachineryError(f"cannot render condition {c!r}")


def elem_src(e: dict) -> str:
    k = e["k"]
    if k == "i":
        return str(e["n"])
    if k == "s":
        return '"' + STR_TAB[e["n"] - 1] + '"'
    if k == "n":
        return "None"
    if k == "x":
        return "int()"
    raise core.MachineryError(f"cannot render tuple element {e!r}")


def elem_of(v: Any) -> dict:
    if isinstance(v, bool):
        raise core.MachineryError(f"cannot encode {v!r}")
    if isinstance(v, int):
        return {"k": "i", "n": v}
    if isinstance(v, str) and v in STR_TAB:
        return {"k": "s", "n": STR_TAB.index(v) + 1}
    raise core.MachineryError(f"cannot encode the element {v!r} of sys.version_info (TypeEval!StrTab)")


def all_atoms(c: dict) -> list[dict]:
    k = c["k"]
    if k == "none":
        return []
    if k == "not":
        return all_atoms(c["c"])
    if k in ("and", "or"):
        return [a for x in c["cs"] for a in all_atoms(x)]
    return [c]


def env_atoms(c: dict) -> list[dict]:
    """The version / platform checks that are Python expressions with a value of their own."""
    k = c["k"]
    if k in ENV_KINDS:
        return [] if k == "ver" and any(e["k"] == "x" for e in c["tup"]) else [c]
    if k == "not":
        return env_atoms(c["c"])
    if k in ("and", "or"):
        return [a for x in c["cs"] for a in env_atoms(x)]
    return []


def params_src(sig: list[dict]) -> str:
    out: list[str] = []
    names = ["a", "b"]
    seen_star = False
    for i, p in enumerate(sig):
        name = names[i]
        kind = p["kind"]
        if kind == "va":
            out.append(f"*{name}: object")
            seen_star = True
            continue
        if kind == "vk":
            out.append(f"**{name}: object")
            continue
        if kind == "ko" and not seen_star:
            out.append("*")
            seen_star = True
        text = f"{name}: {PARAM_ANNOTATION}"
        if p["dflt"] == "lit":
            text += f" = {DEFAULT_SRC[name]}"
        elif p["dflt"] == "ell":
            text += " = ..."
        out.append(text)
        if kind == "po" and (i + 1 == len(sig) or sig[i + 1]["kind"] != "po"):
            out.append("/")
    return ", ".join(out)


def function_src(fname: str, case: dict) -> str:
    ret = ' -> Literal["ann"]' if case["ann"] else ""
    lines = ["@evaluated", f"def {fname}({params_src(case['sig'])}){ret}:"]
    for i, ln in enumerate(case["lines"], start=1):
        pad = "    " * (ln["ind"] + 1)
        k = ln["k"]
        if k in ("if", "elif"):
            text = f"{k} {cond_src(ln['c'])}:"
        elif k == "else":
            text = "else:"
        elif k == "ret":
            text = f'return Literal["r{i}"]'
        elif k == "err":
            text = f'show_error("e{i}")'
        elif k == "pass":
            text = "pass"
        else:
            raise core.MachineryError(f"cannot render line {ln!r}")
        lines.append(pad + text)
    return "\n".join(lines) + "\n"


def var_name(atoms: list[str]) -> str:
    return "v_" + "_".join(atoms)


def call_src(fname: str, case: dict) -> str:
    x, y = var_name(case["ta"]), var_name(case["tb"])
    call = case["call"]
    args = [x, y][: call["npos"]]
    if call["star"]:
        args.append("*args")
    for n in call["kws"]:
        args.append(f"{n}={x if n == 'a' else y}")
    if call["dstar"]:
        args.append("**kwargs")
    return f"{fname}({', '.join(args)})"


def twin_atom(case: dict) -> Optional[dict]:
    """The condition of a version / platform probe (TypeEval!ProbeBody2), which is also placed in an
    ordinary function: the checker must not raise on it there either."""
    if not _is_probe2(case):
        return None
    c = case["lines"][0]["c"]
    atom = c["c"] if c["k"] == "not" else c
    return c if atom["k"] in ENV_KINDS else None


def render_module(cases: list[dict]) -> tuple[str, dict[int, int], dict[str, tuple[int, int]], dict[str, tuple[int, int]]]:
    """One module for a chunk of cases: the distinct evaluator functions (each probe of a version /
    platform check followed by an ordinary function with the same condition), then one function
    whose parameters carry the argument types and whose body is one call per case.
    Returns (source, {lineno of the call: index in cases}, {function key: (first, last) line of the
    evaluator's definition}, {function key: (first, last) line of the ordinary twin})."""
    out = [HEADER]
    nlines = HEADER.count("\n")
    funcs: dict[str, str] = {}
    types: dict[str, str] = {}
    def_lines: dict[str, tuple[int, int]] = {}
    twin_lines: dict[str, tuple[int, int]] = {}
    for case in cases:
        key = _fkey(case)
        if key not in funcs:
            funcs[key] = f"f{len(funcs)}"
            src = function_src(funcs[key], case)
            def_lines[key] = (nlines + 1, nlines + src.count("\n"))
            nlines += src.count("\n")
            out.append(src)
            cond = twin_atom(case)
            if cond is not None:
                src = f"def t_{funcs[key]}():\n    if {cond_src(cond)}:\n        pass\n"
                twin_lines[key] = (nlines + 1, nlines + 3)
                nlines += 3
                out.append(src)
        for t in (case["ta"], case["tb"]):
            types.setdefault(var_name(t), type_src(t))
    params = [f"{name}: {src}" for name, src in types.items()] + ["args", "kwargs"]
    out.append(f"def caller({', '.join(params)}):\n")
    nlines += 1
    call_lines: dict[int, int] = {}
    for j, case in enumerate(cases):
        nlines += 1
        call_lines[nlines] = j
        out.append(f"    {call_src(funcs[_fkey(case)], case)}\n")
    return "".join(out), call_lines, def_lines, twin_lines


def _fkey(case: dict) -> str:
    return core.canon([case["lines"], case["sig"], case["ann"]])


# --------------------------------------------------------------------------- recording

_installed = False
_current_line: list[Optional[int]] = [None]
_records: dict[int, dict] = {}


def _encode_value(value: Any) -> list[str]:
    from pyanalyze.value import AnyValue, KnownValue, flatten_values, unannotate

    out = []
    for v in flatten_values(unannotate(value)):
        v = unannotate(v)
        if isinstance(v, KnownValue) and isinstance(v.val, str):
            s = v.val
        elif isinstance(v, AnyValue):
            s = "any"
        else:
            s = "?" + str(v)
        if s not in out:
            out.append(s)
    return out


def _encode_position(pos: Any) -> str:
    from pyanalyze import type_evaluation as te

    if isinstance(pos, bool):
        return "?" + repr(pos)
    if isinstance(pos, int):
        return "int"
    if isinstance(pos, str):
        return "kw"
    for name, marker in (("default", te.DEFAULT), ("unknown", te.UNKNOWN), ("args", te.ARGS), ("kwargs", te.KWARGS)):
        if pos is marker:
            return name
    return "?" + repr(pos)


def install_recorder() -> None:
    """Wrap (not replace) the two linearization points: Signature.check_call_with_bound_args (to know
    which call node is being checked) and Evaluator.evaluate (positions in, value and errors out)."""
    global _installed
    if _installed:
        return
    from pyanalyze import signature as sigmod
    from pyanalyze import type_evaluation as te

    orig_check = sigmod.Signature.check_call_with_bound_args
    orig_eval = te.Evaluator.evaluate

    def check_call_with_bound_args(self, preprocessed, bound_args, ctx, **kw):
        node = getattr(ctx, "node", None)
        prev = _current_line[0]
        _current_line[0] = getattr(node, "lineno", None)
        try:
            return orig_check(self, preprocessed, bound_args, ctx, **kw)
        finally:
            _current_line[0] = prev

    def evaluate(self, ctx):
        result, errors = orig_eval(self, ctx)
        line = _current_line[0]
        if line is not None:
            rec = {
                "etypes": _encode_value(result),
                "errs": [e.message for e in errors],
                "pos": {k: _encode_position(v) for k, v in ctx.positions.items()},
            }
            _records.setdefault(line, {"n": 0})
            _records[line].update(rec)
            _records[line]["n"] += 1
        return result, errors

    sigmod.Signature.check_call_with_bound_args = check_call_with_bound_args
    te.Evaluator.evaluate = evaluate
    _installed = True


_modno = [0]


def observe_chunk(cases: list[dict]) -> list[dict]:
    """Runs the real visitor on one module holding the chunk; one `real` record per case."""
    install_recorder()
    code, call_lines, def_lines, twin_lines = render_module(cases)
    _modno[0] += 1
    name = f"c20mod_{_modno[0]}_{id(cases) & 0xFFFF}"
    fname = name + ".py"
    linecache.cache[fname] = (len(code), None, code.splitlines(True), fname)
    _records.clear()
    reals: list[dict] = [
        {"status": "unexpected", "rej": [], "twin": "none", "types": [], "etypes": [], "errs": [], "diag": [],
         "pos": {"a": "?", "b": "?"}, "note": "call not seen"}
        for _ in cases
    ]
    try:
        with warnings.catch_warnings():
            warnings.simplefilter("ignore")
            module = pyz.make_module(code, name=name)
            fails, visitor, tree = pyz.check_source(code, module=module, annotate=True, want_visitor=True)
    except Exception as exc:  # the checker must not raise
        for r in reals:
            r.update(status="exception", note=f"{type(exc).__name__}: {exc}"[:300])
        return reals
    finally:
        linecache.cache.pop(fname, None)
    inferred: dict[int, Any] = {}
    for node in ast.walk(tree):
        if isinstance(node, ast.Call) and isinstance(node.func, ast.Name) and node.func.id.startswith("f"):
            if node.lineno in call_lines:
                inferred[node.lineno] = getattr(node, "inferred_value", None)
    by_line: dict[int, list[dict]] = {}
    stray = []
    owner: dict[int, tuple[str, str]] = {}
    for key, (lo, hi) in def_lines.items():
        for ln in range(lo, hi + 1):
            owner[ln] = ("def", key)
    for key, (lo, hi) in twin_lines.items():
        for ln in range(lo, hi + 1):
            owner[ln] = ("twin", key)
    rejected: dict[str, list[str]] = {}   # diagnostics inside the definition of an evaluator
    def_raised: dict[str, str] = {}       # internal_error inside the definition
    twin_raised: set[str] = set()
    for f in fails:
        ln = f.get("lineno")
        code_name = getattr(f.get("code"), "name", None)
        if ln in call_lines:
            by_line.setdefault(ln, []).append(f)
        elif ln in owner:
            what, key = owner[ln]
            if what == "twin":  # an ordinary function: only "the checker raised" is observed
                if code_name == "internal_error":
                    twin_raised.add(key)
            elif code_name == "internal_error":
                def_raised[key] = str(f.get("description", ""))[-200:]
            else:
                text = re.sub(r"[^A-Za-z0-9_ .,:()\[\]=<>!'-]", "?", str(f.get("description", "")))[:100]
                rejected.setdefault(key, []).append(f"{code_name}: {text}")
        else:
            stray.append(f)
    for ln, j in call_lines.items():
        r = reals[j]
        rec = _records.get(ln)
        diag, notes, status = [], [], "ok"
        key = _fkey(cases[j])
        r["rej"] = rejected.get(key, [])
        if key in twin_lines:
            r["twin"] = "exception" if key in twin_raised else "ok"
        if key in def_raised:
            status = "exception"
            notes.append("at the definition: " + def_raised[key])
        for f in by_line.get(ln, []):
            code_name = getattr(f.get("code"), "name", None)
            desc = str(f.get("description", ""))
            if code_name == "internal_error":
                status = "exception"
                notes.append(desc[:200])
            elif code_name == "incompatible_call" and ": " in desc and desc.split(": ", 1)[1] in (rec or {}).get("errs", []):
                diag.append(desc.split(": ", 1)[1])
            else:
                status = "unexpected" if status == "ok" else status
                notes.append(f"{code_name}: {desc[:200]}")
        if status == "exception":
            pass  # the checker raised: nothing else is observed
        elif rec is None or ln not in inferred or inferred[ln] is None:
            if status == "ok":
                status = "unexpected"
            notes.append("evaluator not reached" if rec is None else "no inferred value")
        else:
            r.update(etypes=rec["etypes"], errs=rec["errs"], pos={"a": rec["pos"].get("a", "?"), "b": rec["pos"].get("b", "?")})
            r["types"] = _encode_value(inferred[ln])
        r["status"] = status
        r["diag"] = diag
        r["note"] = "; ".join(notes)
    if stray:
        note = "; ".join(f"{getattr(f.get('code'), 'name', None)}@{f.get('lineno')}: {str(f.get('description'))[:120]}" for f in stray[:3])
        for r in reals:
            if r["status"] == "ok":
                r["status"] = "unexpected"
                r["note"] = "diagnostic outside the calls: " + note
    return reals


def real_env() -> dict:
    return {"ver": [elem_of(v) for v in tuple(sys.version_info)], "plat": sys.platform}


def cpython_checks(case: dict) -> list[dict]:
    """What real CPython answers for every version / platform check of the body (oracle validation):
    "T" / "F", or "err" when the expression raises TypeError."""
    out = []
    for ln in case["lines"]:
        for atom in env_atoms(ln["c"]):
            try:
                v = "T" if eval(cond_src(atom), {"sys": sys}) else "F"
            except TypeError:
                v = "err"
            out.append({"a": atom, "v": v})
    return out


def _observe_worker(chunk: list[dict]) -> list[dict]:
    return observe_chunk(chunk)


def observe(cases: list[dict], chunk: int = 400) -> list[dict]:
    import pyanalyze  # noqa: F401  (import before forking)

    cases.sort(key=_fkey)  # calls of the same evaluator share one definition in the realised module
    chunks = [cases[i : i + chunk] for i in range(0, len(cases), chunk)]
    if len(chunks) <= 2:
        parts = [observe_chunk(c) for c in chunks]
    else:
        parts = core.pmap(_observe_worker, chunks, procs=min(core.NCPU, 14), chunk=1)
    reals = [r for part in parts for r in part]
    env = real_env()
    return [
        {"tid": tid, "case": case, "env": env, "real": real, "cpy": cpython_checks(case)}
        for tid, (case, real) in enumerate(zip(cases, reals))
    ]


# --------------------------------------------------------------------------- adjudication


_MODEL_ENV_LINE = 'ModelEnv == [ver |-> <<EI(3), EI(12), EI(1), ES(5), EI(0)>>, plat |-> "linux"]'


def _model_env_files() -> dict[str, str]:
    """TypeEval.tla with ModelEnv replaced by the running interpreter's (version, platform), so that
    the version tuples TLC enumerates are built around the version the real code runs on.  Nothing to
    do on CPython 3.12.1 final / linux, which the module spells out."""
    env = real_env()
    elems = ", ".join(("EI(%d)" if e["k"] == "i" else "ES(%d)") % e["n"] for e in env["ver"])
    line = f'ModelEnv == [ver |-> <<{elems}>>, plat |-> "{env["plat"]}"]'
    if line == _MODEL_ENV_LINE:
        return {}
    text = (core.SPEC / "TypeEval.tla").read_text()
    if text.count(_MODEL_ENV_LINE) != 1:
        raise core.MachineryError("TypeEval.tla: the ModelEnv definition is not the one the driver knows")
    return {"TypeEval.tla": text.replace(_MODEL_ENV_LINE, line)}


def _cfg(name: str, seed: Optional[int] = None) -> Optional[dict[str, str]]:
    """The cfg with run-dependent constants filled in: EmitRes (which residue class of body hashes is
    emitted for replay) from the seed, and -- for experiments with proposed repairs applied to a copy
    of the repository (VERIF_REPO) -- Fixed from VERIF_C20_FIXED=boolop,exact,ell; plus TypeEval.tla
    with the running interpreter as ModelEnv when it is not the one written in the module."""
    files = _cfg_only(name, seed) or {}
    files.update(_model_env_files())
    return files or None


def _cfg_only(name: str, seed: Optional[int] = None) -> Optional[dict[str, str]]:
    text = (core.SPEC / "mc" / name).read_text()
    orig = text
    fixed = [x for x in os.environ.get("VERIF_C20_FIXED", "").split(",") if x]
    if fixed:
        text = text.replace("Fixed = {}", "Fixed = {" + ", ".join(f'"{x}"' for x in fixed) + "}")
    m = re.search(r"EmitMod = (\d+)", text)
    if m and seed is not None:
        text = re.sub(r"EmitRes = \d+", f"EmitRes = {seed % int(m.group(1))}", text)
    return {name: text} if text != orig else None


def _family_atom(a: dict) -> bool:
    """A member of the condition families other than the everyday `sys.version_info >= / < (M, m)`,
    `sys.platform == / !=`, `arg == / != / is / is not 1 | "x" | None`."""
    k = a["k"]
    if k == "ver":
        return a["sc"] or a["op"] not in ("ge", "lt") or len(a["tup"]) != 2 or any(e["k"] != "i" for e in a["tup"])
    if k == "cmp":
        return a["op"] in ("lt", "ge") or a["lit"] in ("LT", "LE", "X")
    return k in ("veri", "platin", "platsw", "cmpin", "chain", "cmprev", "bare")


def _nontrivial(case: dict) -> bool:
    return (len(case["ta"]) > 1 or len(case["tb"]) > 1 or "Any" in case["ta"] + case["tb"]
            or case["call"]["star"] or case["call"]["dstar"]
            or any(_family_atom(a) for ln in case["lines"] for a in all_atoms(ln["c"])))


def adjudicate(obs: list[dict]) -> tuple[dict, dict]:
    return core.adjudicate("TypeEvalTrace", "TypeEvalTrace.cfg", obs, batch=4000, parallel=min(core.NCPU, 12),
                           timeout=1800, extra_files=_cfg("TypeEvalTrace.cfg"))


def judge(check: core.Check, cases: list[dict], label: str) -> None:
    if not cases:
        return
    obs = observe(cases)
    bad = [o for o in obs if o["real"]["status"] == "unexpected"]
    if bad:
        o = bad[0]
        raise core.MachineryError(
            f"{len(bad)} realised case(s) produced an unexpected diagnostic, e.g. {o['real']['note']!r} for "
            f"{function_src('f', o['case'])!r} / {call_src('f', o['case'])}"
        )
    verdicts, stats = adjudicate(obs)
    check.add_trace_stats(stats)
    check.evals(len(obs))
    for o in obs:
        c = o["case"]
        if _nontrivial(c):
            check.nontrivial(core.canon(c))
        for v in verdicts.get(o["tid"], []):
            payload = {"case": c, "real": o["real"], "env": o["env"], "source": label,
                       "function": function_src("f", c), "call": call_src("f", c),
                       "argument_types": {var_name(c["ta"]): type_src(c["ta"]), var_name(c["tb"]): type_src(c["tb"])}}
            if v.startswith("viol:"):
                check.violation(core.canon(c), v[5:], payload)
            elif v.startswith("dev:"):
                check.violation(v[4:], v[4:], payload)
            elif v.startswith("drift:"):
                check.drift({"verdict": v, **payload})
            elif v.startswith("oracle:"):
                raise core.MachineryError(f"oracle model disagrees with real CPython ({v}) on {c!r}: {o['cpy']!r}")
            else:
                raise core.MachineryError(f"unknown verdict {v!r}")
    for o in obs[:: max(1, len(obs) // 2)][:2]:
        check.sample({"source": label, "function": function_src("f", o["case"]), "call": call_src("f", o["case"]),
                      "real": o["real"]})


ACTIONS = ["AddLeaf", "AddElse", "AddIf", "StartProbe", "EndBody", "ChooseSig", "ChooseCall", "ChooseTypes"]


def _is_probe2(case: dict) -> bool:
    ls = case["lines"]
    return len(ls) == 6 and [x["k"] for x in ls] == ["if", "err", "ret", "else", "err", "ret"] and [x["ind"] for x in ls] == [0, 1, 1, 0, 1, 1]


def _is_probe(case: dict) -> bool:
    ls = case["lines"]
    if _is_probe2(case) and all_atoms(ls[0]["c"])[0]["k"] not in ("kind", "oft"):
        return True
    return len(ls) == 3 and ls[0]["k"] == "if" and ls[1]["k"] == "ret" and ls[2]["k"] == "ret" and ls[2]["ind"] == 0 and (
        ls[0]["c"]["k"] in ("kind", "ver", "plat") or (ls[0]["c"]["k"] == "not" and ls[0]["c"]["c"]["k"] in ("kind", "ver", "plat"))
    )


def run(check: core.Check) -> None:
    quick = check.tier == "quick"
    rnd = random.Random(check.seed)
    check.assumptions += [
        "TLC and the TLA+ definitions of TypeEval.tla: Ref* written from docs/type_evaluation.md (argument kinds, "
        "compatibility on the atoms Literal[1], Literal[2], Literal['x'], Literal['y'], None, int, str, Any; one "
        "execution per combination of union members)",
        "every parameter of the generated evaluators is annotated Union[int, str, None]; return statements return "
        "distinct string literals and show_error messages are distinct, so that the executed leaves are observable",
        "parameters that may be filled from *args/**kwargs of unknown size are only tested with the argument-kind "
        "primitives (the documentation does not define their type)",
        "Evaluator.evaluate and Signature.check_call_with_bound_args are wrapped in the harness process to record "
        "positions, returned value and every UserRaisedError (the visitor de-duplicates diagnostics per call node)",
        "version / platform checks mean what the expression means in Python on the running interpreter "
        f"({'.'.join(map(str, sys.version_info[:3]))} {sys.version_info[3]} / {sys.platform}); TypeEval!PyEnvEval (tuple "
        "comparison element by element with TypeError for int against str / None, strings ordered as in "
        "TypeEval!StrTab) is checked against real CPython for every recorded check (verdict oracle:sys-check)",
        "a condition that is not one of the forms listed under 'Conditions in if statements may contain' must be "
        "reported inside the evaluator's definition and must never make the checker raise; what a call to a rejected "
        "evaluator returns is not specified (compared with the model only, as drift); forms the text leaves open "
        "(sys.platform in (..), .startswith, ill-typed version tuples that Python still compares) may be rejected, and "
        "mean what Python says if accepted",
    ]
    # quick3: the two-union-argument slice (and/or over both parameters + a re-test), replayed in full
    cfgs = ["TypeEval.quick1.cfg", "TypeEval.quick2.cfg", "TypeEval.quick3.cfg"] if quick else [
        "TypeEval.thorough1.cfg", "TypeEval.thorough2.cfg", "TypeEval.thorough3.cfg"]
    # the condition families (version / platform checks, comparisons): every member as a probe, a core
    # subset in generated bodies
    fam_cfgs = [f"TypeEval.cond{i}.cfg" for i in (1, 2, 3, 4)] if quick else [f"TypeEval.condt{i}.cfg" for i in (1, 2, 3, 4)]
    workers = max(4, (core.NCPU - 4) // len(cfgs))
    cfgs += fam_cfgs

    SENS = (("TypeEval.strict1.cfg", "EvalFollowsSpecStrict"), ("TypeEval.strict2.cfg", "OverApproximatesStrict"),
            ("TypeEval.sens.cfg", "EvalFollowsSpec"),
            ("TypeEval.condstrict1.cfg", "StatusFollowsSpecStrict"),
            ("TypeEval.condsens1.cfg", "EvalFollowsSpec"), ("TypeEval.condsens3.cfg", "EvalFollowsSpec"),
            # the code before repo 2abb651 / fdb4789 (no generic_visit; an invalid `or` operand raises)
            ("TypeEval.condsens4.cfg", "EvalFollowsSpec"), ("TypeEval.condsens5.cfg", "EvalFollowsSpec"))
    if not quick:  # truncation to three elements
        SENS += (("TypeEval.condsens2.cfg", "EvalFollowsSpec"),)
    num = 60 if quick else 1500  # behaviours; TLC evaluates EmitDone on every successor it generates

    def tlc_job(cfg: str) -> core.TLCResult:
        if cfg == "TypeEval.cov.cfg":  # vacuity control: the generator alone, with -coverage
            return core.run_tlc("TypeEval", cfg, coverage=True, workers=2, timeout=3000)
        if cfg in [c for c, _ in SENS]:
            return core.run_tlc("TypeEval", cfg, workers=2, timeout=900, extra_files=_cfg(cfg))
        if cfg in fam_cfgs:  # small state spaces: few workers, so that the long runs keep theirs
            return core.run_tlc("TypeEvalEmit", cfg, workers=2 if quick else 5, timeout=3000,
                                extra_files=_cfg(cfg, check.seed), heap="10g")
        if cfg == "TypeEval.sim.cfg":
            return core.run_tlc("TypeEvalEmit", cfg, workers=1 if quick else 3, simulate=f"num={num}", depth=16,
                                seed=check.seed + 20, timeout=2400, extra_files=_cfg(cfg))
        return core.run_tlc("TypeEvalEmit", cfg, workers=workers, timeout=3000, extra_files=_cfg(cfg, check.seed), heap="10g")

    # TLC's -coverage cost model expands every operator per call path and exhausts the heap on the
    # mutually recursive interpreters; action coverage is therefore taken from a run of the generator
    # without the invariants, and the invariants' antecedent (stage = "done") is exercised once per
    # emitted case.
    # one thread runs the (short, expected-to-fail) sensitivity configurations one after the other, and
    # one the two smaller family configurations: fewer JVMs at the same time
    def chain(names: list[str]) -> list[core.TLCResult]:
        return [tlc_job(n) for n in names]

    sens_names = [c for c, _ in SENS]
    chained = fam_cfgs[1::2] if quick else fam_cfgs[0::2]  # the two smaller ones of the tier
    singles = [c for c in cfgs if c not in chained] + ["TypeEval.cov.cfg", "TypeEval.sim.cfg"]
    with ThreadPoolExecutor(len(singles) + 2) as ex:
        f_sens = ex.submit(chain, sens_names)
        f_fam = ex.submit(chain, chained)
        by_cfg = dict(zip(singles, ex.map(tlc_job, singles)))
        by_cfg.update(zip(sens_names, f_sens.result()))
        by_cfg.update(zip(chained, f_fam.result()))
    results = [by_cfg[c] for c in cfgs] + [by_cfg["TypeEval.cov.cfg"]]
    cov = core.require_ok(results.pop(), "TypeEval generator coverage")
    core.require_coverage(cov, ACTIONS, "TypeEval.cov.cfg")
    check.add_tlc("coverage:TypeEval.cov.cfg", cov)
    cases: list[dict] = []
    sampled = False
    dense_keys: set[str] = set()
    fam_keys: set[str] = set()
    for cfg, res in zip(cfgs, results):
        core.require_ok(res, "TypeEval exhaustive " + cfg)
        emitted = core.emitted_json(res)
        if not emitted:
            raise core.MachineryError(f"no cases emitted by {cfg} (invariants vacuous)")
        mod_ = int(re.search(r"EmitMod = (\d+)", (core.SPEC / "mc" / cfg).read_text()).group(1))
        sampled = sampled or mod_ > 1
        check.add_tlc("exhaustive:" + cfg, res, emitted_cases=len(emitted), emitted_body_fraction=f"1/{mod_}")
        if cfg == "TypeEval.quick3.cfg":
            dense_keys.update(core.canon(c) for c in emitted)
        if cfg in fam_cfgs:
            fam_keys.update(core.canon(c) for c in emitted)
        cases += emitted
    uniq = {core.canon(c): c for c in cases}
    cases = list(uniq.values())
    check.cov["model_cases"] = len(cases)
    # sensitivity: the deviations are real on the model, and a plausible bug is caught by the invariant
    for cfg, inv in SENS:
        r = by_cfg[cfg]
        if r.violated != inv and not os.environ.get("VERIF_C20_FIXED"):
            raise core.MachineryError(f"sensitivity self-test failed: {inv} not violated under {cfg}: {r.error}")
    check.cov["sensitivity"] = (
        "EvalFollowsSpecStrict and OverApproximatesStrict are violated on the model (the named deviations are real); "
        "with Bug = any_matches (exclude_any ignored in the Impl model) EvalFollowsSpec is violated; on the condition "
        "families StatusFollowsSpecStrict is violated (the remaining accept/reject deviation, the rejected subscript check, is "
        "real), EvalFollowsSpec is violated with Bug = nogenvisit / noornull (the evaluator before repo 2abb651 / fdb4789: a bare "
        "expression as a condition is not rejected and raises at the call; an invalid `or` operand raises), and it is "
        "violated with Bug = ver2 (and, thorough tier, ver3: sys.version_info truncated to two / three elements before the comparison) "
        "and Bug = pyeq (literals compared with Python's ==, so that 1, True and an IntEnum member of value 1 coincide)"
    )
    # S->C replay, adjudicated by TLC
    limit = 20000 if quick else 300000
    fam_limit = 6000 if quick else 60000
    probes = [c for c in cases if _is_probe(c) or core.canon(c) in dense_keys]  # always replayed
    others = [c for c in cases if not (_is_probe(c) or core.canon(c) in dense_keys)]
    # generated bodies of the condition families: their own replay budget, whole evaluators, seeded
    fam_bodies = [c for c in others if core.canon(c) in fam_keys]
    others = [c for c in others if core.canon(c) not in fam_keys]
    check.cov["family_probe_cases"] = sum(1 for c in probes if _is_probe2(c))
    check.cov["family_body_cases"] = len(fam_bodies)
    fam_exhaustive = len(fam_bodies) <= fam_limit
    if not fam_exhaustive:
        fgroups: dict[str, list[dict]] = {}
        for c in fam_bodies:
            fgroups.setdefault(_fkey(c), []).append(c)
        fkeys = sorted(fgroups)
        random.Random(check.seed + 7).shuffle(fkeys)
        fam_bodies = []
        for k in fkeys:
            if len(fam_bodies) >= fam_limit:
                break
            fam_bodies += fgroups[k]
    check.cov["family_body_cases_replayed"] = len(fam_bodies)
    if not check.cov["family_probe_cases"] or not fam_bodies:
        raise core.MachineryError("the condition families produced no probe / no body case (vacuous)")
    probes += fam_bodies
    cases_n = len(cases) - len(fam_keys)
    exhaustive = cases_n - len(dense_keys) <= limit and not sampled and fam_exhaustive
    if cases_n - len(dense_keys) > limit:  # sample whole evaluator functions (all their calls), seeded
        groups: dict[str, list[dict]] = {}
        for c in others:
            groups.setdefault(_fkey(c), []).append(c)
        keys = sorted(groups)
        rnd.shuffle(keys)
        others = []
        for k in keys:
            if len(others) + len(probes) - len(dense_keys) - len(fam_bodies) >= limit:  # the dense slice and the families are on top of the limit
                break
            others += groups[k]
    check.cov["exhaustive"] = exhaustive
    check.cov["replayed_cases"] = len(probes) + len(others)
    check.cov["rule"] = (
        "cases = states with stage=done of TypeEval.tla (body x signature x call shape x argument types); all probe "
        "cases (every argument-kind primitive under every signature x call shape, every version/platform check) are "
        "replayed, and so is every case of the two-union-argument slice TypeEval.quick3.cfg (quick tier); of the other cases TLC emits all (quick) or the evaluator bodies in one seeded residue class of a "
        "structural hash (thorough: 1/16, 1/4), which are replayed up to the replay limit; "
        "condition families (TypeEval.cond*.cfg, profiles cenv / ccmp): every member -- sys.version_info <op> rhs for the six "
        "comparison operators x 36 tuples of length 1..5 built from (major, minor, micro) of the running interpreter +-1, "
        "release levels beta/final/x and serial 0/1, 8 ill-typed / empty / too long tuples, 4 non-tuple right-hand sides "
        "(int, str, None, non-literal); sys.version_info[0|1] <op> n; sys.platform ==, !=, in, not in, .startswith; arg <op> "
        "literal for ==, !=, is, is not, <, >= x literals 1, 'x', None, True, IntEnum member, non-literal; arg [not] in (..), "
        "chained comparisons, constant == arg, bare expressions -- plain and negated, as a probe `if c: show_error; return / "
        "else: show_error; return` (comparison probes under 12 argument types incl. Literal[True], Literal[E.A], unions, Any), "
        "all replayed; plus a core subset of 11 / 7 members combined with not/and/or and an argument comparison in generated "
        + ("bodies (<= 4 lines with <= 2 single-condition ifs, or <= 3 lines with one two-operand condition; nesting, elif/else, "
           "fall-through), " if quick else
           "bodies (<= 5 lines with <= 2 single-condition ifs, or <= 4 lines with <= 2 ifs and <= 3 conditions, two-operand "
           "and/or; bodies emitted for replay: one seeded residue class of 4 resp. 16), ")
        + f"TLC-checked in full and replayed up to {fam_limit} cases (whole evaluators, seeded); non-trivial = "
        "a union-typed or Any argument, a call with *args/**kwargs, or a condition of the families other than the everyday "
        "forms (>= / < a two-int tuple, platform == / !=, arg ==, !=, is, is not 1 | 'x' | None)"
    )
    judge(check, probes + others, "tlc-exhaustive")
    # beyond the exhaustive bound: random simulation over the full grammar
    sim = core.require_ok(by_cfg["TypeEval.sim.cfg"], "TypeEval simulate")
    check.add_tlc("simulate:TypeEval.sim.cfg", sim)
    suniq = {core.canon(c): c for c in core.emitted_json(sim)}
    check.cov["simulated_cases"] = len(suniq)
    if len(suniq) < num:
        raise core.MachineryError(f"simulation produced only {len(suniq)} distinct cases")
    judge(check, list(suniq.values()), "tlc-simulate")
    selftest_binding(check, cases=probes[:3] + others[:40])
    fam_probes = [c for c in probes if _is_probe2(c)]
    selftest_family(check, fam_probes[:: max(1, len(fam_probes) // 150)])


def selftest_binding(check: core.Check, cases: Optional[list[dict]] = None) -> None:
    """Corrupt one recorded field per observation and require TLC's verdict to flag it."""
    if cases is None:
        res = core.require_ok(core.run_tlc("TypeEvalEmit", "TypeEval.quick1.cfg", timeout=900, extra_files=_cfg("TypeEval.quick1.cfg")), "emit")
        cases = core.emitted_json(res)[:60]
    obs = observe(cases)
    clean, _ = adjudicate(obs)
    hits = 0
    corrupted = []
    for k, o in enumerate(obs):
        if clean.get(o["tid"]) or o["real"]["status"] != "ok":
            continue
        r = dict(o["real"])
        mode = k % 3
        if mode == 0:
            r["types"] = r["types"] + ["r99"]
        elif mode == 1:
            r["errs"] = r["errs"] + ["e99"]
        else:
            r["pos"] = {"a": "kw" if r["pos"]["a"] in ("int", "args") else "int", "b": r["pos"]["b"]}
        corrupted.append({**o, "real": r})
    verdicts, _ = adjudicate(corrupted)
    for o in corrupted:
        if any(v.startswith("viol:") for v in verdicts.get(o["tid"], [])):
            hits += 1
    if not corrupted or hits != len(corrupted):
        raise core.MachineryError(f"binding self-test failed: {hits} of {len(corrupted)} corrupted observations flagged")
    check.cov["binding_selftest"] = f"{hits} of {len(corrupted)} corrupted observations (type / error / position field) rejected by TLC"
    print(f"C20 binding self-test: {hits}/{len(corrupted)} corrupted observations rejected")


def selftest_family(check: core.Check, cases: list[dict]) -> None:
    """The clauses on accepting / rejecting conditions are not vacuous: corrupt the recorded field each
    of them reads (and the recorded CPython value the oracle is checked against) and require TLC to
    answer with exactly that clause."""
    obs = observe(cases)
    clean, _ = adjudicate(obs)
    corrupted, want = [], {}

    def plainly_valid(a: dict) -> bool:  # a condition the specification defines (no "either" form)
        if a["k"] == "ver":
            return (not a["sc"] and 1 <= len(a["tup"]) <= 5
                    and all(e["k"] == ("s" if i == 3 else "i") for i, e in enumerate(a["tup"])))
        return a["k"] in ("plat", "cmp")

    for o in obs:
        vs = clean.get(o["tid"], [])
        if vs or o["real"]["status"] != "ok":
            continue  # only observations that are plainly fine
        atom = all_atoms(o["case"]["lines"][0]["c"])[0]
        for k in [(len(corrupted) + d) % 5 for d in range(5)]:
            r = dict(o["real"])
            if k == 0 and r["rej"] and atom["k"] != "platsw":
                r["rej"], clause = [], "viol:InvalidConditionNotRejected"
            elif k == 1 and not r["rej"] and plainly_valid(atom):
                r["rej"], clause = ["bad_evaluator: made up"], "viol:ValidConditionRejected"
            elif k == 2:
                r["status"], clause = "exception", "viol:CheckerRaised"
            elif k == 3 and r["twin"] == "ok":
                r["twin"], clause = "exception", "viol:OrdinaryCheckRaised"
            elif k == 4 and o["cpy"]:
                cp = [dict(x) for x in o["cpy"]]
                cp[0]["v"] = {"T": "F", "F": "err", "err": "T"}[cp[0]["v"]]
                corrupted.append({**o, "cpy": cp})
                want[o["tid"]] = "oracle:sys-check"
                break
            else:
                continue
            corrupted.append({**o, "real": r})
            want[o["tid"]] = clause
            break
    verdicts, _ = adjudicate(corrupted)
    hits = {c: 0 for c in set(want.values())}
    for tid, clause in want.items():
        if clause in verdicts.get(tid, []):
            hits[clause] += 1
    total = {c: sum(1 for v in want.values() if v == c) for c in hits}
    need = {"viol:InvalidConditionNotRejected", "viol:ValidConditionRejected", "viol:CheckerRaised", "viol:OrdinaryCheckRaised",
            "oracle:sys-check"}
    if set(hits) != need or any(hits[c] != total[c] for c in hits):
        raise core.MachineryError(f"family self-test failed: flagged {hits} of {total} (clauses needed: {sorted(need)})")
    check.cov["family_selftest"] = "; ".join(f"{c}: {hits[c]}/{total[c]}" for c in sorted(hits)) + " corrupted observations flagged by TLC"
    print("C20 family self-test: " + check.cov["family_selftest"])


def replay(check: core.Check, witness: dict) -> None:
    judge(check, [witness["case"]], "replay")
