"""C16 part C -- fixes as operations on the TEXT of a file (spec/FixLayout.tla, trace spec FixLayoutTrace.tla).

TLC enumerates fix kind x layout of the fixable statement over physical lines x block context x line(s) before x
line(s) after x end-of-file position, proves the Impl model of get_line_range_for_node / replace_node / remove_node /
the add-ignores insertion / _apply_changes_to_lines against the Ref extent outside the named deviation classes, and
emits the cases.  This driver renders each case as a real file, runs the real fixer
(check_for_test(apply_changes=True), re-run to the fixpoint; for a sample also `python -m pyanalyze -r` on a temp file)
and records, per file: the lexical facts of every physical line (CPython's tokenizer), the statement's extent
(CPython's parser), the Replacement handed to _apply_changes_to_lines (linenos_to_delete, len(lines_to_add)), the
common prefix/suffix of old and new text, whether the new text parses, whether its AST is the AST of the program with
the intended change, whether the diagnostic is gone and the loop ends clean.  FixLayoutTrace.tla judges.
Called from c16.run()."""
from __future__ import annotations

import ast
import contextlib
import io
import os
import subprocess
import sys
import tokenize
from typing import Any, Optional

from .. import core, pyz

FIX_SETTINGS = {"missing_f": True, "use_fstrings": True, "unused_variable": True, "too_many_positional_args": True,
                "missing_await": True}
OPTIONS = {"maximum_positional_args": 2}
CODE_OF = {"unused_comp": "unused_variable", "ignore": "undefined_name"}
MAX_ITER = 5

HELPERS = [
    "BOX: list[object] = [0]",
    "def g3(a: int, b: int, c: int) -> object: return (a, b, c)",
    "async def acoro(a: object) -> object: return a",
    "def deco(a: object): return lambda f: f",
]
# fixable expression of a kind: (as written, after the intended fix)
EXPR = {
    "unused_variable": ("0", "0"),
    "unused_comp": ("[0 for q in range(2)]", "[0 for _ in range(2)]"),
    "use_fstrings": ('"v %s" % n', 'f"v {n}"'),
    "missing_f": ('"hello {name}"', 'f"hello {name}"'),
    "too_many_positional_args": ("g3(n, n, 2)", "g3(a=n, b=n, c=2)"),
    "missing_await": ("0", "0"),
    "ignore": ("(lambda: zz_undefined)", "(lambda: zz_undefined)"),
}
BASE = {"module": 0, "def": 1}


# --------------------------------------------------------------------------- rendering
# a rendered line is (level, text): level = indentation in units of four blanks; None = column 0 regardless of block


def _stmt(kind: str, layout: str, block: str, fixed: bool) -> list[tuple[Optional[int], str]]:
    e = EXPR[kind][1 if fixed else 0]
    if kind == "use_fstrings" and block == "module":
        e = 'f"v {__name__}"' if fixed else '"v %s" % __name__'
    lhs, o, c = "BOX[0] = ", "[", "]"
    if block == "module":
        lhs = "R = "
    if kind == "unused_variable":
        lhs = "uv = "
    if kind == "missing_await":
        lhs, o, c = "", ("await " if fixed else "") + "acoro([", "])"
    core_ = f"{lhs}{o}{e}, 1{c}"
    table: dict[str, list[tuple[Optional[int], str]]] = {
        "single": [(0, core_)],
        "trail_comment": [(0, core_ + "  # note")],
        "comment_dq": [(0, core_ + '  # see """')],
        "str_dq": [(0, f'{lhs}{o}{e}, """s"""{c}')],
        "str_sq": [(0, f"{lhs}{o}{e}, '''s'''{c}")],
        "paren_close": [(0, f"{lhs}{o}"), (1, f"{e}, 1,"), (0, c)],
        "paren_hang": [(0, f"{lhs}{o}{e},"), (1, f"1{c}")],
        "paren_flush": [(0, f"{lhs}{o}{e},"), (0, f"1{c}")],
        "backslash": [(0, f"{core_} + \\"), (1, "[2]")],
        "backslash_flush": [(0, f"{core_} + \\"), (0, "[2]")],
        "tq_lone": [(0, f'{lhs}{e}, """'), (0, "text"), (0, '"""')],
        "tq_lone_sq": [(0, f"{lhs}{e}, '''"), (None, "text"), (None, "'''")],
        "tq_closeparen": [(0, f'{lhs}dict(a={e}, b="""'), (None, "text"), (None, '""")')],
        "tq_later_lone": [(0, f"{lhs}{e}, \\"), (1, '"""'), (None, "text"), (None, '"""')],
        "tq_later_lone_sqfirst": [(0, f"{lhs}{e}, '''s''', \\"), (1, '"""'), (None, "text"), (None, '"""')],
        "if_header": [(0, f"if {e}:"), (1, "str(5)")],
        "deco_def": [(0, f"@deco({e})"), (0, "def g() -> int:"), (1, "return 1")],
        "semi_before": [(0, f"str(7); {core_}")],
        "semi_after": [(0, f"{core_}; str(7)")],
        "oneline_if": [(0, f"if n: {core_}")],
        "bs_second": [(0, f"{lhs}[1, 2] + \\"), (1, f"[{e}]")],
        "fstr_multi": [(0, f'{lhs}f"""'), (None, "{" + e + "}"), (None, '"""')],
        "tq_then_diag": [(0, f'{lhs}dict(a="""'), (None, "text"), (None, f'""", b={e})')],
        "deco2_def": [(0, "@deco(1)"), (0, f"@deco({e})"), (0, "def g() -> int:"), (1, "return 1")],
    }
    return table[layout]


def _removed(layout: str, only: bool) -> list[tuple[Optional[int], str]]:
    """The intended text after removing the statement (removal kinds)."""
    if layout in ("semi_before", "semi_after"):
        return [(0, "str(7)")]
    if layout == "oneline_if":
        return [(0, "if n: pass")]
    return [(0, "pass")] if only else []


BEFORE = {
    "none": [],
    "stmt": [(0, "str(3)")],
    "comment": [(0, "# before")],
    "blank": [(0, "str(3)"), (None, "")],
    "paren_stmt": [(0, "str("), (1, "3"), (0, ")")],
    "bs_stmt": [(0, "str(3) or \\"), (1, "str(4)")],
    "dq_block": [(0, '"""'), (0, "a note before"), (0, '"""')],
    "doc1": [(0, '"""one line before"""')],
}
AFTER = {
    "none": [],
    "stmt": [(0, "str(1)")],
    "blank": [(None, ""), (0, "str(1)")],
    "comment": [(0, "# after")],
    "comment_deep": [(1, "# deeper note"), (0, "str(1)")],
    "dq_block": [(0, '"""'), (0, "a note"), (0, '"""')],
    "sq_block": [(0, "'''"), (0, "a note"), (0, "'''")],
    "dq_block_deep": [(0, '"""'), (1, "a deeper note"), (0, '"""')],
    "doc1": [(0, '"""one line"""')],
    "bs_stmt": [(0, "str(1) or \\"), (1, "str(2)")],
    "deco_def": [(0, "@deco(0)"), (0, "def h() -> int:"), (1, "return 2")],
    "two_blocks": [(0, '"""'), (0, "first"), (0, '"""'), (0, "str(1)"), (0, '"""'), (0, "second"), (0, '"""')],
}


def _frame(block: str, is_async: bool) -> tuple[list[str], int, list[str]]:
    d = "async def" if is_async else "def"
    fx = f"{d} fx(name: str, n: int) -> None:"
    if block == "module":
        return [], 0, []
    if block == "def":
        return [fx], 1, []
    if block == "if":
        return [fx, "    if n:"], 2, ["    str(9)"]
    if block == "if_else":
        return [fx, "    if n:"], 2, ["    else:", "        str(9)"]
    if block == "try":
        return [fx, "    try:"], 2, ["    except Exception:", "        str(9)"]
    if block == "for":
        return [fx, "    for _i in range(n):"], 2, ["    str(9)"]
    if block == "with":
        return [fx, "    with open(name) as _fh:"], 2, ["    str(9)"]
    if block == "class_method":
        return ["class K:", f"    {d} m(self, name: str, n: int) -> None:"], 2, []
    if block == "nested_def":
        return ["def outer(name: str, n: int) -> None:", f"    {d} fx() -> None:"], 2, []
    raise core.MachineryError(f"unknown block {block}")


def render(case: dict, fixed: bool = False) -> str:
    kind, layout, block = case["kind"], case["layout"], case["block"]
    head, b, foot = _frame(block, kind == "missing_await")
    before, after = BEFORE[case["before"]], AFTER[case["after"]]
    if fixed and kind == "unused_variable":
        only = block != "module" and case["before"] in ("none", "comment") and case["after"] in ("none", "comment")
        stmt = _removed(layout, only)
    else:
        stmt = _stmt(kind, layout, block, fixed)
    body = ["" if not t and lv is None else ("    " * (b + lv) if lv is not None else "") + t
            for lv, t in [*before, *stmt, *after]]
    if case["eof"] == "no":
        lines = [*head, *body, *foot, *HELPERS]
    else:
        lines = [*HELPERS, *head, *body, *foot]
    text = "\n".join(lines)
    return text if case["eof"] == "nonl" else text + "\n"


# --------------------------------------------------------------------------- lexical facts of the real text


def lex_attrs(src: str) -> list[dict]:
    lines = src.split("\n")
    if lines and lines[-1] == "":
        lines.pop()
    n = len(lines)
    instr = [False] * (n + 2)
    has_comment = [False] * (n + 2)
    fstart: list[int] = []
    for tok in tokenize.generate_tokens(io.StringIO(src).readline):
        name = tokenize.tok_name[tok.type]
        if name == "STRING":
            for r in range(tok.start[0] + 1, tok.end[0] + 1):
                instr[r] = True
        elif name == "FSTRING_START":
            fstart.append(tok.start[0])
        elif name == "FSTRING_END":
            s = fstart.pop()
            if not fstart:
                for r in range(s + 1, tok.end[0] + 1):
                    instr[r] = True
        elif name == "COMMENT":
            has_comment[tok.start[0]] = True
    out = []
    for k, line in enumerate(lines, 1):
        stripped = line.strip()
        lead = len(line) - len(line.lstrip())
        if stripped and (lead % 4 or line[:lead] != " " * lead):
            raise core.MachineryError(f"renderer produced an indentation outside the model: {line!r}")
        head = "none" if not stripped else ("closer" if stripped[0] in ")]}" else "other")
        lone = "dq" if stripped == '"""' else ("sq" if stripped == "'''" else "")
        bs = line.endswith("\\") and not has_comment[k] and not instr[k + 1]
        out.append({"ind": lead // 4 if stripped else 0, "head": head, "lone": lone, "dq": '"""' in line,
                    "sq": "'''" in line, "bs": bool(bs), "instr": bool(instr[k])})
    return out


# --------------------------------------------------------------------------- the real fixer

_CAPTURED: list[list] = []


def _install_capture() -> None:
    """Record the `changes` argument of every _apply_changes_to_lines call (observation only: the original
    classmethod is called unchanged)."""
    from pyanalyze.node_visitor import BaseNodeVisitor

    if BaseNodeVisitor.__dict__.get("_verif_c16c_wrapped"):
        return
    orig = BaseNodeVisitor.__dict__["_apply_changes_to_lines"].__func__

    def wrapper(cls, changes, input_lines):
        _CAPTURED.append([(list(ch.linenos_to_delete), None if ch.lines_to_add is None else list(ch.lines_to_add))
                          for ch in changes])
        return orig(cls, changes, input_lines)

    BaseNodeVisitor._apply_changes_to_lines = classmethod(wrapper)
    BaseNodeVisitor._verif_c16c_wrapped = True


def check_and_fix(src: str, ignore_mode: bool):
    """One run of the checker with the fixer.  Returns (brief diagnostics, new text, captured changes)."""
    from pyanalyze.name_check_visitor import NameCheckVisitor

    _install_capture()
    checker = pyz.get_checker({} if ignore_mode else FIX_SETTINGS, options=None if ignore_mode else OPTIONS)
    module = pyz.make_module(src)
    tree = ast.parse(src)
    del _CAPTURED[:]
    with contextlib.redirect_stderr(io.StringIO()), contextlib.redirect_stdout(io.StringIO()):
        v = NameCheckVisitor(module.__name__ + ".py", src, tree, module=module, checker=checker,
                             add_ignores=ignore_mode)
        result, new_src = v.check_for_test(apply_changes=True)
    changes = _CAPTURED[-1] if _CAPTURED else []
    return pyz.brief(result), new_src, changes


def _span(node: ast.stmt) -> tuple[tuple[int, int], tuple[int, int]]:
    start = (node.lineno, node.col_offset)
    for d in getattr(node, "decorator_list", []):
        start = min(start, (d.lineno, d.col_offset - 1))
    return start, (node.end_lineno, node.end_col_offset)


def _target_statement(tree: ast.AST, line: int, col: int) -> ast.stmt:
    best = None
    for node in ast.walk(tree):
        if isinstance(node, ast.stmt):
            s, e = _span(node)
            if s <= (line, col) < e and (best is None or _span(best)[0] <= s):
                best = node
    if best is None:
        raise core.MachineryError(f"no statement at {line}:{col}")
    return best


def _split(text: str) -> list[str]:
    lines = text.split("\n")
    if lines and lines[-1] == "":
        lines.pop()
    return lines


def _dump(text: str) -> Optional[str]:
    try:
        return ast.dump(ast.parse(text))
    except SyntaxError:
        return None


def observe_one(arg: tuple[int, dict]) -> dict:
    tid, case = arg
    kind = case["kind"]
    ignore_mode = kind == "ignore"
    want = CODE_OF.get(kind, kind)
    src = render(case)
    tree = ast.parse(src)          # a SyntaxError here is a renderer bug -> propagates as machinery error
    fails, new_src, changes = check_and_fix(src, ignore_mode)
    if [f[0] for f in fails] != [want]:
        raise core.MachineryError(f"realised file of {case} raises {fails}, expected exactly one {want}:\n{src}")
    _, diagline, diagcol = fails[0]
    stmt = _target_statement(tree, diagline, diagcol)
    (first, _), (last, _) = _span(stmt)
    dele, adds = changes[0] if changes else ([], None)
    old_lines, new_lines = _split(src), _split(new_src)
    kp = 0
    while kp < min(len(old_lines), len(new_lines)) and old_lines[kp] == new_lines[kp]:
        kp += 1
    ks = 0
    while ks < min(len(old_lines), len(new_lines)) - kp and old_lines[-1 - ks] == new_lines[-1 - ks]:
        ks += 1
    if old_lines == new_lines:
        ks = kp
    new_dump = _dump(new_src)
    parses = new_dump is not None
    # (parses = False: the remaining facts cannot be evaluated and are recorded as True)
    intended = not parses or new_dump == _dump(src if ignore_mode else render(case, fixed=True))
    ins_indent, ins_comment = 0, True
    if ignore_mode and adds:
        ins = adds[0]
        ins_indent = (len(ins) - len(ins.lstrip())) // 4
        if parses and dele:
            # the added ignore text must be lexed as a COMMENT token (on one of the added lines)
            rows = range(min(dele), min(dele) + len(adds))
            ins_comment = any(tokenize.tok_name[t.type] == "COMMENT" and t.start[0] in rows and "static analysis: ignore" in t.string
                              for t in tokenize.generate_tokens(io.StringIO(new_src).readline))
    gone = clean = True
    final = new_src
    if parses:
        cur = new_src
        clean = False
        for it in range(MAX_ITER):
            f2, nxt, _ = check_and_fix(cur, ignore_mode)
            if it == 0:
                gone = want not in [f[0] for f in f2]
            if not f2:
                clean = True
                break
            if nxt == cur or _dump(nxt) is None:
                break
            cur = nxt
        final = cur
    return {"tid": tid, "event": "Obs", "case": case, "lines": lex_attrs(src), "extent": [first, last],
            "nodeline": stmt.lineno, "diagline": diagline, "del": sorted(dele), "added": len(adds or []),
            "proposed": bool(changes) and adds is not None,
            "nchanges": len(changes), "ins_indent": ins_indent, "ins_comment": bool(ins_comment),
            "keep_prefix": kp, "keep_suffix": ks, "newlen": len(new_lines), "parses": bool(parses),
            "intended": bool(intended), "gone": bool(gone), "clean": bool(clean), "cli_same": True,
            "_src": src, "_new": new_src, "_final": final}


# --------------------------------------------------------------------------- command-line fixer on a sample


def cli_fixpoint(o: dict, workdir) -> Optional[str]:
    """`python -m pyanalyze -r` (with --add-ignores in ignore mode) on a temp copy of the file; returns its final
    text, or None if the command failed."""
    ignore_mode = o["case"]["kind"] == "ignore"
    path = workdir / f"c16c_cli_{o['tid']}.py"
    path.write_text(o["_src"])
    cmd = [sys.executable, "-m", "pyanalyze", "-r"]
    if ignore_mode:
        cmd += ["--add-ignores"]
    else:
        for k in FIX_SETTINGS:
            cmd += ["-e", k]
        cmd += ["--maximum-positional-args", "2"]
    cmd.append(str(path))
    env = core.repo_env()
    env["PYTHONPATH"] = str(core.REPO) + os.pathsep + env.get("PYTHONPATH", "")
    try:
        subprocess.run(cmd, cwd=str(workdir), env=env, capture_output=True, text=True, timeout=600)
    except subprocess.TimeoutExpired:
        return None
    return path.read_text()


def _cli_one(arg):
    o, workdir = arg
    return cli_fixpoint(o, workdir)


# --------------------------------------------------------------------------- check


PUBLIC = lambda o: {k: v for k, v in o.items() if not k.startswith("_")}  # noqa: E731


def _adjudicate(check: core.Check, obs: list[dict], label: str, by_tid: dict[int, dict]) -> dict[str, int]:
    verdicts, stats = core.adjudicate("FixLayoutTrace", "FixLayoutTrace.cfg", [PUBLIC(o) for o in obs], batch=2500,
                                      parallel=4)
    check.add_trace_stats(stats)
    counts: dict[str, int] = {}
    for tid, vs in verdicts.items():
        o = by_tid[tid]
        payload = {"case": {**o["case"], "part": "layout"}, "source": label, "src": o["_src"], "after": o["_new"],
                   "observation": {k: v for k, v in PUBLIC(o).items() if k not in ("lines", "case")}}
        for v in sorted(set(vs)):
            counts[v] = counts.get(v, 0) + 1
            if v.startswith("viol:"):
                check.violation(core.canon({"layout": o["case"]}), v[5:], payload)
            elif v.startswith("dev:"):
                check.violation(v[4:], v[4:], payload)
            elif v.startswith("oracle:"):
                raise core.MachineryError(f"FixLayout oracle/model disagrees with CPython ({v}) on {o['case']}:\n{o['_src']}")
            else:
                check.drift({"verdict": v, **payload})
    return counts


def run_part_c(check: core.Check, quick: bool) -> None:
    cfg = "FixLayout.quick.cfg" if quick else "FixLayout.full.cfg"
    res = core.require_ok(core.run_tlc("FixLayout", cfg, timeout=1700), "FixLayout exhaustive")
    check.add_tlc("layout:exhaustive:" + cfg, res)
    for scfg, inv in (("FixLayout.strict1.cfg", "RangeStrict"), ("FixLayout.strict2.cfg", "InsertStrict"),
                      ("FixLayout.anylone.cfg", "RangeExact")):
        r = core.run_tlc("FixLayout", scfg, timeout=600)
        if r.violated != inv:
            raise core.MachineryError(f"sensitivity self-test failed: {scfg} must violate {inv}, got {r.violated} / {r.error}")
    check.cov["layout_sensitivity"] = (
        "RangeStrict / InsertStrict are violated on the model (the deviation classes are real); the Impl variant that "
        "accepts any lone triple-quote line (AnyLoneDelim = TRUE) is rejected by TLC (RangeExact violated)")
    cases: dict[str, dict] = {}
    for ecfg in (["FixLayout.emitA.cfg", "FixLayout.emitB.cfg", "FixLayout.emitC.cfg", "FixLayout.emitD.cfg"]
                 if quick else ["FixLayout.emitfull.cfg"]):
        # (vacuity control on the small emission runs: TLC's coverage mode is slow on the full product)
        em = core.require_ok(core.run_tlc("FixLayoutEmit", ecfg, coverage=quick, timeout=1700), "FixLayout emit " + ecfg)
        if quick:
            core.require_coverage(em, ["PickKind", "PickLayout", "PickBlock", "PickBefore", "PickAfter", "PickEof"], "FixLayout")
        check.add_tlc("layout:emit:" + ecfg, em)
        for c in core.emitted_json(em):
            cases.setdefault(core.canon(c), c)
    case_list = [cases[k] for k in sorted(cases)]
    obs = core.pmap(observe_one, list(enumerate(case_list)), chunk=40)
    by_tid = {o["tid"]: o for o in obs}
    # command-line fixer on a sample of the files whose API fixpoint is clean
    good = [o for o in obs if o["parses"] and o["intended"] and o["clean"]]
    step = max(1, len(good) // (24 if quick else 160))
    sample = good[::step]
    workdir = core.new_dir("c16c-cli")
    from concurrent.futures import ThreadPoolExecutor

    with ThreadPoolExecutor(8) as ex:
        finals = list(ex.map(_cli_one, [(o, workdir) for o in sample]))
    for o, final in zip(sample, finals):
        o["cli_same"] = final is not None and final.rstrip("\n") == o["_final"].rstrip("\n")
        o["_cli_final"] = final
    counts = _adjudicate(check, obs, "tlc-exhaustive", by_tid)
    # corrupted-observation self-tests: the trace spec must reject a range that exceeds / stops short of the node,
    # an unparsable result and a comment inserted inside a string on cases outside every deviation class
    clean_fix = next(o for o in obs if o["case"]["kind"] == "use_fstrings" and o["case"]["layout"] == "single"
                     and o["case"]["after"] == "dq_block" and o["case"]["block"] == "def" and o["case"]["before"] == "stmt")
    clean_ign = next(o for o in obs if o["case"]["kind"] == "ignore" and o["case"]["layout"] == "single"
                     and o["case"]["block"] == "def" and o["case"]["before"] == "stmt")
    e1, e2 = clean_fix["extent"]
    corrupt = [
        ({**clean_fix, "del": [e1, e2 + 1], "keep_suffix": clean_fix["keep_suffix"] - 1, "newlen": clean_fix["newlen"] - 1,
          "parses": False}, {"viol:RangeExceedsNode", "viol:StillParses"}),
        ({**clean_fix, "intended": False}, {"viol:OnlyIntendedChange"}),
        ({**clean_fix, "del": [], "added": 0}, {"viol:RangeShortOfNode"}),
        ({**clean_fix, "gone": False, "clean": False}, {"viol:ProposingDiagnosticGone", "viol:FixLoopTerminatesClean"}),
        ({**clean_fix, "cli_same": False}, {"viol:CommandLineFixerAgrees"}),
        ({**clean_ign, "intended": False, "ins_comment": False}, {"viol:TreeUnchanged", "viol:InsertedLineIsComment"}),
    ]
    cobs = [{**PUBLIC(o), "tid": i} for i, (o, _) in enumerate(corrupt)]
    cverd, _ = core.adjudicate("FixLayoutTrace", "FixLayoutTrace.cfg", cobs, batch=10**9)
    for i, (_, expect) in enumerate(corrupt):
        got = {v for v in cverd.get(i, []) if v.startswith("viol:")}
        if not expect <= got:
            raise core.MachineryError(f"FixLayoutTrace self-test {i}: corrupted observation judged {sorted(cverd.get(i, []))}, expected {sorted(expect)}")
    check.evals(len(obs))
    for o in obs:
        check.nontrivial("layout:" + core.canon(o["case"]))
    for o in (obs[0], obs[len(obs) // 2], obs[-1]):
        check.sample({"source": "layout", "case": o["case"], "src": o["_src"], "after": o["_new"],
                      "observation": {k: v for k, v in PUBLIC(o).items() if k not in ("lines", "case")}})
    check.cov["layout_files"] = len(obs)
    check.cov["layout_cli_sample"] = len(sample)
    check.cov["layout_verdict_counts"] = counts
    check.cov["layout_rule"] = (
        "files = fix kind x statement layout x block x lines before x lines after x end-of-file, enumerated by TLC "
        "(FixLayout.tla; quick: product slices emitA-D, thorough: the full product); every file is fixed by the real "
        "code to its fixpoint and judged by FixLayoutTrace.tla (range within / covering the statement's CPython extent, "
        "parses, AST = AST of the intended program, diagnostic gone, loop clean; ignore insertion: AST unchanged and "
        "the inserted line is a comment token); the corrupted-observation self-tests prove each clause is live")
    check.cov["rule"] = str(check.cov.get("rule", "")) + (
        f" | part C (FixLayout.tla): {len(obs)} files = 7 fix kinds x 24 statement layouts x 9 block contexts x 8 'before' x "
        f"12 'after' menus x 3 end-of-file positions ({'product slices emitA-D' if quick else 'the full product'}), "
        "one fix-apply-recheck run each to the fixpoint; exhaustive model check of the same product "
        f"({res.distinct} states, {'3 kinds - one per fix mode' if quick else 'all kinds'})")
    check.assumptions.append(
        "FixLayout: indentation in units of four blanks, no tabs / form feeds; comments inside the rewritten statement "
        "are lost by the decompiler and not counted as a change; asynq-specific fix producers (task_needs_yield, "
        "impure_async_call, missing_asynq, duplicate/unnecessary yield) go through the same replace_node range code "
        "but are not realised")


def replay_part_c(check: core.Check, witness: dict) -> None:
    case = {k: v for k, v in witness["case"].items() if k != "part"}
    o = observe_one((0, case))
    _adjudicate(check, [o], "replay", {0: o})
