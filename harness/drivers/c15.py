"""C15 -- type-variable solutions satisfy the bounds they were solved from.

Specification: spec/TypeVarSolve.tla (typevar.solve as a fold machine whose interleavings are the
permutations of a multiset of bounds; generic calls = pass 1 bound generation + solver + pass 2
re-check; the oracle is a denotational reading of the bounds), checked exhaustively by TLC.

S->C  every multiset TLC enumerates is realised (a) as real LowerBound/UpperBound/IsOneOf/OrBound
      objects given to pyanalyze.typevar.resolve_bounds_map in EVERY order, (b) as a generic function
      + call checked by the real visitor with the parameters in EVERY order.
C->S  the recorded results (verdict, chosen value, for calls also the bound lists the real call
      handed to the solver) are adjudicated by TLC against spec/trace/TypeVarSolveTrace.tla.

The driver only realises cases and records what the real code did; every judgement is TLC's.
"""
from __future__ import annotations

import ast
import itertools
import random
from typing import Any, Optional

from .. import core, pyz

LEVEL = "model_checking"

RAW_ACTIONS = [
    "AddBound", "StartFold", "FoldDup",
    "FoldLSkipAny", "FoldLAdopt", "FoldLKeep", "FoldLUnite", "FoldUAdopt", "FoldUKeep", "FoldUUnite",
    "FoldOneOf", "FoldOrSkip", "FinNone", "FinTop", "FinBot", "FinIncompat", "FinBoth",
    "OptNone", "OptAllFail", "OptSingle", "OptKeepAny", "OptRedundant", "OptFallback",
]
CALL_ACTIONS = [
    "ChooseDecl", "AddParam", "StartCall", "PickParam",
    "CallPass1Diag", "CallSolveDiag", "CallPass2Diag", "CallAccepted",
]
MAX_PERMS = 24  # every order up to 4 elements; a seeded sample of orders above

# --------------------------------------------------------------------------- codec (TLA+ term <-> Value)

_SIMPLE_OBJ = {"L1": 1, "LT": True, "La": "a", "Lf": 1.5}
_SIMPLE_CLS = {"int": int, "bool": bool, "float": float, "str": str, "object": object}


def dec_simple(s: str):
    from pyanalyze.value import AnySource, AnyValue, KnownValue, TypedValue

    if s == "Any":
        return AnyValue(AnySource.explicit)
    if s in _SIMPLE_OBJ:
        return KnownValue(_SIMPLE_OBJ[s])
    if s in _SIMPLE_CLS:
        return TypedValue(_SIMPLE_CLS[s])
    raise core.MachineryError(f"codec: cannot decode simple value {s!r}")


def dec_value(v: list[str]):
    from pyanalyze.value import NO_RETURN_VALUE, MultiValuedValue

    if not v:
        return NO_RETURN_VALUE
    if len(v) == 1:
        return dec_simple(v[0])
    return MultiValuedValue([dec_simple(s) for s in v])


def enc_simple(val: Any) -> str:
    from pyanalyze.value import AnyValue, KnownValue, TypedValue

    if isinstance(val, AnyValue):
        return "Any"
    if type(val) is KnownValue:
        for name, obj in _SIMPLE_OBJ.items():
            if type(val.val) is type(obj) and val.val == obj:
                return name
    if type(val) is TypedValue and not val.literal_only:
        for name, cls in _SIMPLE_CLS.items():
            if val.typ is cls:
                return name
    return "other:" + str(val)


def enc_value(val: Any) -> list[str]:
    from pyanalyze.value import MultiValuedValue

    if isinstance(val, MultiValuedValue):
        return [enc_simple(v) for v in val.vals]
    return [enc_simple(val)]


def dec_bound(b: dict, tv: Any):
    from pyanalyze.value import IsOneOf, LowerBound, OrBound, UpperBound

    k = b["k"]
    if k == "L":
        return LowerBound(tv, dec_value(b["v"]))
    if k == "U":
        return UpperBound(tv, dec_value(b["v"]))
    if k == "O":
        return IsOneOf(tv, tuple(dec_value(v) for v in b["vs"]))
    if k == "RL":
        return OrBound(tuple((LowerBound(tv, dec_value(v)),) for v in b["vs"]))
    if k == "RU":
        return OrBound(tuple((UpperBound(tv, dec_value(v)),) for v in b["vs"]))
    raise core.MachineryError(f"codec: cannot decode bound {b!r}")


def enc_bound(b: Any) -> dict:
    from pyanalyze.value import IsOneOf, LowerBound, OrBound, UpperBound

    if isinstance(b, LowerBound):
        return {"k": "L", "v": enc_value(b.value), "vs": []}
    if isinstance(b, UpperBound):
        return {"k": "U", "v": enc_value(b.value), "vs": []}
    if isinstance(b, IsOneOf):
        return {"k": "O", "v": [], "vs": [enc_value(v) for v in b.constraints]}
    if isinstance(b, OrBound):
        alts = [a for a in b.bounds]
        if all(len(a) == 1 and isinstance(a[0], LowerBound) for a in alts):
            return {"k": "RL", "v": [], "vs": [enc_value(a[0].value) for a in alts]}
        if all(len(a) == 1 and isinstance(a[0], UpperBound) for a in alts):
            return {"k": "RU", "v": [], "vs": [enc_value(a[0].value) for a in alts]}
    raise core.MachineryError(f"codec: cannot encode bound {b!r}")


def orders(n: int, rnd: random.Random) -> list[list[int]]:
    """Every order of 1..n (1-based) up to MAX_PERMS, else identity + reverse + a seeded sample."""
    if n <= 4:
        return [list(p) for p in itertools.permutations(range(1, n + 1))]
    base = list(range(1, n + 1))
    out = [base, base[::-1]]
    seen = {tuple(base), tuple(base[::-1])}
    while len(out) < MAX_PERMS:
        p = base[:]
        rnd.shuffle(p)
        if tuple(p) not in seen:
            seen.add(tuple(p))
            out.append(p)
    return out


# --------------------------------------------------------------------------- raw bound API

_TV: Any = None


def _typevar():
    global _TV
    if _TV is None:
        from typing import TypeVar

        _TV = TypeVar("T")
    return _TV


def _enc_marker(val: Any) -> tuple[bool, list[str]]:
    from pyanalyze import typevar

    if val is typevar.BOTTOM or val is typevar.TOP:
        return False, []
    return True, enc_value(val)


def observe_raw(arg: tuple[int, dict, int]) -> dict:
    """One multiset of bounds through the real resolve_bounds_map, in every order."""
    from pyanalyze import _verif_trace
    from pyanalyze.typevar import resolve_bounds_map

    tid, case, seed = arg
    tv = _typevar()
    ctx = pyz.get_checker()
    bounds = case["bounds"]
    real_bounds = [dec_bound(b, tv) for b in bounds]
    perms = []
    seen = set()
    for order in orders(len(bounds), random.Random(seed * 1000003 + tid)):
        key = tuple(core.canon(bounds[i - 1]) for i in order)
        if key in seen:  # a multiset with repeated elements has fewer distinct orders
            continue
        seen.add(key)
        sink: list[dict] = []
        _verif_trace.set_sink(sink)
        try:
            tv_map, errors = resolve_bounds_map({tv: [real_bounds[i - 1] for i in order]}, ctx)
            verdict = "error" if errors else "ok"
            sol = enc_value(tv_map[tv])
        except Exception as exc:  # an exception is an observation, judged by the trace spec
            verdict, sol = "raised:" + type(exc).__name__, ["Any"]
        finally:
            _verif_trace.set_sink(None)
        steps = []
        for ev in sink:  # only present when the proposed SolveStep hook is installed
            if ev.get("event") == "SolveStep":
                bset, bot = _enc_marker(ev["bottom"])
                tset, top = _enc_marker(ev["top"])
                steps.append({"bset": bset, "bot": bot, "tset": tset, "top": top})
        perms.append({"ord": order, "verdict": verdict, "sol": sol, "steps": steps})
    return {"tid": tid, "mode": "raw", "bounds": bounds, "perms": perms}


# --------------------------------------------------------------------------- generic calls

_HEADER = '''
from typing import Any, Callable, TypeVar, Union
T = TypeVar("T")
TB = TypeVar("TB", bound=int)
TCIS = TypeVar("TCIS", int, str)
TCIF = TypeVar("TCIF", int, float)
U = TypeVar("U")
def t_int(x: int) -> None: pass
def t_str(x: str) -> None: pass
def t_bool(x: bool) -> None: pass
def t_float(x: float) -> None: pass
def t_object(x: object) -> None: pass
def t_Any(x: Any) -> None: pass
def t_intstr(x: Union[int, str]) -> None: pass
def m_int_str(x: int) -> str: raise NotImplementedError
def m_bool_int(x: bool) -> int: raise NotImplementedError
def m_Any_int(x: Any) -> int: raise NotImplementedError
def m_str_str(x: str) -> str: raise NotImplementedError
def m_object_bool(x: object) -> bool: raise NotImplementedError
'''
_TNAME = {"plain": "T", "bint": "TB", "cis": "TCIS", "cif": "TCIF"}
_OBJ = {"1": "1", "T": "True", "a": '"a"', "f": "1.5"}
_LST = {"1": "[1]", "1a": '[1, "a"]', "T1": "[True, 1]"}
_DCT = {"1a": '{1: "a"}', "aT": '{"a": True}'}


def _annotation(p: dict, t: str) -> str:
    f = p["f"]
    return {
        "x": t,
        "lst": f"list[{t}]",
        "cb": f"Callable[[{t}], None]",
        "map": f"Callable[[{t}], U]",
        "dct": f"dict[{t}, U]",
        "xu": "U",
    }[f]


def _argument(p: dict) -> str:
    f, a = p["f"], p["a"]
    if f in ("x", "xu"):
        return _OBJ[a]
    if f == "lst":
        return _LST[a]
    if f == "cb":
        return "t_" + a
    if f == "map":
        return "m_" + a
    if f == "dct":
        return _DCT[a]
    raise core.MachineryError(f"cannot realise parameter {p!r}")


_interposed = False
_current: list[Optional[str]] = []
_solver_log: dict[str, tuple] = {}


def _interpose() -> None:
    """Record -- without changing -- what Signature.check_call_with_bound_args hands to the solver:
    pyanalyze.signature.resolve_bounds_map is wrapped in this process (not in /repo)."""
    global _interposed
    if _interposed:
        return
    import pyanalyze.signature as S

    orig_resolve = S.resolve_bounds_map
    orig_check = S.Signature.check_call_with_bound_args

    def resolve(bounds_map, ctx, *, all_typevars=()):
        result = orig_resolve(bounds_map, ctx, all_typevars=all_typevars)
        if _current and _current[-1] is not None:
            _solver_log[_current[-1]] = (dict(bounds_map), result[0], list(result[1]))
        return result

    def check(self, *args, **kwargs):
        _current.append(getattr(self.callable, "__name__", None))
        try:
            return orig_check(self, *args, **kwargs)
        finally:
            _current.pop()

    S.resolve_bounds_map = resolve
    S.Signature.check_call_with_bound_args = check
    _interposed = True


_DIAG_CODES = {"incompatible_argument", "incompatible_call"}


def observe_calls(chunk: list[tuple[int, dict, int]]) -> list[dict]:
    """A chunk of cases -> one module: one generic function per (case, parameter order), all calls in
    one never-executed function; checked once by the real visitor."""
    from pyanalyze.value import SequenceValue

    _interpose()
    _solver_log.clear()
    defs: list[str] = []
    calls: list[str] = []
    where: dict[str, tuple[int, int]] = {}
    plan: list[tuple[int, dict, list[list[int]]]] = []
    for tid, case, seed in chunk:
        ps = case["ps"]
        t = _TNAME[case["decl"]]
        ords = []
        seen = set()
        for order in orders(len(ps), random.Random(seed * 1000003 + tid)):
            key = tuple(core.canon(ps[i - 1]) for i in order)
            if key in seen:
                continue
            seen.add(key)
            ords.append(order)
        plan.append((tid, case, ords))
        for k, order in enumerate(ords):
            name = f"f_{tid}_{k}"
            params = ", ".join(f"p{j}: {_annotation(ps[i - 1], t)}" for j, i in enumerate(order))
            defs.append(f"def {name}({params}) -> tuple[{t}, U]: raise NotImplementedError")
            calls.append(f"    {name}({', '.join(_argument(ps[i - 1]) for i in order)})")
            where[name] = (tid, k)
    code = _HEADER + "\n".join(defs) + "\ndef _calls():\n" + "\n".join(calls) + "\n"
    line_of: dict[int, str] = {}
    for n, text in enumerate(code.splitlines(), start=1):
        if text.startswith("    f_"):
            line_of[n] = text.strip().split("(", 1)[0]
    fails, _visitor, tree = pyz.check_source(code, want_visitor=True, annotate=True)
    diag: dict[str, list[str]] = {}
    for f in fails:
        codename = getattr(f.get("code"), "name", None)
        name = line_of.get(f.get("lineno"))
        if name is None or codename not in _DIAG_CODES:
            raise core.MachineryError(
                f"unexpected diagnostic in realised calls: {codename} line {f.get('lineno')}: "
                f"{str(f.get('description'))[:200]}"
            )
        diag.setdefault(name, []).append(codename)
    inferred: dict[str, Any] = {}
    for node in ast.walk(tree):
        if isinstance(node, ast.Call) and isinstance(node.func, ast.Name) and node.func.id in where:
            inferred[node.func.id] = getattr(node, "inferred_value", None)
    out = []
    for tid, case, ords in plan:
        perms = []
        for k, order in enumerate(ords):
            name = f"f_{tid}_{k}"
            codes = diag.get(name, [])
            verdict = "diag" if codes else "ok"
            val = inferred.get(name)
            if isinstance(val, SequenceValue) and val.typ is tuple and len(val.members) == 2:
                sols = [enc_value(val.members[0][1]), enc_value(val.members[1][1])]
            else:
                sols = [["Any"], ["Any"]]
            logged = _solver_log.get(name)
            tb: list[dict] = []
            ub: list[dict] = []
            hasb = logged is not None
            if logged is None:
                phase = "p1" if codes else ""
            else:
                bounds_map, _tv_map, errors = logged
                for tvar, bl in bounds_map.items():
                    target = ub if getattr(tvar, "__name__", "") == "U" else tb
                    target.extend(enc_bound(b) for b in bl)
                phase = "solve" if errors else ("p2" if codes else "")
            if verdict == "ok" and logged is None:
                raise core.MachineryError("interposition on pyanalyze.signature.resolve_bounds_map recorded nothing")
            perms.append(
                {"ord": order, "verdict": verdict, "phase": phase, "sols": sols, "tb": tb, "ub": ub,
                 "hasb": hasb, "codes": codes}
            )
        out.append({"tid": tid, "mode": "call", "decl": case["decl"], "ps": case["ps"], "perms": perms})
    return out


def source_of(case: dict) -> str:
    """The source text of one call case in catalogue order (for replay files / the report)."""
    ps = case["ps"]
    t = _TNAME[case["decl"]]
    params = ", ".join(f"p{j}: {_annotation(p, t)}" for j, p in enumerate(ps))
    return f"def f({params}) -> tuple[{t}, U]: ...\nf({', '.join(_argument(p) for p in ps)})"


# --------------------------------------------------------------------------- judging


def observe(cases: list[dict], seed: int) -> list[dict]:
    raw = [(tid, c, seed) for tid, c in enumerate(cases) if c["mode"] == "raw"]
    call = [(tid, c, seed) for tid, c in enumerate(cases) if c["mode"] == "call"]
    obs: dict[int, dict] = {}
    for o in core.pmap(observe_raw, raw, chunk=400):
        obs[o["tid"]] = o
    chunks = [call[i : i + 120] for i in range(0, len(call), 120)]
    for part in core.pmap(observe_calls, chunks, chunk=1):
        for o in part:
            obs[o["tid"]] = o
    return [obs[tid] for tid in range(len(cases))]


def _nontrivial(case: dict) -> bool:
    if case["mode"] == "raw":
        return len({core.canon(b) for b in case["bounds"]}) >= 2
    return len(case["ps"]) >= 2


def judge(check: core.Check, cases: list[dict], label: str, observations: Optional[list[dict]] = None) -> dict[str, int]:
    obs = observations if observations is not None else observe(cases, check.seed)
    verdicts, stats = core.adjudicate(
        "TypeVarSolveTrace", "TypeVarSolveTrace.cfg", obs, batch=1000, parallel=8, timeout=3000
    )
    check.add_trace_stats(stats)
    counts: dict[str, int] = {}
    reach = check.cov.setdefault("raw_deviation_classes_reached_by_calls", {})
    for o, case in zip(obs, cases):
        check.evals(len(o["perms"]))
        if _nontrivial(case):
            check.nontrivial(core.canon(case))
        payload = {"case": case, "source": label, "observed": o["perms"][:24]}
        if case["mode"] == "call":
            payload["python"] = source_of(case)
        for v in sorted(set(verdicts.get(o["tid"], []))):
            counts[v] = counts.get(v, 0) + 1
            if v.startswith("viol:"):
                check.violation(core.canon(case), v[5:], payload)
            elif v.startswith("dev:"):
                check.violation(v[4:], v[4:], payload)  # class key, matched against known_findings.jsonl
            elif v.startswith("drift:"):
                check.drift({"verdict": v, **payload})
            elif v.startswith("reach:"):
                rec = reach.setdefault(v[6:], {"cases": 0, "accepted": 0})
                rec["cases"] += 1
                rec["accepted"] += int(any(p["verdict"] == "ok" for p in o["perms"]))
            else:
                raise core.MachineryError(f"trace spec printed an unknown verdict {v!r}")
    for o in obs[:: max(1, len(obs) // 2)][:2]:
        check.sample({"source": label, **{k: v for k, v in o.items() if k != "perms"}, "perms": o["perms"][:3]}, limit=10)
    return counts


def _tlc_coverage(cfg: str) -> core.TLCResult:
    """Vacuity control: both machines and all invariants with -coverage; every action must fire.
    (quick: the smallest catalogues on which every action fires; thorough: the full catalogues one
    size below the exhaustive bound -- TLC's coverage instrumentation slows a run down five times.)"""
    res = core.require_ok(core.run_tlc("TypeVarSolve", cfg, workers=4, coverage=True, timeout=3000), "TypeVarSolve coverage")
    core.require_coverage(res, RAW_ACTIONS + CALL_ACTIONS, "TypeVarSolve")
    return res


def _tlc_cases(cfg: str) -> core.TLCResult:
    return core.require_ok(core.run_tlc("TypeVarSolveEmit", cfg, workers=8, timeout=3000), f"TypeVarSolve {cfg}")


def _simulate(check: core.Check, cfg: str, num: int, depth: int, seed: int) -> list[dict]:
    sim = core.require_ok(
        core.run_tlc("TypeVarSolveEmit", cfg, workers=1, simulate=f"num={num}", depth=depth, seed=seed, timeout=1500),
        f"TypeVarSolve simulate {cfg}",
    )
    check.add_tlc(f"simulate:{cfg}", sim)
    uniq = {core.canon(c): c for c in core.emitted_json(sim)}
    if len(uniq) < num // 4:
        raise core.MachineryError(f"{cfg}: simulation produced only {len(uniq)} distinct cases")
    return list(uniq.values())


SENSITIVITY = [
    ("TypeVarSolve.strict1.cfg", "SolutionSatisfiesBoundsStrict", "the deviation classes are real on the model"),
    ("TypeVarSolve.strict2.cfg", "OrderIndependentStrict", "the verdict of the model depends on the order"),
    ("TypeVarSolve.bug1.cfg", "SolutionSatisfiesBounds", "a solver without the final top.can_assign(bottom) check is rejected"),
    ("TypeVarSolve.bug2.cfg", "CallSolutionSatisfies", "a call checker without the second pass is rejected"),
]


def _sensitivity_one(item: tuple[str, str, str]) -> str:
    cfg, inv, what = item
    r = core.run_tlc("TypeVarSolve", cfg, workers=2, timeout=600)
    if r.violated != inv:
        raise core.MachineryError(f"sensitivity self-test failed: {inv} not violated under {cfg}: {r.error}")
    return f"{cfg}: {inv} violated as expected ({what})"


def run(check: core.Check) -> None:
    from concurrent.futures import ThreadPoolExecutor

    quick = check.tier == "quick"
    rnd = random.Random(check.seed)
    check.assumptions += [
        "TLC and the TLA+ definitions of TypeVarSolve.tla; the oracle reads a static value as a set of runtime atoms "
        "(int accepted where float is expected, Literal[1] and Literal[True] distinct) and Any as compatible both ways; "
        "a solution Any counts as satisfying every bound (gradual typing), multisets containing an Any bound are exempt "
        "from 'unsatisfiable => error'",
        "a type variable has one constraint list (at most one IsOneOf per multiset); OrBound alternatives are single "
        "lower or single upper bounds",
        "calls: arguments are literals / module-level functions; the bound lists handed to the solver are recorded by "
        "wrapping pyanalyze.signature.resolve_bounds_map inside the harness process",
    ]
    check.cov["rule"] = (
        "raw case = multiset of <= MaxBounds bounds over 12 static values (+3 constraint lists, 2 OrBounds), every "
        "order observed on the real resolve_bounds_map; call case = declaration of T x multiset of <= MaxParams "
        "parameters over 23 (form, argument) kinds, every parameter order checked by the real visitor; non-trivial = "
        "at least two distinct bounds / two parameters"
    )
    # 1. TLC on the model (the jobs are independent processes: run them side by side):
    #    coverage run, sensitivity self-tests, exhaustive model checking (all orders = interleavings of
    #    the Fold*/PickParam actions) with emission of every multiset
    cov_cfg = "TypeVarSolve.quick.cfg" if quick else "TypeVarSolve.thorough.cfg"
    raw_cfg = "TypeVarSolve.emit3.cfg" if quick else "TypeVarSolve.emit4.cfg"
    call_cfg = "TypeVarSolve.callemit2.cfg" if quick else "TypeVarSolve.callemit3.cfg"
    with ThreadPoolExecutor(7) as ex:
        f_cov = ex.submit(_tlc_coverage, cov_cfg)
        f_raw = ex.submit(_tlc_cases, raw_cfg)
        f_call = ex.submit(_tlc_cases, call_cfg)
        f_sens = [ex.submit(_sensitivity_one, item) for item in SENSITIVITY]
        cov_res, raw_res, call_res = f_cov.result(), f_raw.result(), f_call.result()
        check.cov["sensitivity"] = [f.result() for f in f_sens]
    check.add_tlc(f"coverage:{cov_cfg}", cov_res)
    check.add_tlc(f"exhaustive:{raw_cfg}", raw_res)
    check.add_tlc(f"exhaustive:{call_cfg}", call_res)
    raw_cases = core.emitted_json(raw_res)
    call_cases = core.emitted_json(call_res)
    if not raw_cases or not call_cases:
        raise core.MachineryError("TLC emitted no cases")
    check.cov["model_cases"] = {"raw": len(raw_cases), "call": len(call_cases)}

    # 2. S->C replay of every enumerated multiset, in every order, adjudicated by TLC
    raw_limit = 6000 if quick else 60000
    call_limit = 1500 if quick else 12000
    exhaustive = len(raw_cases) <= raw_limit and len(call_cases) <= call_limit
    if len(raw_cases) > raw_limit:
        raw_cases = rnd.sample(raw_cases, raw_limit)
    if len(call_cases) > call_limit:
        call_cases = rnd.sample(call_cases, call_limit)
    check.cov["exhaustive"] = exhaustive
    check.cov["verdict_counts"] = {}
    check.cov["verdict_counts"]["raw-exhaustive"] = judge(check, raw_cases, "tlc-exhaustive-raw")
    check.cov["verdict_counts"]["call-exhaustive"] = judge(check, call_cases, "tlc-exhaustive-call")

    # 3. beyond the exhaustive bound: TLC simulation of larger multisets (a seeded sample of orders)
    sim_raw = _simulate(check, "TypeVarSolve.sim.cfg", 150 if quick else 3000, 16, check.seed + 11)
    sim_call = _simulate(check, "TypeVarSolve.callsim.cfg", 60 if quick else 1200, 16, check.seed + 12)
    check.cov["simulated_cases"] = {"raw": len(sim_raw), "call": len(sim_call)}
    check.cov["verdict_counts"]["simulate"] = judge(check, sim_raw + sim_call, "tlc-simulate")


def replay(check: core.Check, witness: dict) -> None:
    judge(check, [witness["case"]], "replay")


def selftest_binding(check: core.Check) -> None:
    """Corrupt one recorded field of a real observation and require TLC to flag it."""
    case = {"mode": "raw", "bounds": [{"k": "L", "v": ["LT"], "vs": []}, {"k": "U", "v": ["int"], "vs": []}]}
    call = {"mode": "call", "decl": "plain", "ps": [{"f": "x", "a": "1"}, {"f": "cb", "a": "int"}]}
    obs = observe([case, call], check.seed)
    clean, _ = core.adjudicate("TypeVarSolveTrace", "TypeVarSolveTrace.cfg", obs)
    if any(not v.startswith("reach:") for vs in clean.values() for v in vs):
        raise core.MachineryError(f"binding self-test: clean observations were flagged: {clean}")
    obs[0]["perms"][0]["sol"] = ["str"]  # real: Literal[True]
    obs[1]["perms"][1]["sols"] = [["La"], ["Any"]]  # real: Literal[1]
    bad, _ = core.adjudicate("TypeVarSolveTrace", "TypeVarSolveTrace.cfg", obs)
    want0 = {"viol:SolutionSatisfiesBounds", "drift:solve"}
    want1 = {"viol:CallSolutionSatisfies", "drift:call-solution"}
    if not want0 <= set(bad.get(0, [])) or not want1 <= set(bad.get(1, [])):
        raise core.MachineryError(f"binding self-test: corrupted observations not flagged: {bad}")
    print("binding self-test: corrupted solution fields are flagged by TLC:", {k: sorted(set(v)) for k, v in bad.items()})
