"""C16 part B -- replacement fixes (missing_f, use_fstrings, unused_variable, too_many_positional_args,
unused_ignore, missing_await, unused comprehension variable, asynq's task_needs_yield / impure_async_call).
Spec: spec/FixReplace.tla; trace spec FixReplaceTrace.tla.  Called from c16.run()."""
from __future__ import annotations

import ast
import contextlib
import inspect
import io
import warnings
from typing import Any

from .. import core, pyz

SETTINGS = {"missing_f": True, "use_fstrings": True, "unused_variable": True, "too_many_positional_args": True,
            "unused_ignore": True, "missing_await": True, "task_needs_yield": True, "impure_async_call": True}
REAL_CODE = {"unused_comp": "unused_variable"}     # abstract kind -> error code it is reported under
OPTIONS = {"maximum_positional_args": 2}
FIXABLE = set(SETTINGS)
warnings.filterwarnings("ignore", message="coroutine .* was never awaited")   # the state before a missing_await fix

PRELUDE = '''from asynq import asynq

@asynq()
def atask(a: int) -> int:
    return a

def g3(a: int, b: int, c: int) -> tuple[int, int, int]:
    return (a, b, c)

def h3(a: int, b: int, c: object) -> tuple[int, int, object]:
    return (a, b, c)

async def aco(a: int) -> int:
    return a
'''


def fragment_source(i: int, frag: dict) -> str:
    k, c = frag["kind"], frag["ctx"]
    note = "  # a note" if c == "comment" else ""
    if k == "missing_f":
        expr = '"hello {name} {n}"'
    elif k == "use_fstrings":
        expr = '"v %s %s" % (name, n)'
    elif k == "too_many_positional_args":
        expr = "g3(n, n, 2)"
    elif k == "unused_comp":
        expr = f"[name for q_{i} in range(n)]"
    else:
        expr = "name"
    if k in ("missing_await", "task_needs_yield", "impure_async_call"):
        pre, fn, ret = {"missing_await": ("", "aco", "name"), "task_needs_yield": ("", "atask.asynq", "name"),
                        "impure_async_call": ("v = ", "atask", "(name, v)")}[k]
        call = [f"{pre}{fn}(", "    n", ")"] if c == "multiline" else [f"{pre}{fn}(n){note}"]
        body = call + [f"return {ret}"]
        lines = ([f"async def fr_{i}(name: str, n: int) -> object:"] if k == "missing_await"
                 else ["@asynq()", f"def fr_{i}(name: str, n: int) -> object:"])
        if c == "in_if":
            lines += ["    if n >= 0:"] + ["        " + b for b in body] + ['    return ""']
        else:
            lines += ["    " + b for b in body]
        return "\n".join(lines) + "\n"
    if c == "multiline":
        ret = ["return (", f"    {expr}", ")"]
    elif c == "dict_unpack":
        ret = ["base = {'z': 0, 'k': 1}", f"return {{**base, 'k': {expr}, **{{'w': 2}}}}"]
    elif c == "kwonly_lambda":
        ret = [f"return (lambda q, *, prefix='<', suffix: (prefix, q, suffix, {expr}))(1, suffix='>')"]
    elif c == "starred_call":
        ret = ["args = (1, 2)", f"return h3(*args, c={expr})"]
    elif c == "listcomp":
        ret = [f"return [({expr}, i) for i in range(2) if i >= 0]"]
    elif k == "unused_ignore":
        ret = [f"return {expr}  # static analysis: ignore[undefined_name]"]
    else:
        ret = [f"return {expr}{note}"]
    pre = [f"unused_{i} = 3{note}"] if k == "unused_variable" else []
    body = pre + ret
    lines = [f"def fr_{i}(name: str, n: int) -> object:"]
    if c == "in_if":
        lines.append("    if n >= 0:")
        lines += ["        " + b for b in body]
        lines.append('    return ""')
    else:
        lines += ["    " + b for b in body]
    return "\n".join(lines) + "\n"


def render(prog: list[dict]) -> str:
    return PRELUDE + "\n" + "\n".join(fragment_source(i + 1, f) for i, f in enumerate(prog))


def check_and_fix(src: str):
    from pyanalyze.name_check_visitor import NameCheckVisitor

    checker = pyz.get_checker(SETTINGS, options=OPTIONS)
    module = pyz.make_module(src)
    tree = ast.parse(src)
    with contextlib.redirect_stderr(io.StringIO()):
        v = NameCheckVisitor(module.__name__ + ".py", src, tree, module=module, checker=checker)
        result, new_src = v.check_for_test(apply_changes=True)
    return pyz.brief(result), new_src


def _funcs(src: str) -> dict[str, str]:
    return {n.name: ast.dump(n) for n in ast.parse(src).body if isinstance(n, (ast.FunctionDef, ast.AsyncFunctionDef))}


def _frag_of_line(src: str, lineno: int) -> int:
    for n in ast.parse(src).body:
        if isinstance(n, (ast.FunctionDef, ast.AsyncFunctionDef)) and n.name.startswith("fr_") and n.lineno <= lineno <= n.end_lineno:
            return int(n.name[3:])
    return 0


def _deepfmt(x: Any) -> Any:
    if isinstance(x, str):
        try:
            return x.format(name="bob", n=3)
        except Exception:  # noqa: BLE001
            return x
    if isinstance(x, tuple):
        return tuple(_deepfmt(e) for e in x)
    if isinstance(x, list):
        return [_deepfmt(e) for e in x]
    if isinstance(x, dict):
        return {k: _deepfmt(v) for k, v in x.items()}
    return x


def _behaviour(src: str, name: str) -> Any:
    ns: dict[str, Any] = {}
    try:
        exec(compile(src, "<fix>", "exec", dont_inherit=True), ns)
        with warnings.catch_warnings():
            warnings.simplefilter("ignore")          # "coroutine ... was never awaited" before the missing_await fix
            r = ns[name]("bob", 3)
            if inspect.iscoroutine(r):
                try:
                    r.send(None)
                    r.close()
                    return ("ok", "<suspended>")
                except StopIteration as stop:
                    r = stop.value
        return ("ok", r)
    except Exception as exc:  # noqa: BLE001
        return ("raised", type(exc).__name__)


def observe_one(arg: tuple[int, dict]) -> list[dict]:
    tid, p = arg
    prog = p["prog"]
    src = render(prog)
    ev: list[dict] = [{"tid": tid, "event": "Begin", "prog": prog, "src": src}]
    status = "diverged"
    remaining = -1
    for _ in range(len(prog) + 3):
        fails, new_src = check_and_fix(src)
        fixable = [f for f in fails if f[0] in FIXABLE]
        if not fixable:
            status, remaining = "fixed", 0
            break
        if new_src == src:
            status, remaining = "nofix", len(fixable)
            break
        first = fixable[0]
        frag = _frag_of_line(src, first[1])
        kind = code = first[0]
        if 1 <= frag <= len(prog) and REAL_CODE.get(prog[frag - 1]["kind"]) == code:
            kind = prog[frag - 1]["kind"]       # abstract kind of the fragment (reported under `code`)
        try:
            ast.parse(new_src)
            parses = True
        except SyntaxError:
            parses = False
        gone = others_same = delta_ok = False
        if parses:
            after, _ = check_and_fix(new_src)
            old_by = sorted((f[0], _frag_of_line(src, f[1])) for f in fails)
            new_by = sorted((f[0], _frag_of_line(new_src, f[1])) for f in after)
            expect = list(old_by)
            if (code, frag) in expect:
                expect.remove((code, frag))
            gone = (code, frag) not in new_by or new_by.count((code, frag)) < old_by.count((code, frag))
            others_same = new_by == expect
            fo, fn = _funcs(src), _funcs(new_src)
            changed = {k for k in fo if fo[k] != fn.get(k)} | (set(fn) - set(fo))
            only_this = changed <= {f"fr_{frag}"}
            name = f"fr_{frag}"
            bo, bn = _behaviour(src, name), _behaviour(new_src, name)
            if kind == "missing_f":
                same = bo[0] == "ok" and bn[0] == "ok" and bn[1] == _deepfmt(bo[1])
            else:
                same = bo == bn
            delta_ok = only_this and same and (kind != "unused_ignore" or not changed)
        ev.append({"tid": tid, "event": "Step", "frag": frag, "kind": kind, "parses": parses, "gone": gone,
                   "others_same": others_same, "delta_ok": delta_ok, "before": src, "after": new_src})
        if not parses:
            break
        src = new_src
    ev.append({"tid": tid, "event": "End", "status": status, "remaining": remaining})
    return ev


def run_part_b(check: core.Check, quick: bool) -> None:
    res = core.require_ok(core.run_tlc("FixReplace", "FixReplace.quick.cfg", coverage=True, timeout=900), "FixReplace")
    core.require_coverage(res, ["AddFragment", "Start", "FixFirst", "Finish"], "FixReplace")
    check.add_tlc("replacement-fixes:exhaustive", res)
    em = core.require_ok(core.run_tlc("FixReplaceEmit", "FixReplace.emit2.cfg" if quick else "FixReplace.emit3.cfg", timeout=900),
                         "FixReplace emit")
    check.add_tlc("replacement-fixes:emit", em)
    progs = core.emitted_json(em)
    per = core.pmap(observe_one, list(enumerate(progs)), chunk=20)
    obs = [{k: v for k, v in e.items() if k not in ("before", "after", "src")} for evs in per for e in evs]
    verdicts, stats = core.adjudicate("FixReplaceTrace", "FixReplaceTrace.cfg", obs, batch=10**9)
    check.add_trace_stats(stats)
    check.evals(len(progs))
    for tid, vs in verdicts.items():
        evs = per[tid]
        for v in set(vs):
            payload = {"case": {"prog": evs[0]["prog"], "part": "replacement"}, "src": evs[0]["src"],
                       "steps": [{k: e.get(k) for k in ("frag", "kind", "parses", "gone", "others_same", "delta_ok", "after")}
                                 for e in evs if e["event"] == "Step"], "end": evs[-1]}
            if v.startswith("viol:"):
                check.violation(core.canon({"replacement": evs[0]["prog"]}), v[5:], payload)
            elif v.startswith("dev:"):
                check.violation(v[4:], v[4:], payload)
            else:
                check.drift({"verdict": v, **payload})
    for p in progs:
        check.nontrivial("replacement:" + core.canon(p))
    check.sample({"source": "replacement-fixes", "trace": [{k: v for k, v in e.items() if k not in ("before", "after")} for e in per[len(per) // 2]]})
    check.cov["replacement_fix_programs"] = len(progs)


def replay_part_b(check: core.Check, witness: dict) -> None:
    evs = observe_one((0, {"prog": witness["case"]["prog"]}))
    obs = [{k: v for k, v in e.items() if k not in ("before", "after", "src")} for e in evs]
    verdicts, _ = core.adjudicate("FixReplaceTrace", "FixReplaceTrace.cfg", obs, batch=10**9)
    for vs in verdicts.values():
        for v in set(vs):
            if v.startswith("viol:"):
                check.violation(core.canon({"replacement": witness["case"]["prog"]}), v[5:], {})
