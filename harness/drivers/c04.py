"""C04 -- type-to-type assignability is reflexive and sound for membership.

Model: spec/Assign.tla (ImplCA = transcription of value.py / type_object.py can_assign) over the term
universe of spec/Values.tla, judged against Member.  TLC proves the laws on every pair of the bounded
term space; every TLC-generated pair is replayed through the real Value.can_assign (plain and under
set_exclude_any) and adjudicated by TLC (AssignTrace.tla).

Protocol slice (harness/c04_protocols.py): spec/Protocols.tla models the structural protocol check of
type_object.py:141-203 + checker.py:142-182/445-456 (member collection over the MRO, per-member lookup and
comparison, recursion guard, positive cache as state) on a sub-universe of real run-time Protocol classes
(harness/proto_universe.py), judged by ProtocolsTrace.tla.
"""
from __future__ import annotations

import random

from .. import assign_common as ac
from .. import c04_genbases, c04_protocols
from .. import core

LEVEL = "model_checking"
CLAUSES = {"Sound", "Reflexive", "NeverBottom", "ObjectTop", "AnyBoth", "ExcludeAnyMonotone"}


def nontrivial(p: dict) -> bool:
    return p["a"]["k"] not in ("typed", "any") or p["b"]["k"] not in ("typed", "any")


def same_type_literal_union(t: dict) -> bool:
    ms = t.get("ms", []) if t["k"] == "union" else []
    classes = [m["o"]["c"] for m in ms if m["k"] == "known"]
    return 2 <= len(ms) <= 3 and len(classes) == len(ms) and len(set(classes)) < len(classes)


def run(check: core.Check) -> None:
    quick = check.tier == "quick"
    rnd = random.Random(check.seed)
    check.assumptions += [
        "Member (Values.tla) is the ground truth: nominal membership + numeric promotion, type-aware literals, "
        "element-wise containers; documented leniencies excluded from Sound: bare generics / plain `type` as G[Any], "
        "fixed-shape tuple accepting a variadic tuple of compatible element type, NewType accepting its supertype",
        "bounded universe: 18 classes, 40 objects, ~330 depth-1 terms (+270 depth-2 terms in the thorough tier)",
    ]
    cfg = "Assign.quick.cfg" if quick else "Assign.thorough.cfg"
    # (no -coverage here: TLC's coverage bookkeeping of the deeply recursive operators exhausts the heap)
    res = core.require_ok(core.run_tlc("Assign", cfg, timeout=3400), "Assign exhaustive")
    if res.distinct < 1000:
        raise core.MachineryError("Assign exhaustive run explored suspiciously few states")
    check.add_tlc("exhaustive:" + cfg, res)
    sens = core.run_tlc("Assign", "Assign.sens.cfg", timeout=900)
    if sens.violated != "InvSoundNoLeniency":
        raise core.MachineryError("sensitivity self-test failed: soundness without the leniency exclusions should be violated")
    check.cov["sensitivity"] = "InvSoundNoLeniency (no exclusions) is violated on the model: the leniencies are real"
    em = core.require_ok(core.run_tlc("AssignEmit", "Assign.emit1.cfg" if quick else "Assign.emit2.cfg", timeout=3000), "emit")
    check.add_tlc("emit", em)
    pairs = core.emitted_json(em)
    limit = 120000 if quick else 10**7
    exhaustive = len(pairs) <= limit
    if not exhaustive:
        # TypedDict-vs-TypedDict pairs are always replayed (few, and each flag combination matters)
        # ... and so are the unions of same-run-time-type literals offered to every expected type
        def always(p: dict) -> bool:
            return (p["a"]["k"] == "typeddict" and p["b"]["k"] == "typeddict") or same_type_literal_union(p["b"])

        keep = [p for p in pairs if always(p)]
        rest = [p for p in pairs if not always(p)]
        pairs = keep + rnd.sample(rest, limit - len(keep))
    check.cov["exhaustive"] = exhaustive
    check.cov["rule"] = "pairs (A, B) of type terms enumerated by TLC; non-trivial = at least one side is not a plain class / Any"
    obs = core.pmap(ac.observe_pair, list(enumerate(pairs)), chunk=2000)
    for p in pairs:
        if nontrivial(p):
            check.nontrivial(core.canon(p))
    ac.judge(check, obs, "tlc-exhaustive", CLAUSES)
    # deeper terms by TLC simulation
    uniq = core.simulate_cases("AssignEmit", "Assign.sim.cfg", 8000 if quick else 150000, depth=4,
                               seed=check.seed + 3, check=check)
    obs = core.pmap(ac.observe_pair, list(enumerate(uniq)), chunk=2000)
    ac.judge(check, obs, "tlc-simulate-depth2", CLAUSES)
    # run-time protocols: structural check, recursion guard, positive cache (spec/Protocols.tla)
    c04_protocols.run_slice(check, rnd)
    # user generic classes: argument comparison through get_generic_bases / _extract_bases (spec/GenericBases.tla)
    c04_genbases.run_slice(check)
    check.cov["rule"] += ("; protocol slice: (A, B) with A a run-time protocol type (or a union / object / nominal class) and B a "
                          "candidate class, its instance as a literal, a protocol type or a union, each replayed in two histories")


def replay(check: core.Check, witness: dict) -> None:
    c = witness["case"]
    if witness.get("slice") == "protocols":
        return c04_protocols.replay(check, witness)
    if witness.get("slice") == "genericbases":
        return c04_genbases.replay(check, witness)
    obs = [ac.observe_pair((0, {"a": c["a"], "b": c["b"]}))]
    ac.judge(check, obs, "replay", CLAUSES)
