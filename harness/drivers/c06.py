"""C06 -- call checking: arguments against parameter types, result type, type-variable solution.

Specification: spec/Calls.tla (EXTENDS Assign/Values).  A fixed library of annotated functions is DATA of the
specification (Calls!Lib); TLC emits it as JSON and this driver generates the real Python functions from
it, so that the checker and TLC look at the same functions.

      The library has two parts: the first-built entries (Calls!LibOld) and the entries for the parameter-level
      mechanisms of _check_param_type_compatibility / check_call_with_bound_args / get_default_return / bind_self
      (Calls!LibNew: defaults inside / outside the annotation, keyword-only, type[...] / TypedDict / Annotated /
      Literal-union parameters, unbound-method / self-typed-method call forms, __init__ / __new__ / dataclass
      (default_factory, InitVar, kw_only) / NamedTuple constructors, missing / None / NoReturn returns, unsolved type
      variables), enumerated by Calls.new.*.cfg with the call shapes plain / star / mixed / mixedk.
S->C  every call TLC enumerates (library function x literal argument tuple, only calls that bind) is
      realised as `def case_i(): return <call>` in a module that also holds the generated library; the
      module is checked by the real visitor (annotate=True): diagnostics on the call line, the inferred
      value of the call node, the type-variable solution handed back by resolve_bounds_map (recorded by
      wrapping -- not changing -- pyanalyze.signature.resolve_bounds_map in this process); and the call
      is really EXECUTED (case_i()) to get the value it returns.
      Sessions (Calls.tla, "Sessions"): sequences of calls of the it_obj/it_int/it_str family are checked
      together by a FRESH Checker each, because the protocol cache of TypeObject makes the verdict of one
      call depend on the calls checked before it (known deviation protocol-cache-ignores-type-arguments).
C->S  the recorded observations are adjudicated by TLC against spec/trace/CallsTrace.tla: oracle models
      (RefBinds, RefResult) = real CPython first, then the property on the real behaviour, then drift
      against the Impl model.

The driver only realises cases and records; every judgement is TLC's.
"""
from __future__ import annotations

import ast
import os
import random
from concurrent.futures import ThreadPoolExecutor
from typing import Any, Optional

from .. import codec, core, pyz
from .. import universe as U

LEVEL = "model_checking"
# set C06_MODEL_FIXES=1 when proposed/C06-fix-1.diff has been applied to /repo: the trace specification then
# compares with the repaired model (otherwise the repaired behaviour would be reported as drift)
TRACE_CFG = "CallsTrace.cfg"   # FixProtoCache = TRUE since the repair is committed in /repo (73ce54b)
CHUNK = 250
ACTIONS = ["ChooseFn", "AddPos", "AddKw", "Finish", "StartSess", "AddSessCall", "FinishSess"]
# every path of check_call_with_bound_args (and of the oracle) must be seen on REAL observations
OUTCOMES = [
    "nongeneric-accepted", "nongeneric-diagnosed", "generic-accepted", "generic-pass1-diagnosed",
    "generic-unsolvable", "generic-pass2-diagnosed", "star-params-merged-diagnostic", "default-bound",
    "runtime-raises", "session-cache-hit",
    # the defaults / parameter kinds / call forms / returns slice (Calls!LibNew)
    "ill-typed-default-omitted-accepted", "explicit-equal-to-ill-typed-default-diagnosed",
    "explicit-python-equal-to-default-other-literal", "mixed-shape-own-node-and-call-node", "constructor-default",
    "call-performed-by-checker", "self-typed-method", "unsolved-typevar", "return-inferred-from-body", "call-never-returns",
    # the generic-classes slice (Calls!LibGen)
    "inherited-generic-init-diagnosed", "inherited-generic-init-accepted", "generic-class-typevar-solved-per-call",
    "method-on-constructed-instance-diagnosed", "get-on-constructed-instance", "generic-class-parameter-accepted",
    "generic-class-parameter-rejected", "protocol-parameter-accepted",
    # the keyword-names slice (Calls!LibKwn)
    "keyword-named-like-positional-only-lands-in-kwargs-diagnosed", "keyword-named-like-star-args-lands-in-kwargs-diagnosed",
    "keyword-named-kwargs-lands-in-kwargs-diagnosed", "keyword-reusing-parameter-name-accepted",
]
_DIAG = {"incompatible_argument": "nia", "incompatible_call": "nic"}

# --------------------------------------------------------------------------- library -> Python source

_PRELUDE = (
    "from typing import Any, Callable, Literal, Union, Optional, NewType, TypeVar, NamedTuple, NoReturn, Annotated\n"
    "from typing import Generic, Protocol\n"
    "from collections.abc import Sequence, Iterable, Mapping\n"
    "from dataclasses import dataclass, field, InitVar\n"
    "from harness.universe import A, B, Color, N\n"
    "from harness import universe as HU\n"
)
# diagnostics the DEFINITIONS of the library legitimately receive: a default outside its annotation (Calls!LibNew, on
# purpose) is reported at the def (incompatible_default) / at the dataclass field (incompatible_assignment); they are
# not call diagnostics and are only tolerated on library lines
_LIB_DIAG = {"incompatible_default", "incompatible_assignment"}


# the user-defined generic classes of Calls!GClasses (rendered by gclasses_source from TLC's data)
_GCLS = ("GBox", "IntBox", "SmallIntBox", "StrBox", "PairBox", "OwnBox", "NumBox", "ConBox", "DBox", "IntDBox")
_GMKS = ("gctor", "gctorget", "gmeth", "gcmeth", "gspec")
_KWN_IDS = ("po_kw", "po_default_kw", "va_kw", "dunder_kw", "tv_kw")


def ann(t: dict) -> str:
    """Annotation source text of a type term of Calls.tla (Values.tla terms + typevar + callable)."""
    k = t["k"]
    if k == "typevar":
        return t["n"]
    if k == "ann":
        return "Annotated[" + ann(t["t"]) + ', "meta"]'
    if k == "initvar":
        return f"InitVar[{ann(t['t'])}]"
    if k == "callable":
        return f"Callable[[{', '.join(ann(p) for p in t['ps'])}], {ann(t['r'])}]"
    if k == "generic":
        args = [ann(a) for a in t["args"]]
        if t["c"] == "tuple":
            return f"tuple[{args[0]}, ...]"
        return f"{t['c']}[{', '.join(args)}]"
    if k == "seq":
        if t["c"] != "tuple" or any(m["many"] for m in t["ms"]):
            raise core.MachineryError(f"no annotation for {t}")
        return "tuple[" + (", ".join(ann(m["t"]) for m in t["ms"]) or "()") + "]"
    if k == "union":
        if not t["ms"]:
            return "Never"
        return "Union[" + ", ".join(ann(m) for m in t["ms"]) + "]"
    return codec.term_to_annotation(t)


def lit(o: dict) -> str:
    """Source text of an argument: literals, helper function names, and the expressions whose static value
    is their type (A(), B(), ItI(), ItS() -- Calls!TypedExpr)."""
    if o["c"] == "function":
        return o["v"]
    if o["c"] in ("ItI", "ItS"):
        return o["c"] + "()"
    if o["c"] in _GCLS:  # Calls!GI: an instance of a generic class holding one item, written C(item)
        return f"{o['c']}({lit(o['items'][0])})"
    if o["c"] == "float" and o["v"] == "0.0":  # Calls!F00 (not a scalar of the shared universe)
        return "0.0"
    if o["c"] == "dcfactory":
        return f"field(default_factory={o['v']})"
    c, items = o["c"], o.get("items", [])
    if c == "list":
        return "[" + ", ".join(lit(x) for x in items) + "]"
    if c == "tuple":
        return "(" + "".join(lit(x) + ", " for x in items) + ")"
    if c == "set" and items:
        return "{" + ", ".join(lit(x) for x in items) + "}"
    if c == "dict":
        return "{" + ", ".join(f"{lit(kv['key'])}: {lit(kv['val'])}" for kv in items) + "}"
    return codec.obj_literal(o)


def _params_src(decl: list[dict]) -> str:
    parts = []
    seen_star = False
    npo = len([p for p in decl if p["kind"] == "po"])
    for idx, p in enumerate(decl):
        name, kind = p["name"], p["kind"]
        if npo and idx == npo:
            parts.append("/")      # the parameters before it are positional-only (PEP 570)
        if name in ("self", "cls"):
            parts.append(f"{name}: {ann(p['ann'])}" if p["ann"]["k"] == "typevar" else name)  # `self: T`
            continue
        text = f"{name}: {ann(p['ann'])}"
        if p["dflt"]:
            text += f" = {lit(p['dflt'][0])}"
        if kind == "va":
            text = "*" + text
            seen_star = True
        elif kind == "vk":
            text = "**" + text
        elif kind == "ko" and not seen_star:
            parts.append("*")
            seen_star = True
        parts.append(text)
    if npo and npo == len(decl):
        parts.append("/")
    return ", ".join(parts)


def _body_src(fn: dict) -> str:
    bound = [p["name"] for p in fn["decl"] if p["name"] not in ("self", "cls")]
    b = fn["body"]
    a = [bound[i - 1] for i in b["is"]]
    k = b["k"]
    if k == "self":
        return "return self"
    if k == "raise":
        return "raise ValueError('x')"
    if k == "param":
        return f"return {a[0]}"
    if k == "const":
        return f"return {lit(b['o'])}"
    if k == "tuple":
        return "return (" + "".join(x + ", " for x in a) + ")"
    if k == "list":
        return "return [" + ", ".join(a) + "]"
    if k == "dict":
        return f"return {{{a[0]}: {a[1]}}}"
    if k == "call":
        return f"return {a[0]}({a[1]})"
    if k == "callc":
        return f"return {a[0]}({lit(b['o'])})"
    if k == "swapped":
        return f"return ({a[0]}[1], {a[0]}[0])"
    if k in ("elem_list", "elem_tuple", "elem_seq"):
        cls = {"elem_list": "list", "elem_tuple": "tuple", "elem_seq": "Sequence"}[k]
        return f"return {a[0]}[0] if isinstance({a[0]}, {cls}) and {a[0]} else {a[1]}"
    if k == "firstor":
        return f"return {a[0]}[0] if {a[0]} else {a[1]}"
    if k == "unboxitem":
        return f"return {a[0]}.get()"
    if k == "new":
        if fn["mk"] == "new":
            return "return super().__new__(cls)"
        return "; ".join(f"self.{n} = {n}" for n in bound) or "pass"
    raise core.MachineryError(f"cannot realise body {b}")


def _ret_src(fn: dict) -> str:
    """Return annotation of a def ('' = none: Calls!NoAnn; NoReturn for the empty union)."""
    r = fn["ret"]
    if r["k"] == "noann":
        return ""
    if r["k"] == "union" and not r["ms"]:
        return "NoReturn"
    return ann(r)


def gclasses_source(gclasses: list[dict]) -> list[str]:
    """The user-defined generic classes (Calls!GClasses) and the protocol HasGet.  They come before the functions:
    `def unbox(b: Box[T])` evaluates its annotations when the def is executed."""
    out: list[str] = []
    for k in gclasses:
        if set(k["meths"]) - {"get", "put", "make"} or k["init"] not in ("own", "dataclass", "inherit"):
            raise core.MachineryError(f"cannot realise the generic class {k}")
        bases = [ann({"k": "generic", "c": b["c"], "args": b["args"]}) if b["args"] else b["c"] for b in k["base"]]
        if k["tps"]:
            bases.append("Generic[" + ", ".join(k["tps"]) + "]")
        head = f"class {k['n']}({', '.join(bases)}):" if bases else f"class {k['n']}:"
        if k["init"] == "dataclass":
            out.append("@dataclass")
        out.append(head)
        body = []
        if k["init"] == "dataclass":
            body += [f"    {p['name']}: {ann(p['ann'])}" + (f" = {lit(p['dflt'][0])}" if p["dflt"] else "") for p in k["iparams"]]
        elif k["init"] == "own":
            params = ", ".join(f"{p['name']}: {ann(p['ann'])}" + (f" = {lit(p['dflt'][0])}" if p["dflt"] else "")
                               for p in k["iparams"])
            store = "self.item = item" if not k["base"] else "super().__init__(item)"
            body.append(f"    def __init__(self, {params}) -> None: {store}")
        tp = k["tps"][0] if k["tps"] else None
        for m in k["meths"]:
            if m == "get":
                body.append(f"    def get(self) -> {tp}: return self.item")
            elif m == "put":
                body.append(f"    def put(self, x: {tp}) -> None: self.item = x")
            elif m == "make":
                body.append(f"    @classmethod\n    def make(cls, x: {tp}) -> \"{k['n']}[{tp}]\": return cls(x)")
        out.extend(body or ["    pass"])
    if gclasses:
        out.append("class HasGet(Protocol[T]):")
        out.append("    def get(self) -> T: raise NotImplementedError")
    return out


def library_source(libdata: dict) -> str:
    """Python source of the whole library (type variables, helper functions, functions, classes)."""
    out = [_PRELUDE]
    for d in libdata["tvdecls"]:
        extra = ""
        if d["bound"]:
            extra = f", bound={ann(d['bound'][0])}"
        elif d["cons"]:
            extra = ", " + ", ".join(ann(c) for c in d["cons"])
        out.append(f'{d["n"]} = TypeVar("{d["n"]}"{extra})')
    for h in libdata["helpers"]:
        body = "return x" if h["body"] == "param" else f"return {lit(h['o'])}"
        out.append(f"def {h['id']}(x: {ann(h['p'])}) -> {ann(h['r'])}: {body}")
    out.extend(gclasses_source(libdata.get("gclasses", [])))
    classes: dict[str, list[dict]] = {}
    seen: set[tuple[str, str]] = set()
    for fn in libdata["lib"]:
        key = (fn["cls"], fn["name"])
        if key in seen or fn["mk"] in _GMKS:
            continue
        seen.add(key)
        if fn["cls"]:
            classes.setdefault(fn["cls"], []).append(fn)
        else:
            ret = _ret_src(fn)
            out.append(f"def {fn['name']}({_params_src(fn['decl'])}){' -> ' + ret if ret else ''}: {_body_src(fn)}")
    for cname, fns in classes.items():
        if any(f["mk"] == "inherited" for f in fns):
            out.append(f"class {cname}(K): pass")  # Calls.tla: mk "inherited" = subclass of K without a def of its own
            continue
        if any(f["mk"] in ("dcinit", "ntnew") for f in fns):
            (dc,) = [f for f in fns if f["mk"] in ("dcinit", "ntnew")]
            fields = dc["decl"][1:]
            if dc["mk"] == "ntnew":
                out.append(f"class {cname}(NamedTuple):")
            else:
                # keyword-only parameters of the generated __init__ come from @dataclass(kw_only=True)
                kinds = {p["kind"] for p in fields}
                if kinds - {"pk"} and kinds != {"ko"}:
                    raise core.MachineryError(f"cannot realise the dataclass {cname}: mixed parameter kinds {kinds}")
                out.append("@dataclass(kw_only=True)" if kinds == {"ko"} else "@dataclass")
                out.append(f"class {cname}:")
            for p in fields:
                dflt = f" = {lit(p['dflt'][0])}" if p["dflt"] else ""
                out.append(f"    {p['name']}: {ann(p['ann'])}{dflt}")
            initvars = [p["name"] for p in fields if p["ann"]["k"] == "initvar"]
            if initvars:
                out.append(f"    def __post_init__(self, {', '.join(initvars)}): pass")
            fns = [f for f in fns if f["mk"] not in ("dcinit", "ntnew")]
        else:
            out.append(f"class {cname}:")
        for fn in fns:
            deco = {"classmethod": "    @classmethod\n", "staticmethod": "    @staticmethod\n"}.get(fn["mk"], "")
            ret = "None" if fn["mk"] == "init" else (f'"{cname}"' if fn["mk"] == "new" else _ret_src(fn))
            out.append(f"{deco}    def {fn['name']}({_params_src(fn['decl'])}){' -> ' + ret if ret else ''}: {_body_src(fn)}")
    out.append("k0 = K(1)")
    return "\n".join(out) + "\n"


def call_source(fn: dict, case: dict) -> str:
    def star_pos(objs: list[dict]) -> list[str]:
        return ["*(" + "".join(lit(o) + ", " for o in objs) + ")"] if objs else []

    def star_kw(entries: list[dict]) -> list[str]:
        return ["**{" + ", ".join(f'"{e["name"]}": {lit(e["o"])}' for e in entries) + "}"] if entries else []

    shape, pos, kw = case["shape"], case["pos"], case["kw"]
    plain_kw = [f"{e['name']}={lit(e['o'])}" for e in kw]
    if shape == "star":      # f(*(a, b), **{"k": c})
        args = star_pos(pos) + star_kw(kw)
    elif shape == "mixed":   # f(a, *(b,), **{"k": c}): only the first positional is written on its own
        args = [lit(pos[0])] + star_pos(pos[1:]) + star_kw(kw)
    elif shape == "mixedk":  # f(*(a, b), k=c): only the keywords are written on their own
        args = star_pos(pos) + plain_kw
    elif shape == "plain":
        args = [lit(o) for o in pos] + plain_kw
    else:
        raise core.MachineryError(f"unknown call shape {shape!r}")
    callee = {
        "fn": fn["name"],
        "inst": f"k0.{fn['name']}",
        "tinst": f"K(1).{fn['name']}",
        "cls": f"{fn['cls']}.{fn['name']}",
        "ctor": fn["cls"],
        "unbound": f"{fn['cls']}.{fn['name']}",
        "ctorget": fn["cls"],                                          # C(args).get()
        "ginst": f"{fn['cls']}({_gcanon(fn['cls']) if fn['recv'] == 'ginst' else ''}).{fn['name']}",  # C(<fitting literal>).put(args)
        "spec": "GBox[int]",                                            # explicit specialisation
    }[fn["recv"]]
    if fn["recv"] == "unbound":  # the method fetched from the class, the receiver given explicitly
        args = ["k0"] + args
    if fn["recv"] == "ctorget":
        return f"{callee}({', '.join(args)}).get()"
    return f"{callee}({', '.join(args)})"


_GCANON: dict[str, str] = {}


def _gcanon(cls: str) -> str:
    if cls not in _GCANON:
        raise core.MachineryError(f"no receiver literal known for {cls} (library data not loaded)")
    return _GCANON[cls]


# --------------------------------------------------------------------------- real objects / Values -> terms

_XCLS = {"K": "k", "K2": "k2", "W": "w", "D": "d", "ItI": "i", "ItS": "s", "Box": "box", "WN": "wn", "DD": "dd", "DK": "dk"}


def obj_term(x: Any) -> dict:
    """Runtime object -> object term (library classes and helper functions added to codec.py_to_obj)."""
    import types

    t = type(x)
    if isinstance(x, types.FunctionType):
        return {"c": "function", "v": x.__name__, "items": []}
    if t.__name__ in _XCLS and t.__module__.startswith("verifmod"):
        return {"c": t.__name__, "v": _XCLS[t.__name__], "items": []}
    if t.__name__ in _GCLS and t.__module__.startswith("verifmod"):  # Calls!GI: the item the instance holds
        return {"c": t.__name__, "v": "", "items": [obj_term(x.item)]}
    if t.__name__ == "NT" and t.__module__.startswith("verifmod"):  # the NamedTuple of the library: its fields
        return {"c": "NT", "v": "", "items": [obj_term(e) for e in x]}
    if t is float and x == 0.0:  # Calls!F00
        return {"c": "float", "v": "0.0", "items": []}
    if t in (list, tuple, set):
        return {"c": t.__name__, "v": "", "items": [obj_term(e) for e in (sorted(x, key=repr) if t is set else x)]}
    if t is dict:
        # string keys keep their text: the keys of a **kwargs dict are keyword NAMES (kwargs, zz, args, ...), which are
        # not scalars of the shared universe (Calls!RefBoundObj builds Obj("str", <name>))
        return {"c": "dict", "v": "", "items": [{"key": {"c": "str", "v": k, "items": []} if type(k) is str else obj_term(k),
                                                  "val": obj_term(v)} for k, v in x.items()]}
    return codec.py_to_obj(x)


def _cls_name(typ: Any) -> str:
    name = U.CLASS_NAME.get(typ)
    if name is not None:
        return name
    if isinstance(typ, type) and typ.__name__ in (*_XCLS, "NT", *_GCLS, "HasGet") and typ.__module__.startswith("verifmod"):
        return typ.__name__
    return "other"


def val_term(v: Any) -> dict:
    """pyanalyze Value -> type term (a value outside the vocabulary becomes a term equal to nothing)."""
    from pyanalyze import value as V

    if isinstance(v, V.AnnotatedValue):
        return val_term(v.value)
    if isinstance(v, V.AnyValue):
        src = {
            V.AnySource.explicit: "explicit",
            V.AnySource.unreachable: "unreachable",
            V.AnySource.generic_argument: "generic_argument",
            V.AnySource.error: "error",
            V.AnySource.inference: "inference",
            V.AnySource.from_another: "from_another",
        }.get(v.source, "other:" + v.source.name)
        return {"k": "any", "src": src}
    if isinstance(v, V.TypeVarValue):
        return {"k": "typevar", "n": getattr(v.typevar, "__name__", "other")}
    if isinstance(v, V.KnownValue):
        return {"k": "known", "o": obj_term(v.val)}
    if isinstance(v, V.MultiValuedValue):
        return {"k": "union", "ms": [val_term(m) for m in v.vals]}
    if isinstance(v, V.NewTypeValue):
        return {"k": "newtype", "n": v.name, "c": _cls_name(v.typ)}
    if isinstance(v, V.CallableValue):
        sig = v.signature
        params = getattr(sig, "parameters", None)
        if params is None:
            return {"k": "other", "text": str(v)}
        return {"k": "callable", "ps": [val_term(p.annotation) for p in params.values()], "r": val_term(sig.return_value)}
    if isinstance(v, V.SubclassValue):
        return {"k": "subclass", "t": val_term(v.typ)}
    if isinstance(v, V.SequenceValue):
        return {"k": "seq", "c": _cls_name(v.typ), "ms": [{"many": bool(m), "t": val_term(t)} for m, t in v.members]}
    if isinstance(v, V.GenericValue):  # includes DictIncompleteValue / TypedDictValue: their generic arguments
        return {"k": "generic", "c": _cls_name(v.typ), "args": [val_term(a) for a in v.args]}
    if isinstance(v, V.TypedValue):
        return {"k": "typed", "c": _cls_name(v.typ)}
    return {"k": "other", "text": str(v)[:80]}


# --------------------------------------------------------------------------- observing the solver

_interposed = False
_solver_log: dict[tuple, dict] = {}
_node_stack: list[Optional[tuple]] = []


def _node_key(node: Any) -> Optional[tuple]:
    """Identity of a call node within the realised module: an argument that is itself a call (unbox(DBox(1))) sits on
    the same line as the call it is passed to."""
    if node is None or not hasattr(node, "lineno"):
        return None
    return (node.lineno, getattr(node, "col_offset", None), getattr(node, "end_col_offset", None))


def _interpose() -> None:
    """Record -- without changing -- what resolve_bounds_map returns inside check_call_with_bound_args,
    keyed by the position of the call node being checked (wrappers live in this process, not in /repo)."""
    global _interposed
    if _interposed:
        return
    import pyanalyze.signature as S

    orig_resolve = S.resolve_bounds_map
    orig_check = S.Signature.check_call_with_bound_args

    def resolve(bounds_map, ctx, *, all_typevars=()):
        result = orig_resolve(bounds_map, ctx, all_typevars=all_typevars)
        if _node_stack and _node_stack[-1] is not None:
            _solver_log[_node_stack[-1]] = {getattr(tv, "__name__", str(tv)): val for tv, val in result[0].items()}
        return result

    def check(self, preprocessed, bound_args, ctx, **kwargs):
        node = getattr(ctx, "node", None)
        _node_stack.append(_node_key(node))
        try:
            return orig_check(self, preprocessed, bound_args, ctx, **kwargs)
        finally:
            _node_stack.pop()

    S.resolve_bounds_map = resolve
    S.Signature.check_call_with_bound_args = check
    _interposed = True


# --------------------------------------------------------------------------- one chunk of cases -> observations


def _execute(func) -> dict:
    """Really perform the call.  bindfail: the TypeError was raised by the call itself (no callee frame)."""
    try:
        value = func()
    except Exception as exc:  # noqa: BLE001 - whatever the real call raises is the observation
        depth = 0
        tb = exc.__traceback__
        while tb is not None:
            depth += 1
            tb = tb.tb_next
        # frames: _execute, case_i, [callee ...]
        return {"raised": True, "o": obj_term(None), "bindfail": isinstance(exc, TypeError) and depth <= 2,
                "exc": f"{type(exc).__name__}: {exc}"[:120]}
    return {"raised": False, "o": obj_term(value), "bindfail": False}


_modno = 0


def _make_registered_module(code: str):
    """Like pyz.make_module, but the module is in sys.modules WHILE its code runs and while it is checked, as for a
    module that is really imported: dataclasses looks the module up when it generates __init__ (otherwise the generated
    function has no __module__), and pyanalyze finds the class of an unannotated `self` through
    sys.modules[function.__module__] (arg_spec.py:541-564) -- without it `self` of Box.__init__ would be Any and no
    generic base could be matched."""
    import sys
    import types

    global _modno
    _modno += 1
    name = f"verifmodc06_{os.getpid()}_{_modno}"
    mod = types.ModuleType(name)
    mod.__dict__["__file__"] = name + ".py"
    sys.modules[name] = mod
    try:
        exec(compile(code, name + ".py", "exec", dont_inherit=True), mod.__dict__)
    except BaseException:
        del sys.modules[name]
        raise
    return mod


def _load_gcanon(libdata: dict) -> None:
    for k, o in zip(libdata.get("gclasses", []), libdata.get("gcanon", [])):
        _GCANON[k["n"]] = lit(o)


def observe_chunk(arg: tuple[dict, list[tuple[int, dict]]]) -> list[dict]:
    libdata, chunk = arg
    _interpose()
    _solver_log.clear()
    _load_gcanon(libdata)
    itvs = {f["id"]: tv for f, tv in zip(libdata["lib"], libdata.get("itvs", [f["tvs"] for f in libdata["lib"]]))}
    fns = {f["id"]: f for f in libdata["lib"]}
    lib_src = library_source(libdata)
    lines = [lib_src.rstrip("\n")]
    base = lib_src.count("\n")
    line_of: dict[int, int] = {}
    for j, (tid, case) in enumerate(chunk):
        lines.append(f"def case_{j}():")
        lines.append(f"    return {call_source(fns[case['fn']], case)}")
        line_of[base + 2 * j + 2] = j
    code = "\n".join(lines) + "\n"
    mod = _make_registered_module(code)
    try:
        return _observe_in_module(mod, code, chunk, fns, itvs, base, line_of)
    finally:
        import sys

        sys.modules.pop(mod.__name__, None)


def _observe_in_module(mod, code: str, chunk, fns: dict, itvs: dict, base: int, line_of: dict[int, int]) -> list[dict]:
    fails, _visitor, tree = pyz.check_source(code, module=mod, want_visitor=True, annotate=True)
    counts = [{"nia": 0, "nic": 0} for _ in chunk]
    for f in fails:
        codename = getattr(f.get("code"), "name", None)
        j = line_of.get(f.get("lineno"))
        if j is None and codename in _LIB_DIAG and (f.get("lineno") or 0) <= base:
            continue
        if j is None or codename not in _DIAG:
            raise core.MachineryError(
                f"unexpected diagnostic in the realised module: {codename} line {f.get('lineno')}: "
                f"{str(f.get('description'))[:300]}"
            )
        counts[j][_DIAG[codename]] += 1
    inferred: dict[int, Any] = {}
    for node in tree.body:
        if isinstance(node, ast.FunctionDef) and node.name.startswith("case_"):
            ret = node.body[0]
            assert isinstance(ret, ast.Return) and isinstance(ret.value, ast.Call)
            inferred[int(node.name[5:])] = (getattr(ret.value, "inferred_value", None), _node_key(ret.value))
    out = []
    for j, (tid, case) in enumerate(chunk):
        fn = fns[case["fn"]]
        val, lineno = inferred[j]
        if val is None:
            raise core.MachineryError(f"no inferred value recorded for {call_source(fn, case)}")
        logged = _solver_log.get(lineno)
        if fn["mk"] == "gctorget":
            logged = None  # two calls on one line (C(args).get()): the solution of the first is not observed separately
        sigma = []
        if logged is not None:
            # the type variables of the signature that is called (Calls!ImplTvs); a solution for other variables means a
            # different signature was called: recorded as solved with the variables the model expects missing -> drift
            sigma = [val_term(logged[n]) if n in logged else {"k": "other", "text": "no solution recorded"}
                     for n in itvs[fn["id"]]]
        out.append(
            {"tid": tid, "kind": "call", "fn": case["fn"], "shape": case["shape"], "pos": case["pos"], "kw": case["kw"],
             "nia": counts[j]["nia"], "nic": counts[j]["nic"], "inferred": val_term(val),
             "solved": logged is not None, "sigma": sigma,
             "real": _execute(getattr(mod, f"case_{j}")), "src": call_source(fn, case)}
        )
    return out


_SESS_PRELUDE = (
    "from collections.abc import Iterable, Iterator\n"
    "from harness.universe import A\n"
    "class ItI:\n    def __iter__(self) -> Iterator[int]: return iter([1])\n"
    "class ItS:\n    def __iter__(self) -> Iterator[str]: return iter(['a'])\n"
)


def session_source(libdata: dict, calls: list[dict]) -> str:
    out = [_SESS_PRELUDE.rstrip("\n")]
    for f in libdata["protofns"]:
        t = f"Iterable[{ann(f['x'])}]"
        out.append(f"def {f['id']}(x: {t}) -> {t}: return x")
    for j, c in enumerate(calls):
        out.append(f"def case_{j}():")
        out.append(f"    return {c['fn']}({lit(c['arg'])})")
    return "\n".join(out) + "\n"


def observe_session(arg: tuple[dict, int, dict]) -> dict:
    """All calls of one session in ONE module checked by a FRESH Checker (the protocol cache lives in it)."""
    libdata, tid, case = arg
    calls = case["sess"]
    code = session_source(libdata, calls)
    base = code.count("\n") - 2 * len(calls)
    mod = pyz.make_module(code)
    fails, _visitor, tree = pyz.check_source(
        code, module=mod, checker=pyz.get_checker(fresh=True), want_visitor=True, annotate=True
    )
    nia = [0] * len(calls)
    for f in fails:
        codename = getattr(f.get("code"), "name", None)
        j, rem = divmod((f.get("lineno") or 0) - base - 2, 2)
        if codename != "incompatible_argument" or rem != 0 or not 0 <= j < len(calls):
            raise core.MachineryError(
                f"unexpected diagnostic in the realised session: {codename} line {f.get('lineno')}: "
                f"{str(f.get('description'))[:300]}"
            )
        nia[j] += 1
    inferred = {}
    for node in tree.body:
        if isinstance(node, ast.FunctionDef) and node.name.startswith("case_"):
            inferred[int(node.name[5:])] = getattr(node.body[0].value, "inferred_value", None)
    if any(inferred.get(j) is None for j in range(len(calls))):
        raise core.MachineryError("no inferred value recorded for a session call")
    return {
        "tid": tid, "kind": "sess", "calls": calls, "acc": [n == 0 for n in nia],
        "inferred": [val_term(inferred[j]) for j in range(len(calls))],
        "real": [_execute(getattr(mod, f"case_{j}")) for j in range(len(calls))],
        "src": "; ".join(f"{c['fn']}({lit(c['arg'])})" for c in calls),
    }


def observe(libdata: dict, cases: list[dict]) -> list[dict]:
    indexed = list(enumerate(cases))
    plain = [(tid, c) for tid, c in indexed if "sess" not in c]
    sessions = [(libdata, tid, c) for tid, c in indexed if "sess" in c]
    chunks = [(libdata, plain[i : i + CHUNK]) for i in range(0, len(plain), CHUNK)]
    obs: dict[int, dict] = {}
    for part in core.pmap(observe_chunk, chunks, chunk=1):
        for o in part:
            obs[o["tid"]] = o
    for o in core.pmap(observe_session, sessions, chunk=8):
        obs[o["tid"]] = o
    return [obs[tid] for tid in range(len(cases))]


# --------------------------------------------------------------------------- judging


def outcome_classes(fns: dict, o: dict) -> list[str]:
    """Which paths of the checked code an observation went through (recorded facts only; used for the
    vacuity control, never for a verdict)."""
    if o["kind"] == "sess":
        return ["session-cache-hit"] if len(o["calls"]) >= 2 and all(o["acc"]) else []
    fn = fns[o["fn"]]
    out = []
    diagnosed = o["nia"] + o["nic"] > 0
    if not fn["tvs"]:
        out.append("nongeneric-diagnosed" if diagnosed else "nongeneric-accepted")
    elif not diagnosed:
        out.append("generic-accepted")
    elif o["nic"]:
        out.append("generic-unsolvable")
    elif o["solved"]:
        out.append("generic-pass2-diagnosed")
    else:
        out.append("generic-pass1-diagnosed")
    nparams = len([p for p in fn["decl"] if p["name"] not in ("self", "cls")])
    nstar = len([p for p in fn["decl"] if p["kind"] in ("va", "vk")])
    if nstar == 2 and o["nia"] == 1 and len(o["pos"]) >= 2 and o["kw"]:
        out.append("star-params-merged-diagnostic")
    if len(o["pos"]) + len(o["kw"]) < nparams - nstar:
        out.append("default-bound")
    if o["real"]["raised"]:
        out.append("runtime-raises")
    # --- the keyword-names slice (recorded facts only)
    if fn["id"] in _KWN_IDS:
        kinds = {p["name"]: p["kind"] for p in fn["decl"]}
        for e in o["kw"]:
            k = kinds.get(e["name"])
            if k in ("po", "va", "vk"):
                if not diagnosed:
                    out.append("keyword-reusing-parameter-name-accepted")
                elif o["nia"] >= 1:
                    out.append({"po": "keyword-named-like-positional-only-lands-in-kwargs-diagnosed",
                                "va": "keyword-named-like-star-args-lands-in-kwargs-diagnosed",
                                "vk": "keyword-named-kwargs-lands-in-kwargs-diagnosed"}[k])
    # --- the generic-classes slice (recorded facts only)
    if fn["mk"] == "gctor" and not fn["tvs"] and fn["cls"] != "OwnBox":
        out.append("inherited-generic-init-diagnosed" if diagnosed else "inherited-generic-init-accepted")
    if fn["mk"] == "gctor" and fn["tvs"] and o["solved"] and not diagnosed:
        out.append("generic-class-typevar-solved-per-call")
    if fn["mk"] == "gmeth" and diagnosed:
        out.append("method-on-constructed-instance-diagnosed")
    if fn["mk"] == "gctorget" and not diagnosed:
        out.append("get-on-constructed-instance")
    if fn["id"] in ("unbox", "first"):
        if diagnosed:
            out.append("generic-class-parameter-rejected")
        else:
            out.append("protocol-parameter-accepted" if fn["id"] == "first" else "generic-class-parameter-accepted")
    # --- the defaults / parameter kinds / call forms / returns slice (recorded facts only)
    params = [p for p in fn["decl"] if p["name"] not in ("self", "cls")]
    pk = [p for p in params if p["kind"] == "pk"]
    bound: dict[str, dict] = {}        # parameter name -> explicit argument object
    for i, a in enumerate(o["pos"]):
        if i < len(pk):
            bound[pk[i]["name"]] = a
    for e in o["kw"]:
        bound[e["name"]] = e["o"]
    ill = {p["name"] for p in params if p["dflt"] and p["name"] in _ILL_DEFAULTS.get(fn["id"], ())}
    if ill - set(bound) and not diagnosed:
        out.append("ill-typed-default-omitted-accepted")
        if fn["recv"] == "ctor":
            out.append("constructor-default")
    for p in params:
        if p["name"] in ill and p["name"] in bound:
            d, a = p["dflt"][0], bound[p["name"]]
            if a == d and diagnosed:
                out.append("explicit-equal-to-ill-typed-default-diagnosed")
            elif a != d and _py_equal(a, d):
                out.append("explicit-python-equal-to-default-other-literal")
    if o["shape"] in ("mixed", "mixedk") and o["nia"] >= 2:
        out.append("mixed-shape-own-node-and-call-node")
    if fn["mk"] == "ntnew" and o["inferred"]["k"] == "known":
        out.append("call-performed-by-checker")
    if fn["mk"] == "selfmethod":
        out.append("self-typed-method")
    if o["solved"] and any(t == {"k": "any", "src": "generic_argument"} for t in o["sigma"]):
        out.append("unsolved-typevar")
    if fn["ret"]["k"] == "noann":
        out.append("return-inferred-from-body")
    if fn["body"]["k"] == "raise" and o["real"]["raised"]:
        out.append("call-never-returns")
    return out


# parameters of Calls!LibNew whose default lies OUTSIDE the annotation (used for the vacuity classes above only;
# whether a default is ill-typed is also what pyanalyze reports as incompatible_default on the def)
_ILL_DEFAULTS = {
    "d_none": {"x"}, "d_str0": {"name"}, "d_flag": {"flag"}, "d_xs": {"xs"}, "d_mix": {"a", "b"}, "d_ko": {"name"},
    "d_ko2": {"k"}, "g_def": {"d"}, "k0.dmeth": {"x"}, "K.dmeth(k0)": {"x"}, "K.cdef": {"x"}, "K.sdef": {"x"},
    "Box": {"label"}, "WN": {"x"}, "DD": {"x"}, "DK": {"y"},
}


def _py_equal(a: dict, b: dict) -> bool:
    """Python's == on two object terms (0 == False == 0.0) -- for the vacuity classes only."""
    try:
        return bool(eval(lit(a), {}) == eval(lit(b), {}))  # literals of the universe only (no names)
    except Exception:  # noqa: BLE001 - A() and friends: not comparable here
        return False


def _nontrivial(libdata_fns: dict, case: dict) -> bool:
    if "sess" in case:
        return len(case["sess"]) >= 2
    fn = libdata_fns[case["fn"]]
    return bool(fn["tvs"]) or len(case["pos"]) + len(case["kw"]) >= 2 or fn["recv"] != "fn"


def judge(check: core.Check, libdata: dict, cases: list[dict], label: str,
          observations: Optional[list[dict]] = None) -> dict[str, int]:
    obs = observations if observations is not None else observe(libdata, cases)
    verdicts, stats = core.adjudicate("CallsTrace", TRACE_CFG, obs, batch=800, parallel=10, timeout=3000)
    check.add_trace_stats(stats)
    check.evals(len(obs))
    fns = {f["id"]: f for f in libdata["lib"]}
    counts: dict[str, int] = {}
    classes = check.cov.setdefault("outcome_classes", {k: 0 for k in OUTCOMES})
    # information, not a verdict: what the checker infers for DIAGNOSED calls (the result clause judges only calls whose
    # arguments fit; the drift clause still pins the value to the model's get_default_return / declared return)
    on_error = check.cov.setdefault("inferred_on_error", {})
    for o in obs:
        for k in outcome_classes(fns, o):
            classes[k] += 1
        if o["kind"] == "call" and o["nia"] + o["nic"] > 0:
            inf = o["inferred"]
            key = ("generic:" if fns[o["fn"]]["tvs"] else "nongeneric:") + inf["k"] + (":" + inf["src"] if inf["k"] == "any" else "")
            on_error[key] = on_error.get(key, 0) + 1
        if o["kind"] == "sess":
            case = {"sess": o["calls"]}
        else:
            case = {"fn": o["fn"], "shape": o["shape"], "pos": o["pos"], "kw": o["kw"]}
        if _nontrivial(fns, case):
            check.nontrivial(core.canon(case))
        for v in sorted(set(verdicts.get(o["tid"], []))):
            counts[v] = counts.get(v, 0) + 1
            payload = {"case": case, "source": label, "python": o["src"], "observed": o}
            if v.startswith("oracle:"):
                raise core.MachineryError(
                    f"oracle model disagrees with real CPython ({v}) on {o['src']}: real={o['real']}"
                )
            if v.startswith("viol:"):
                check.violation(core.canon(case), v[5:], payload)
            elif v.startswith("dev:"):
                check.violation(v[4:], v[4:], payload)
            elif v.startswith("drift:"):
                check.drift({"verdict": v, "python": o["src"],
                             "observed": {k: o[k] for k in ("nia", "nic", "acc", "inferred", "solved", "sigma") if k in o}})
            else:
                raise core.MachineryError(f"unknown verdict {v!r} from CallsTrace")
    for o in obs[:: max(1, len(obs) // 3)][:3]:
        check.sample({"source": label, **{k: o[k] for k in ("src", "nia", "nic", "acc", "inferred", "sigma", "real") if k in o}})
    return counts


def split_emitted(res: core.TLCResult) -> tuple[dict, list[dict]]:
    libdata = None
    cases = []
    for x in core.emitted_json(res):
        if isinstance(x, dict) and "lib" in x:
            libdata = x
        else:
            cases.append(x)
    if libdata is None:
        raise core.MachineryError("TLC did not emit the library")
    return libdata, cases


def load_library() -> dict:
    res = core.require_ok(core.run_tlc("CallsEmit", "Calls.lib.cfg", workers=1, timeout=600), "Calls library emission")
    return split_emitted(res)[0]


def run(check: core.Check) -> None:
    quick = check.tier == "quick"
    rnd = random.Random(check.seed)
    check.assumptions += [
        "Member (Values.tla) is the ground truth for 'belongs to the declared type'; for a generic function 'some "
        "argument does not belong' means: under no admissible value of the type variables (candidates: object, the "
        "bound, the constraints, int/str/bool/float/A/B) do all arguments belong",
        "the result clause is judged on calls whose arguments fit (a mis-typed call may return anything); the value "
        "returned is the REAL execution of the call; RefResult (model of the library bodies) is validated against it",
        "only calls that bind are generated (binding itself is C05); arguments: literals of the universe, `A()`/`B()`, "
        "and the helper functions where a Callable is declared; at most 3 arguments, at most MaxKw keywords; written "
        "plainly f(a, k=b) or through literals f(*(a,), **{'k': b})",
        "the result clause presumes that a library body respects its own annotation: the bodies `xs[0] if isinstance(xs, "
        "list) and xs else d` (xs: Union[T, list[T]], -> T) are outside it when the list passed is itself a member of the "
        "value inferred for T (Calls!BodyAmbiguous); strings of the universe have at most one character",
        "sessions (several calls in one fresh run of the checker) only cover the protocol-cache family it_obj/it_int/"
        "it_str x ItI()/ItS()/A()/[1]; all other calls are observed in a Checker shared by the whole batch",
        "an explicitly passed argument is judged by Member against the declared type of its parameter whatever the "
        "parameter's default is; an omitted parameter is no argument (its default is exempt, signature.py:654-658). The "
        "library contains defaults OUTSIDE their annotation on purpose (x: int = None, name: str = 0, flag: bool = 1, "
        "xs: list[int] = (), dataclass fields, __init__/__new__/method parameters); such defs are themselves reported "
        "(incompatible_default / incompatible_assignment), which is tolerated on library lines only. No library body lets an "
        "ill-typed default escape through a return type that excludes it: for `def g(x: int = None): return x` (no return "
        "annotation) the checker infers int from the body while g() returns None -- the def is diagnosed, so the result "
        "clause is not applied to that shape",
        "the receiver of a `self: T` method counts as an argument (it must belong to the solution of T); NamedTuple "
        "constructor calls whose arguments are all literals are really executed by the checker (allow_call), the inferred "
        "value is then the literal result; a `-> NoReturn` function raises: nothing is judged about its result",
        "generic classes: the declared parameter type of an inherited __init__ / method is the def's type with the type "
        "parameters of each base replaced by the arguments the subclass gives it (Calls!RefDecl); an instance belongs to "
        "C[args] when its class is C or a subclass and the item it holds belongs to C's item type under args (Calls!GMember). "
        "Each realised module is in sys.modules while it is executed and checked, like an imported module (pyanalyze finds the "
        "class of an unannotated self through sys.modules). Not in the slice (observed, outside the property as stated or a "
        "different mechanism): put() on GBox(1) (T inferred Literal[1], so put(2) is rejected), methods on a module-level "
        "instance ib0 = IntBox(1) (ib0.put('a') is accepted)",
    ]
    # All TLC jobs of this run are independent of each other: the small ones (every quick-tier job; in the thorough tier
    # the sensitivity / slice jobs) are started up front, a few at a time with 4 TLC workers each, and the code below picks
    # up their results where it used to run them one after the other.  JVM start + parsing dominates a small job.
    cfg = "Calls.quick.cfg" if quick else "Calls.thorough.cfg"
    ecfg0 = "Calls.emit.quick.cfg" if quick else "Calls.emit.thorough.cfg"
    ncfg0 = "Calls.new.quick.cfg" if quick else "Calls.new.thorough.cfg"
    small_jobs = [("Calls", "Calls.cov.cfg", {"coverage": True}), ("CallsEmit", "Calls.gen.quick.cfg", {}),
                  ("CallsEmit", "Calls.kwn.quick.cfg", {})]
    small_jobs += [("Calls", c, {}) for c in ("Calls.sens1.cfg", "Calls.sens2.cfg", "Calls.sens3.cfg", "Calls.sens4.cfg",
                                             "Calls.sens5.cfg", "Calls.strict.cfg", "Calls.strict2.cfg", "Calls.strict3.cfg",
                                             "Calls.fixed.cfg")]
    if quick:
        # (quick: Calls.emit.quick.cfg carries the invariants of Calls.quick.cfg too -- one run proves and emits)
        small_jobs = [("CallsEmit", ecfg0, {}), ("CallsEmit", ncfg0, {})] + small_jobs
    core.scratch()
    pool = ThreadPoolExecutor(max_workers=8 if quick else 3)
    started = {(m, c): pool.submit(core.run_tlc, m, c, workers=2 if quick else 4, timeout=3000, **kw) for m, c, kw in small_jobs}
    sim_job = pool.submit(core.simulate_cases, "CallsEmit", "Calls.sim.cfg", 300 if quick else 20000, depth=8,
                          seed=check.seed + 11, check=check, first_num=300 if quick else None)

    def tlc(module: str, cfg_name: str, **kw: Any) -> core.TLCResult:
        fut = started.pop((module, cfg_name), None)
        return fut.result() if fut is not None else core.run_tlc(module, cfg_name, **kw)

    # 1. the design: TLC proves the three clauses for every call of the bounded space on the model
    # (no -coverage on this run: TLC's coverage bookkeeping of the deeply recursive operators exhausts the heap)
    res = core.require_ok(tlc("CallsEmit", ecfg0, timeout=3400) if quick else tlc("Calls", cfg, timeout=3400), "Calls exhaustive")
    if quick:
        started[("CallsEmit", ecfg0)] = pool.submit(lambda: res)   # the same run is the emission run below
    if res.distinct < 5000:
        raise core.MachineryError("Calls exhaustive run explored suspiciously few states")
    check.add_tlc(("exhaustive+emit:" + ecfg0) if quick else ("exhaustive:" + cfg), res)
    cov = core.require_ok(tlc("Calls", "Calls.cov.cfg", coverage=True, timeout=1200), "Calls coverage")
    core.require_coverage(cov, ACTIONS, "Calls")
    check.add_tlc("coverage:Calls.cov.cfg", cov)
    # sensitivity: plausible bugs switched on in the model must violate the diagnosis clause
    for scfg in ("Calls.sens1.cfg", "Calls.sens2.cfg"):
        r = tlc("Calls", scfg, timeout=900)
        if r.violated != "InvDiagnosis":
            raise core.MachineryError(f"sensitivity self-test {scfg} failed: InvDiagnosis unexpectedly holds ({r.error})")
    r = tlc("Calls", "Calls.strict.cfg", timeout=900)
    if r.violated != "InvSessDiagnosisStrict":
        raise core.MachineryError("sensitivity self-test failed: InvSessDiagnosisStrict unexpectedly holds on the model")
    r = tlc("Calls", "Calls.strict2.cfg", timeout=900)
    if r.violated != "InvDiagnosisStrict":
        raise core.MachineryError("sensitivity self-test failed: InvDiagnosisStrict unexpectedly holds on the model")
    fixed = tlc("Calls", "Calls.fixed.cfg", timeout=900)
    if not fixed.ok:
        raise core.MachineryError(f"the model with the proposed repair does not satisfy the strict invariant: {fixed.error}")
    check.cov["sensitivity"] = (
        "model with *args left unchecked (Calls.sens1) and model ignoring TypeVar bounds/constraints (Calls.sens2) "
        "both violate InvDiagnosis; InvSessDiagnosisStrict (no deviation class) is violated: the protocol-cache "
        "deviation is real on the model; Calls.fixed.cfg (proposed repair on) satisfies it; InvDiagnosisStrict is violated "
        "(Calls.strict2): the orbound-ignored deviation is real on the model"
    )
    # 2. S->C: every TLC case through the real checker and real CPython, adjudicated by TLC
    ecfg = "Calls.emit.quick.cfg" if quick else "Calls.emit.thorough.cfg"
    em = core.require_ok(tlc("CallsEmit", ecfg, timeout=3000), "Calls emit")
    if not quick:
        check.add_tlc("emit:" + ecfg, em)
    libdata, cases = split_emitted(em)
    if not cases:
        raise core.MachineryError("no cases emitted")
    # quick: a seeded sample of the first-built slice (every case is proved on the model; thorough replays them all)
    limit = 1500 if quick else 10**7
    exhaustive = len(cases) <= limit
    if not exhaustive:
        cases = rnd.sample(cases, limit)
    # 2b. the defaults / parameter kinds / call forms / returns slice (Calls!LibNew): TLC proves the clauses on the
    # model and emits the cases in the same run.  Quick: every call with at most one argument, plus a seeded sample of
    # the two-argument calls; thorough: all of them (three arguments).
    ncfg = "Calls.new.quick.cfg" if quick else "Calls.new.thorough.cfg"
    nres = core.require_ok(tlc("CallsEmit", ncfg, timeout=3000), "Calls defaults slice")
    check.add_tlc("exhaustive+emit:" + ncfg, nres)
    new_cases = [c for c in core.emitted_json(nres) if not (isinstance(c, dict) and "lib" in c)]
    if len(new_cases) < 2000:
        raise core.MachineryError("the defaults slice emitted suspiciously few cases")
    check.cov["defaults_slice_model_cases"] = len(new_cases)
    if quick:
        small = [c for c in new_cases if len(c["pos"]) + len(c["kw"]) <= 1]
        big = [c for c in new_cases if len(c["pos"]) + len(c["kw"]) > 1]
        big.sort(key=core.canon)
        new_cases = small + rnd.sample(big, min(len(big), 1000))
        exhaustive_new = len(new_cases) == check.cov["defaults_slice_model_cases"]
    else:
        exhaustive_new = True
    check.cov["defaults_slice_replayed"] = len(new_cases)
    check.cov["defaults_slice_exhaustive"] = exhaustive_new
    r = tlc("Calls", "Calls.sens3.cfg", timeout=900)
    if r.violated != "InvDiagnosis":
        raise core.MachineryError(
            f"sensitivity self-test Calls.sens3.cfg failed: a model that treats 'equal to the default' as 'is the default' "
            f"unexpectedly satisfies InvDiagnosis ({r.error})")
    check.cov["sensitivity"] += (
        "; model deciding 'this argument is the parameter's default' by equality instead of identity (Calls.sens3, "
        "Bug = default_by_equality) violates InvDiagnosis"
    )
    # 2c. the generic-classes slice (Calls!LibGen: constructors of user-defined generic classes and of subclasses that
    # fix / re-parameterise the base's parameters, methods on constructed instances, classmethod, explicit
    # specialisation, generic class / protocol as a parameter type): proved on the model and emitted in one run, all
    # cases replayed in both tiers
    gres = core.require_ok(tlc("CallsEmit", "Calls.gen.quick.cfg", timeout=1800), "Calls generic-classes slice")
    check.add_tlc("exhaustive+emit:Calls.gen.quick.cfg", gres)
    gen_cases = [c for c in core.emitted_json(gres) if not (isinstance(c, dict) and "lib" in c)]
    if len(gen_cases) < 300:
        raise core.MachineryError("the generic-classes slice emitted suspiciously few cases")
    check.cov["generic_classes_slice_cases"] = len(gen_cases)
    r = tlc("Calls", "Calls.sens4.cfg", timeout=900)
    if r.violated != "InvDiagnosis":
        raise core.MachineryError(
            f"sensitivity self-test Calls.sens4.cfg failed: a model that binds self of an inherited constructor without "
            f"matching the generic bases unexpectedly satisfies InvDiagnosis ({r.error})")
    r = tlc("Calls", "Calls.strict3.cfg", timeout=900)
    if r.violated != "InvDiagnosisStrict":
        raise core.MachineryError("sensitivity self-test failed: InvDiagnosisStrict unexpectedly holds on the generic-classes slice")
    check.cov["sensitivity"] += (
        "; model whose constructor signature of a class without type parameters of its own skips the match of the "
        "declared self type against the class (Calls.sens4, Bug = ctor_self_unmatched) violates InvDiagnosis; "
        "InvDiagnosisStrict is violated on the generic-classes slice (Calls.strict3): the deviations classmethod-on-"
        "specialised-class-keeps-free-typevar / subscripted-generic-class-call-unchecked are real on the model"
    )
    # 2d. the keyword-names slice (Calls!LibKwn: typed **kwargs next to positional-only / *args parameters; keyword menus
    # with the names of all parameters incl. `kwargs` itself and a foreign name): quick replays every call with at most
    # two arguments and a seeded sample of the three-argument calls, thorough all
    kres = core.require_ok(tlc("CallsEmit", "Calls.kwn.quick.cfg", timeout=1800), "Calls keyword-names slice")
    check.add_tlc("exhaustive+emit:Calls.kwn.quick.cfg", kres)
    kwn_cases = [c for c in core.emitted_json(kres) if not (isinstance(c, dict) and "lib" in c)]
    if len(kwn_cases) < 1000:
        raise core.MachineryError("the keyword-names slice emitted suspiciously few cases")
    check.cov["keyword_names_slice_model_cases"] = len(kwn_cases)
    if quick:
        small = [c for c in kwn_cases if len(c["pos"]) + len(c["kw"]) <= 2]
        big = sorted((c for c in kwn_cases if len(c["pos"]) + len(c["kw"]) > 2), key=core.canon)
        kwn_cases = small + rnd.sample(big, min(len(big), 400))
    check.cov["keyword_names_slice_replayed"] = len(kwn_cases)
    r = tlc("Calls", "Calls.sens5.cfg", timeout=900)
    if r.violated != "InvDiagnosis":
        raise core.MachineryError(
            f"sensitivity self-test Calls.sens5.cfg failed: a model that leaves keywords named like an already bound "
            f"parameter out of **kwargs unexpectedly satisfies InvDiagnosis ({r.error})")
    check.cov["sensitivity"] += (
        "; model whose **kwargs value leaves out every keyword named like an already bound parameter (positional-only, "
        "*args) instead of the keywords a named parameter consumed (Calls.sens5, Bug = kwargs_drops_bound_names) violates "
        "InvDiagnosis"
    )
    cases = cases + new_cases + gen_cases + kwn_cases
    check.cov["exhaustive"] = exhaustive
    check.cov["model_cases"] = len(cases)
    check.cov["library_functions"] = len(libdata["lib"])
    check.cov["rule"] = (
        "cases = states with stage=done of Calls.tla (library function x literal argument tuple that binds); "
        "non-trivial = generic function, or >= 2 arguments, or a method/classmethod/staticmethod/constructor. "
        "Two slices: (a) the first-built library (Calls.emit.*.cfg: small/full literal menu, plain [+ star] shapes) and "
        "(b) the defaults / parameter kinds / call forms / returns entries Calls!LibNew (Calls.new.*.cfg: menu "
        "0, False, 0.0, '', None, (), 1, True, 'a', [1], A(); class objects / dict displays where type[A] / a TypedDict is "
        "declared; shapes plain, star, mixed f(a, *(b,), **{..}), mixedk f(*(a,), k=b); quick <= 2 arguments with every "
        "<= 1-argument call and a seeded sample of 1000 two-argument calls replayed, thorough <= 3 arguments, all replayed); "
        "(c) user-defined generic classes Calls!GClasses / LibGen (Calls.gen.quick.cfg, both tiers, all replayed): GBox(Generic[T]) "
        "with __init__/get/put/classmethod make, IntBox(GBox[int]), SmallIntBox(IntBox), StrBox(GBox[str]), "
        "PairBox(GBox[tuple[KT, VT]], Generic[KT, VT]), OwnBox (own __init__), NumBox (bound float), ConBox (constrained), "
        "dataclass DBox / IntDBox; calls C(x), C(x).get(), C(<fit>).put(x), C.make(x), GBox[int](x), unbox(b: GBox[T]), "
        "first(b: HasGet[T]) over 1 / True / 'a' / 1.5 / None (tuples, constructed instances where declared), plain and star; "
        "(d) keyword names Calls!LibKwn (Calls.kwn.quick.cfg): po_kw(a: int, /, **kwargs: str), po_default_kw(a: int = 0, /, "
        "flag: bool = False, **kwargs: str), va_kw(*args: int, **kwargs: str), dunder_kw(__a: int, **kwargs: str), "
        "tv_kw(a: T, /, **kwargs: T); keywords named a / flag / args / kwargs / zz with values 'a', 1, True; <= 2 positionals, "
        "<= 2 keywords, <= 3 arguments; shapes plain / star / mixed / mixedk; bodies return every parameter (landing slots "
        "validated against CPython); quick: all <= 2-argument calls + 400 sampled, thorough: all"
    )
    # 3. beyond the exhaustive bound: TLC random simulation of the full literal set with more arguments (quick: judged
    # in the same adjudication batches as the enumerated cases)
    sim = [c for c in sim_job.result() if not (isinstance(c, dict) and "lib" in c)]
    pool.shutdown()
    if quick:
        counts = judge(check, libdata, cases + sim, "tlc-exhaustive+simulate")
    else:
        counts = judge(check, libdata, cases, "tlc-exhaustive")
        judge(check, libdata, sim, "tlc-simulate")
    check.cov["verdict_counts"] = counts
    corrupted_default_selftest(libdata)
    check.cov["sensitivity"] += (
        "; corrupted observations (d_none(None) / Box(0) / DK(x=1, y=0) recorded as not diagnosed, d_none() recorded as "
        "diagnosed, NT(1) recorded as inferring NT(2, 'a')) are flagged by the trace specification"
    )
    # (the three-argument functions are only in the thorough tier's exhaustive set)
    optional = {"star-params-merged-diagnostic"} if quick else set()
    missing = [k for k, n in check.cov["outcome_classes"].items() if n == 0 and k not in optional]
    if missing and not check.violations:  # (a run that found violations is not vacuous; its paths may differ)
        raise core.MachineryError(f"vacuity: no real observation went through {missing}")


def corrupted_default_selftest(libdata: dict) -> None:
    """The clauses of the defaults slice are not vacuous on REAL observations: corrupt recorded fields and confirm that
    TLC's verdict flags each."""
    def I(v):  # noqa: E743
        return {"c": "int", "v": str(v), "items": []}

    none = {"c": "NoneType", "v": "None", "items": []}
    cases = [
        {"fn": "d_none", "shape": "plain", "pos": [none], "kw": []},
        {"fn": "Box", "shape": "plain", "pos": [I(0)], "kw": []},
        {"fn": "DK", "shape": "plain", "pos": [], "kw": [{"name": "x", "o": I(1)}, {"name": "y", "o": I(0)}]},
        {"fn": "d_none", "shape": "plain", "pos": [], "kw": []},
        {"fn": "NT", "shape": "plain", "pos": [I(1)], "kw": []},
    ]
    import copy

    clean = observe(libdata, cases)
    obs = copy.deepcopy(clean)
    for o in obs[:3]:
        o["nia"] = 0           # "the explicit argument equal to the ill-typed default was not diagnosed"
    obs[3]["nia"] = 1          # "the omitted default was diagnosed"
    obs[4]["inferred"] = {"k": "known", "o": {"c": "NT", "v": "", "items": [I(2), {"c": "str", "v": "a", "items": []}]}}
    n = len(clean)
    for o in obs:
        o["tid"] += n
    both, _ = core.adjudicate("CallsTrace", TRACE_CFG, clean + obs)     # one TLC run: clean copies, then corrupted ones
    if any(tid < n for tid in both):
        return  # genuine verdicts on these calls are reported by the main run; nothing to self-test against
    bad = {tid - n: v for tid, v in both.items()}
    want = {0: "viol:Diagnosis", 1: "viol:Diagnosis", 2: "viol:Diagnosis", 3: "viol:Diagnosis", 4: "viol:ResultInInferred"}
    missing = {i: v for i, v in want.items() if v not in bad.get(i, [])}
    if missing:
        raise core.MachineryError(f"defaults self-test: corrupted observations not flagged: {missing} (verdicts {bad})")


def replay(check: core.Check, witness: dict) -> None:
    judge(check, load_library(), [witness["case"]], "replay")


def selftest_binding(check: core.Check) -> None:
    """Corrupt one recorded field of real observations and confirm that TLC's verdict flags it."""
    libdata = load_library()
    cases = [
        {"fn": "f_int", "shape": "plain", "pos": [{"c": "str", "v": "a", "items": []}], "kw": []},
        {"fn": "ident", "shape": "plain", "pos": [{"c": "int", "v": "1", "items": []}], "kw": []},
    ]
    obs = observe(libdata, cases)
    clean, _ = core.adjudicate("CallsTrace", TRACE_CFG, obs)
    if clean:
        raise core.MachineryError(f"binding self-test: unexpected verdicts on clean observations: {clean}")
    obs[0]["nia"] = 0  # pretend the real checker did not diagnose f_int("a")
    obs[1]["inferred"] = {"k": "typed", "c": "str"}  # pretend it inferred str for ident(1)
    bad, _ = core.adjudicate("CallsTrace", TRACE_CFG, obs)
    if "viol:Diagnosis" not in bad.get(0, []) or "viol:ResultInInferred" not in bad.get(1, []):
        raise core.MachineryError(f"binding self-test: corrupted observations not flagged: {bad}")
    print(f"binding self-test ok: corrupted records flagged by TLC: {bad}")
