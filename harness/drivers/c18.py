"""C18 -- configuration layering follows the documented precedence.

S->C: every case TLC enumerates from Config.tla (chains of config files x command line x queried
module, plus malformed configurations) is realised as real TOML files and looked up through the real
code by the route the case names:

  inst    Options.from_option_list([cls(v, from_command_line=True)], config_file_path=...)
  kwargs  NameCheckVisitor.prepare_constructor_kwargs({...})          (command-line assembly)
  argv    NameCheckVisitor.main() on a real sys.argv                  (argparse + main + assembly)
  proc    `python -m pyanalyze --config-file f1.toml <flags> --display-options` in a subprocess
          (a sample of the argv cases; the displayed values are parsed)

C->S: the recorded (case, real value, command-line instances) lines are adjudicated by TLC against
ConfigTrace.tla (RefLookup = the documented precedence; ImplLookup / ImplCmdValues = the transcription
of options.py and of the command-line assembly).
"""
from __future__ import annotations

import ast
import json
import os
import random
import re
import shutil
import subprocess
import sys
import time
import types
from concurrent.futures import ThreadPoolExecutor
from pathlib import Path
from typing import Any

from .. import core, tlaparse  # noqa: F401

LEVEL = "model_checking"

# real options standing for the kinds
BOOL_OPT = {"T": "undefined_name", "F": "missing_f"}  # default enabled / default disabled
KIND_OPT = {
    "flag": "for_loop_always_entered",
    "int": "maximum_positional_args",
    "list": "extra_builtins",
    "paths": "import_paths",
    "files": "paths",
}
INT_VAL = {"v1": 5, "v2": 0}


HIST_DEFAULT = {"flag": ["F"], "int": ["d"], "list": ["dflt"], "paths": [], "files": [], "bool": ["T"]}
# the real command line over several files observes the list kind through `disallowed_imports`: every tag a
# section can write is spelled as an importable standard-library module, and every checked file imports them all
TAG_MODULE = {
    "cmd": "getopt", "f1.top": "sched", "f1.a": "quopri", "f1.ab": "colorsys", "f2.top": "netrc", "f2.a": "plistlib",
    "f2.ab": "pyclbr", "f3.top": "shelve", "f3.a": "stringprep", "f3.ab": "tabnanny",
}
MODULE_TAG = {m: t for t, m in TAG_MODULE.items()}


def _opt_name(case: dict) -> str:
    if case["kind"] == "bool":
        return BOOL_OPT[case["default"][0]]
    if case["kind"] == "list" and case.get("_cli"):
        return "disallowed_imports"
    return KIND_OPT[case["kind"]]


def _views(case: dict) -> list[dict]:
    """One view of the case per option kind it speaks about: the case itself, or -- for a case with a history
    -- the case with `kind` replaced by every kind that is looked up (HistView of Config.tla)."""
    if not case.get("lookups"):
        return [case]
    kinds = sorted({lk["kind"] for lk in case["lookups"]})
    return [{**case, "kind": k, "default": HIST_DEFAULT[k]} for k in kinds]


def _toml_value(case: dict, v: str, tag: str) -> str:
    k = case["kind"]
    if k in ("bool", "flag"):
        return "true" if v == "v1" else "false"
    if k == "int":
        return str(INT_VAL[v])
    if case.get("_cli") and k == "list":
        tag = TAG_MODULE[tag]
    return json.dumps([tag] if v == "v1" else [])


_WRONG = {
    # a TOML value of another type than the option's
    "wrong_type": {"bool": '"yes"', "flag": '"yes"', "int": '"many"', "list": "3", "paths": '"x"', "files": "3"},
    # the near-miss type (bool for int, string for bool, string for a list)
    "bool_for_int": {"bool": '"true"', "flag": '"true"', "int": "true", "list": '"x"', "paths": "true", "files": '"x"'},
    # a list whose element has the wrong type
    "wrong_elem_type": {"list": "[3]", "paths": '["x", 3]', "files": "[true]"},
}


def _section_items(case: dict, sec: dict, tag: str, bad: str | None) -> list[str]:
    items = []
    name = _opt_name(case)
    if sec["val"] in ("v1", "v2"):
        for view in _views(case):
            items.append(f"{_opt_name(view)} = {_toml_value(view, sec['val'], tag)}")
    if sec.get("da"):
        items.append("disable_all = true")
    if bad == "unknown_key":
        items.append("no_such_option_xyz = true")
    elif bad == "disable_all_not_bool":
        items = [it for it in items if not it.startswith("disable_all")]
        items.append('disable_all = "yes"')
    elif bad in _WRONG:
        # replace/add the option with a value of the wrong TOML type
        items = [it for it in items if not it.startswith(name + " =")]
        items.append(f"{name} = {_WRONG[bad][case['kind']]}")
    return items


def _dir(layout: str, i: int) -> str:
    return "d1" if layout == "flat" else "/".join(f"d{k}" for k in range(1, i + 1))


def _edge(case: dict, root: Path, i: int, j: int) -> str:
    """The extend_config value by which file i names file j, in the spelling of the case (Config.tla, AllSpells)."""
    layout = case.get("layout", "flat")
    here = root / _dir(layout, i)
    target = root / _dir(layout, j) / f"f{j}.toml"
    rel = os.path.relpath(target, here)
    spell = case.get("spell", "same")
    if spell == "same":
        return rel
    if spell == "dot":
        return "./" + rel
    if spell == "up":
        return f"../{here.name}/{rel}"
    if spell == "abs":
        return str(target)
    if spell == "redundant":
        (here / "sub").mkdir(parents=True, exist_ok=True)
        return "sub/../" + rel
    if spell == "symlink":
        here.mkdir(parents=True, exist_ok=True)
        link = here / f"l{j}.toml"
        if link.is_symlink():
            link.unlink()
        link.symlink_to(target)
        return link.name
    raise core.MachineryError(f"unknown spelling {spell!r}")


def write_files(case: dict, root: Path) -> Path:
    """Realise the chain of files of the case under `root`; returns the main file."""
    files = case["files"]
    n = len(files)
    bad = case["bad"]
    layout = case.get("layout", "flat")
    for i, f in enumerate(files, start=1):
        here = bad != "none" and case["badfile"] == i
        loc = case["badloc"]
        top_bad = bad if here and loc == "top" else None
        ova_bad = bad if here and loc == "ova" else None
        lines = _section_items(case, f["top"], f"f{i}.top", top_bad)
        if case.get("_cli") and i == 1:
            lines.append('import_paths = ["."]')
        if here and bad == "module_at_top":
            lines.append('module = "a"')
        ovs = []
        for key, mod, name in (("ova", "a", "a"), ("ovab", "a.b", "ab")):
            sec = f[key]
            if sec["val"] == "absent":
                continue
            items = _section_items(case, sec, f"f{i}.{name}", ova_bad if key == "ova" else None)
            if here and bad == "nested_overrides" and key == "ova":
                items.append("overrides = []")
            if here and bad == "recursive_override" and key == "ova":
                # the cycle is closed from inside an override table: back to the main file from the last file,
                # to the file itself from an earlier one
                items.append(f'extend_config = "{_edge(case, root, i, 1 if i == n else i)}"')
            if here and bad == "module_not_string" and key == "ova":
                items.insert(0, "module = 3")
            elif not (here and bad == "override_without_module" and key == "ova"):
                items.insert(0, f'module = "{mod}"')
            ovs.append("{" + ", ".join(items) + "}")
        if f.get("abfirst"):
            ovs.reverse()
        if here and bad == "override_not_table":
            ovs.append("3")
        ov_line = [f"overrides = [{', '.join(ovs)}]"] if ovs else []
        if here and bad == "overrides_not_list":
            ov_line = ['overrides = "a"']
        ext_line = []
        if i < n:
            # a RELATIVE path, resolved against the directory of the including file
            ext_line = [f'extend_config = "{_edge(case, root, i, i + 1)}"']
        if here and bad == "recursive" and i == n:
            # back to the main file: self-inclusion for n = 1, a 2-cycle (3-cycle) for n = 2 (3)
            ext_line = [f'extend_config = "{_edge(case, root, i, 1)}"']
        if here and bad == "missing_file" and i == n:
            ext_line = ['extend_config = "does_not_exist.toml"']
        if here and bad in ("recursive", "missing_file") and i < n:
            # defect in a non-final file: point it at itself / nowhere instead of the next file
            ext_line = [f'extend_config = "{_edge(case, root, i, i)}"'] if bad == "recursive" else ['extend_config = "nope.toml"']
        if here and bad == "extend_not_string":
            ext_line = ["extend_config = 3"]
        pos = f["extpos"]
        if pos == "first":
            body = ext_line + lines + ov_line
        elif pos == "mid":
            body = lines + ext_line + ov_line
        else:
            body = lines + ov_line + ext_line
        d = root / _dir(layout, i)
        d.mkdir(parents=True, exist_ok=True)
        (d / f"f{i}.toml").write_text("[tool.pyanalyze]\n" + "\n".join(body) + "\n")
    return root / "d1" / "f1.toml"


def _clean(root: Path) -> None:
    for p in root.glob("d1/**/*.toml"):
        p.unlink()


# ------------------------------------------------------------------------------------------------
# the command line of a case


def _cmd_value(case: dict) -> Any:
    """The Python value handed to the command-line layer on the routes "inst" and "kwargs"."""
    k, v = case["kind"], case["cmd"]
    if k in ("bool", "flag"):
        return v == "v1"
    if k == "int":
        return INT_VAL[v]
    if k == "paths":
        return [Path("cmd")] if v == "v1" else []
    return ["cmd"] if v == "v1" else []  # list, files


def argv_tokens(case: dict) -> list[str]:
    """Spell the abstract tokens of case.argv as real command-line arguments."""
    flag = "--" + _opt_name(case).replace("_", "-")
    out: list[str] = []
    for tok in case["argv"]:
        if tok == "pos":
            out.append(flag)
        elif tok == "neg":
            out.append("--no-" + flag[2:])
        elif tok in ("v1", "v2"):
            out += [flag, str(INT_VAL[tok])]
        elif tok in ("a1", "a2"):
            out += [flag, "cmd" if tok == "a1" else "cmd2"]
        elif tok in ("f1", "f2"):
            out.append("cmd" if tok == "f1" else "cmd2")
        elif tok == "en":
            out += ["-e", _opt_name(case)]
        elif tok == "dis":
            out += ["-d", _opt_name(case)]
        elif tok == "enall":
            out.append("--enable-all")
        elif tok == "disall":
            out.append("--disable-all")
        else:
            raise core.MachineryError(f"unknown argv token {tok!r}")
    return out


_captured: list[Any] = []
_patched = False
_classes: dict[str, Any] = {}


def _patch_display() -> None:
    """`--display-options` makes prepare_constructor_kwargs call options.display() and sys.exit(0) before a
    Checker is built.  In this (harness) process display() is replaced by a recorder, so that the Options
    object assembled by the real main() / prepare_constructor_kwargs can be queried for any module.  The
    unpatched display() is exercised by the subprocess route."""
    global _patched
    if _patched:
        return
    from pyanalyze.options import Options

    Options.display = lambda self: _captured.append(self)  # type: ignore[method-assign]
    _patched = True


def _class_with_config(root: Path) -> Any:
    """A visitor class that declares its own configuration file (config_filename, relative to the
    directory of the module that defines the class)."""
    key = str(root)
    if key not in _classes:
        from pyanalyze.name_check_visitor import NameCheckVisitor

        modname = "c18_fake_module_%d" % len(_classes)
        mod = types.ModuleType(modname)
        mod.__file__ = str(root / "d1" / "visitor_module.py")
        sys.modules[modname] = mod
        _classes[key] = type("ConfiguredVisitor", (NameCheckVisitor,), {"config_filename": "f1.toml", "__module__": modname})
    return _classes[key]


def _assemble(case: dict, root: Path, main: Path) -> Any:
    """Run the real command-line assembly of the case's route; returns the real Options object."""
    from pyanalyze.error_code import ErrorCode
    from pyanalyze.name_check_visitor import NameCheckVisitor
    from pyanalyze.options import ConfigOption, Options

    name = _opt_name(case)
    route = case["route"]
    if route == "inst":
        inst = []
        if case["cmd"] != "none":
            inst.append(ConfigOption.registry[name](_cmd_value(case), from_command_line=True))
        return Options.from_option_list(inst, config_file_path=main)
    _patch_display()
    del _captured[:]
    old_argv = sys.argv
    try:
        if route == "kwargs":
            kwargs: dict[str, Any] = {"display_options": True}
            cls = NameCheckVisitor
            if case["cfgsrc"] == "arg":
                kwargs["config_file"] = main
            elif case["cfgsrc"] == "class":
                cls = _class_with_config(root)
            if case["cmd"] != "none":
                if case["kind"] == "bool":
                    kwargs["settings"] = {getattr(ErrorCode, name): _cmd_value(case)}
                elif case["kind"] == "files":
                    kwargs["files"] = _cmd_value(case)
                else:
                    kwargs[name] = _cmd_value(case)
            cls.prepare_constructor_kwargs(kwargs)
        elif route == "argv":
            sys.argv = ["pyanalyze", "--config-file", str(main), "--display-options", *argv_tokens(case)]
            NameCheckVisitor.main()
        else:
            raise core.MachineryError(f"unknown route {route!r}")
    except SystemExit as exc:
        if exc.code not in (0, None) or len(_captured) != 1:
            raise
        return _captured.pop()
    finally:
        sys.argv = old_argv
    raise core.MachineryError("command-line assembly returned without displaying the options")


def _encode(case: dict, cls: Any, val: Any, root: Path) -> list[str]:
    k = case["kind"]
    if k in ("bool", "flag"):
        return ["T" if val else "F"] if isinstance(val, bool) else [repr(val)]
    if k == "int":
        return [{5: "i5", 0: "i0", cls.default_value: "d"}.get(val, repr(val))]
    if k == "list":
        return ["dflt" if x in cls.default_value else str(x) for x in val]
    out = []
    for x in val:
        p = Path(x)
        if p.is_absolute():
            try:
                out.append(p.relative_to(root).as_posix())
                continue
            except ValueError:
                pass
        out.append(str(x))
    return out


def _snapshot(raw: Any, names: list[str]) -> list[Any]:
    """A copy of everything a lookup reads: the stored instances of the options and the class defaults."""
    from pyanalyze.options import ConfigOption

    def copy(v: Any) -> Any:
        return list(v) if isinstance(v, (list, tuple)) else v

    snap = []
    for name in names:
        snap.append([(copy(i.value), i.applicable_to, i.from_command_line, i.priority) for i in raw.options.get(name, [])])
        snap.append(copy(ConfigOption.registry[name].default_value))
    return snap


def real_history(case: dict, root: Path) -> tuple[list[Any], list[Any], bool]:
    """ONE real Options object for the case; the lookups of case.lookups are performed on it in order."""
    from pyanalyze.options import ConfigOption, InvalidConfigOption, Options

    views = {v["kind"]: v for v in _views(case)}
    main = write_files(case, root)
    try:
        inst = []
        if case["cmd"] != "none":
            for v in views.values():
                inst.append(ConfigOption.registry[_opt_name(v)](_cmd_value(v), from_command_line=True))
        raw = Options.from_option_list(inst, config_file_path=main)
        names = [_opt_name(v) for v in views.values()]
        before = _snapshot(raw, names)
        real = []
        for lk in case["lookups"]:
            v = views[lk["kind"]]
            cls = ConfigOption.registry[_opt_name(v)]
            # for_module shares the option table (options.py:288), as the checker does for every module
            real.append(_encode(v, cls, raw.for_module(tuple(lk["q"])).get_value_for(cls), root))
        mutated = _snapshot(raw, names) != before
    except InvalidConfigOption:
        return [["error"]], [], False
    except BaseException as exc:
        return [["raised", type(exc).__name__]], [], False
    return real, [], mutated


def real_lookup(case: dict, root: Path) -> tuple[list[Any], list[list[str]], bool]:
    from pyanalyze.error_code import ErrorCode
    from pyanalyze.options import ConfigOption, InvalidConfigOption

    if case.get("lookups"):
        return real_history(case, root)
    name = _opt_name(case)
    cls = ConfigOption.registry[name]
    main = write_files(case, root)
    try:
        raw = _assemble(case, root, main)
        before = _snapshot(raw, [name])
        # recorded BEFORE the lookup: what the command-line assembly created
        cmdinsts = [_encode(case, cls, i.value, root) for i in raw.options.get(name, []) if i.from_command_line]
        opts = raw.for_module(tuple(case["q"]))
        if case["kind"] == "bool":
            val = opts.is_error_code_enabled(getattr(ErrorCode, name))
            val2 = opts.get_value_for(cls)
            if val != val2:
                return ["inconsistent", repr(val), repr(val2)], [], False
        else:
            val = opts.get_value_for(cls)
        mutated = _snapshot(raw, [name]) != before
    except InvalidConfigOption:
        return ["error"], [], False
    except core.MachineryError:
        raise
    except BaseException as exc:  # any other exception (or exit) is not "a configuration error"
        return ["raised", type(exc).__name__], [], False
    return _encode(case, cls, val, root), cmdinsts, mutated


def _observe_chunk(cases: list[dict]) -> list[tuple[list[Any], list[list[str]], bool]]:
    root = core.new_dir("c18-files").resolve()
    out = []
    for case in cases:
        _clean(root)
        out.append(real_lookup(case, root))
    shutil.rmtree(root, ignore_errors=True)
    return out


def observe(cases: list[dict]) -> list[dict]:
    import pyanalyze.name_check_visitor  # noqa: F401  (imported before forking)

    core.scratch()  # created in the parent, so that the forked workers share (and the parent removes) it

    chunks = [cases[i : i + 400] for i in range(0, len(cases), 400)]
    parts = core.pmap(_observe_chunk, chunks, chunk=1)
    results = [r for part in parts for r in part]
    return [{"tid": tid, "case": c, "real": real, "cmdinsts": ci, "mutated": mut, "asset": False}
            for tid, (c, (real, ci, mut)) in enumerate(zip(cases, results))]


# ------------------------------------------------------------------------------------------------
# route "proc": the real program


_RE_VALUE = re.compile(r"^    (\w+) \(value: (.*)\)$")
_RE_INST = re.compile(r"^        (.*) \(([^()]*)\)$")


def _parse_displayed(text: str) -> Any:
    return ast.literal_eval(re.sub(r"PosixPath\(('[^']*')\)", r"\1", text))


def _observe_proc(case: dict) -> dict:
    """`python -m pyanalyze --config-file d1/f1.toml <flags> --display-options` for one argv case with q = ()."""
    from pyanalyze.options import ConfigOption

    root = core.new_dir("c18-proc").resolve()
    main = write_files(case, root)
    name = _opt_name(case)
    cls = ConfigOption.registry[name]
    env = core.repo_env()
    env["PYTHONPATH"] = str(core.REPO)
    cmd = [sys.executable, "-m", "pyanalyze", "--config-file", str(main), "--display-options", *argv_tokens(case)]
    proc = subprocess.run(cmd, cwd=root, env=env, stdout=subprocess.PIPE, stderr=subprocess.PIPE, text=True, timeout=600)
    shutil.rmtree(root, ignore_errors=True)
    o = {"case": case, "src": "proc", "cmdinsts": [], "mutated": False, "asset": False}
    if proc.returncode != 0:
        last = (proc.stderr.strip().splitlines() or ["?"])[-1]
        o["real"] = ["error"] if "InvalidConfigOption" in last else ["raised", last[:80]]
        return o
    value = None
    insts: list[list[str]] = []
    cur = None
    for line in proc.stdout.splitlines():
        m = _RE_VALUE.match(line)
        if m:
            cur = m.group(1)
            if cur == name:
                value = _parse_displayed(m.group(2))
            continue
        mi = _RE_INST.match(line)
        if mi and cur == name and "from command line" in mi.group(2):
            insts.append(_encode(case, cls, _parse_displayed(mi.group(1)), root))
    if value is None:
        raise core.MachineryError(f"--display-options did not show {name}: {proc.stdout[:300]}")
    o["real"] = _encode(case, cls, value, root)
    o["cmdinsts"] = insts
    return o


Q_FILE = {("a",): "a/__init__.py", ("a", "b"): "a/b.py", ("c",): "c.py"}
_RE_DISALLOWED = re.compile(r"^Disallowed import of module '(\w+)' \(code: disallowed_import\)\nIn (\S+) at line \d+$", re.M)


def cli_history_ok(case: dict) -> bool:
    """Histories the real program can perform in one run: list lookups for distinct real modules."""
    qs = [tuple(lk["q"]) for lk in case["lookups"]]
    return (all(lk["kind"] == "list" for lk in case["lookups"]) and all(q in Q_FILE for q in qs)
            and len(set(qs)) == len(qs) and case["cmd"] != "v2" and case["layout"] == "flat")


def _observe_cli_history(case: dict) -> dict:
    """`python -m pyanalyze --config-file f1.toml [--disallowed-imports M] FILE FILE ...` in ONE run: the list
    kind is `disallowed_imports`, every file imports every module a section can name, and the diagnostics of a
    file show the effective value for that file's module (as a set) after whatever was looked up before."""
    c = {**case, "_cli": True}
    root = core.new_dir("c18-cli").resolve()
    write_files(c, root)
    d1 = root / "d1"
    (d1 / "a").mkdir()
    source = "".join(f"import {m}\n" for m in sorted(MODULE_TAG))
    files = [Q_FILE[tuple(lk["q"])] for lk in case["lookups"]]
    for f in Q_FILE.values():
        (d1 / f).write_text(source)
    env = core.repo_env()
    env["PYTHONPATH"] = str(core.REPO)
    cmd = [sys.executable, "-m", "pyanalyze", "--config-file", "f1.toml"]
    if case["cmd"] == "v1":
        cmd += ["--disallowed-imports", TAG_MODULE["cmd"]]
    proc = subprocess.run(cmd + files, cwd=d1, env=env, stdout=subprocess.PIPE, stderr=subprocess.PIPE, text=True, timeout=900)
    shutil.rmtree(root, ignore_errors=True)
    clean = {k: v for k, v in case.items() if not k.startswith("_")}
    o = {"case": clean, "src": "cli", "cmdinsts": [], "mutated": False, "asset": True}
    if "Traceback" in proc.stderr:
        o["real"] = [["raised", (proc.stderr.strip().splitlines() or ["?"])[-1][:80]]]
        return o
    per_file: dict[str, set[str]] = {f: set() for f in files}
    for m in _RE_DISALLOWED.finditer(proc.stdout + proc.stderr):
        if m.group(2) in per_file and m.group(1) in MODULE_TAG:
            per_file[m.group(2)].add(MODULE_TAG[m.group(1)])
    # the default of disallowed_imports is []; the model's list default is the element "dflt"
    o["real"] = [sorted(per_file[f]) + ["dflt"] for f in files]
    return o


def observe_cli_history(cases: list[dict]) -> list[dict]:
    with ThreadPoolExecutor(8) as ex:
        obs = list(ex.map(_observe_cli_history, cases))
    for tid, o in enumerate(obs):
        o["tid"] = tid
    return obs


def observe_proc(cases: list[dict]) -> list[dict]:
    with ThreadPoolExecutor(8) as ex:
        obs = list(ex.map(_observe_proc, cases))
    for tid, o in enumerate(obs):
        o["tid"] = tid
    return obs


# ------------------------------------------------------------------------------------------------


class _phase:
    """Wall-clock seconds per phase of the run, recorded in the evidence (coverage.phase_wall_s)."""

    def __init__(self, check: core.Check, name: str):
        self.check, self.name = check, name

    def __enter__(self) -> None:
        self.t0 = time.time()

    def __exit__(self, *exc: Any) -> None:
        d = self.check.cov.setdefault("phase_wall_s", {})
        d[self.name] = round(d.get(self.name, 0.0) + time.time() - self.t0, 1)


def _case_key(case: dict) -> str:
    return core.canon(case)


def _nontrivial(c: dict) -> bool:
    return len(c["files"]) > 1 or c["bad"] != "none" or c["cmd"] != "none" or bool(c["argv"]) or bool(c["lookups"])


def judge_obs(check: core.Check, obs: list[dict], label: str) -> dict[Any, list[str]]:
    with _phase(check, "adjudicate(TLC)"):
        verdicts, stats = core.adjudicate("ConfigTrace", "ConfigTrace.cfg", obs, batch=12000, parallel=12)
    check.add_trace_stats(stats)
    check.evals(len(obs))
    for o in obs:
        vs = verdicts.get(o["tid"], [])
        c = o["case"]
        if _nontrivial(c):
            check.nontrivial(_case_key(c))
        for v in vs:
            if v.startswith("viol:"):
                check.violation(_case_key(c), v[5:], {"case": c, "real": o["real"], "cmdinsts": o["cmdinsts"],
                                                      "mutated": o["mutated"], "source": label})
            elif v.startswith("drift:"):
                check.drift({"case": c, "real": o["real"], "cmdinsts": o["cmdinsts"], "what": v})
            else:
                raise core.MachineryError(f"unexpected verdict {v!r}")
    for o in obs[:: max(1, len(obs) // 3)][:3]:
        check.sample({"source": label, **o}, limit=12)
    return verdicts


def judge(check: core.Check, cases: list[dict], label: str) -> None:
    with _phase(check, "replay(real code)"):
        obs = observe(cases)
    judge_obs(check, obs, label)


def _defaults(case: dict) -> dict:
    """Cases recorded before the command-line stage existed (replay witnesses) lack its fields."""
    c = dict(case)
    c.setdefault("route", "inst")
    c.setdefault("argv", [])
    c.setdefault("cfgsrc", "arg")
    c.setdefault("layout", "flat")
    c.setdefault("lookups", [])
    c.setdefault("spell", "same")
    return c


# ------------------------------------------------------------------------------------------------
# sensitivity


_SENS = [
    ("Config.pinned.cfg", "PinnedFollowsDocs", "priority never stored (pinned commit)"),
    ("Config.dropfalsy.cfg", "DropFalsyFollowsDocs", "assembly drops falsy command-line values (--no-flag, --int 0, [])"),
    ("Config.dropdefault.cfg", "DropDefaultSettingsFollowsDocs", "assembly drops -e/-d settings equal to the built-in default"),
    ("Config.maindir.cfg", "MainDirFollowsDocs", "path entries resolved against the main file's directory"),
    ("Config.argvfirst.cfg", "ArgvFirstWinsFollowsDocs", "a repeated --flag / --int N keeps its first value"),
    ("Config.allbeats.cfg", "AllBeatsSingleFollowsDocs", "--enable-all / --disable-all override -e / -d"),
    ("Config.noclasscfg.cfg", "NoClassConfigFollowsDocs", "the visitor class's config_filename is ignored"),
    ("Config.aliasfirst.cfg", "AliasFirstFollowsDocs", "a concatenating lookup accumulates in the stored list (lookups not pure)"),
]


def sensitivity(check: core.Check) -> None:
    """Every seeded variant of the Impl model must be rejected by TLC; a corrupted real observation must be
    rejected by the trace specification."""

    def one(item: tuple[str, str, str]) -> core.TLCResult:
        return core.run_tlc("Config", item[0], workers=2, timeout=900)

    with ThreadPoolExecutor(4) as ex:
        results = list(ex.map(one, _SENS))
    for (cfg, inv, what), res in zip(_SENS, results):
        if res.violated != inv:
            raise core.MachineryError(f"sensitivity self-test failed: model with [{what}] not rejected ({cfg}): {res.error}")
    # corrupted observations: a real code that let the lower layer win over a falsy command-line value
    base = {"files": [{"top": {"val": "v1", "da": False}, "ova": {"val": "absent", "da": False},
                       "ovab": {"val": "absent", "da": False}, "abfirst": False, "extpos": "first"}],
            "q": [], "bad": "none", "badfile": 0, "badloc": "top", "cfgsrc": "arg", "layout": "flat", "lookups": []}
    hist = {**base, "kind": "list", "default": ["dflt"], "route": "inst", "argv": [], "cmd": "none",
            "files": [dict(base["files"][0], ova={"val": "v1", "da": False})],
            "lookups": [{"kind": "list", "q": ["a"]}, {"kind": "list", "q": ["c"]}, {"kind": "list", "q": ["a"]}]}
    corrupted = [
        {**base, "kind": "flag", "default": ["F"], "route": "argv", "argv": ["neg"], "cmd": "none", "_real": ["T"], "_ci": []},
        {**base, "kind": "int", "default": ["d"], "route": "kwargs", "argv": [], "cmd": "v2", "_real": ["i5"], "_ci": []},
        {**base, "kind": "paths", "default": [], "route": "kwargs", "argv": [], "cmd": "v2", "_real": ["d1/f1.top"], "_ci": []},
        {**base, "kind": "bool", "default": ["T"], "route": "argv", "argv": ["disall", "en"], "cmd": "none", "_real": ["F"], "_ci": [["F"]]},
        # right value, but the command-line instance is missing: drift of the assembly model, not a violation
        {**base, "kind": "flag", "default": ["F"], "route": "argv", "argv": ["neg"], "cmd": "none", "_real": ["F"], "_ci": [],
         "files": [dict(base["files"][0], top={"val": "none", "da": False})]},
        # a single lookup with the right value that changed a stored instance
        {**base, "kind": "list", "default": ["dflt"], "route": "inst", "argv": [], "cmd": "none", "_real": ["f1.top", "dflt"],
         "_ci": [], "_mut": True},
        # histories: the override's value leaks to an unrelated module on the 2nd lookup / duplicates on the 3rd /
        # wrong already on the fresh object / all values right but the stored instances changed / all right
        {**hist, "_real": [["f1.a", "f1.top", "dflt"], ["f1.top", "f1.a", "dflt"], ["f1.a", "f1.top", "dflt"]], "_ci": []},
        {**hist, "_real": [["f1.a", "f1.top", "dflt"], ["f1.top", "dflt"], ["f1.a", "f1.top", "dflt", "f1.top", "dflt"]], "_ci": []},
        {**hist, "_real": [["f1.top", "f1.a", "dflt"], ["f1.top", "dflt"], ["f1.a", "f1.top", "dflt"]], "_ci": []},
        {**hist, "_real": [["f1.a", "f1.top", "dflt"], ["f1.top", "dflt"], ["f1.a", "f1.top", "dflt"]], "_ci": [], "_mut": True},
        {**hist, "_real": [["f1.a", "f1.top", "dflt"], ["f1.top", "dflt"], ["f1.a", "f1.top", "dflt"]], "_ci": []},
    ]
    obs = []
    for tid, c in enumerate(corrupted):
        c = dict(c)
        real, ci, mut = c.pop("_real"), c.pop("_ci"), c.pop("_mut", False)
        obs.append({"tid": tid, "case": c, "real": real, "cmdinsts": ci, "mutated": mut, "asset": False})
    verdicts, _ = core.adjudicate("ConfigTrace", "ConfigTrace.cfg", obs)
    want = {0: "viol:CommandLineValueWins", 1: "viol:CommandLineValueWins", 2: "viol:CommandLineValueWins",
            3: "viol:CommandLineValueWins", 4: "drift:ImplCmdInsts", 5: "viol:LookupsDoNotChangeConfiguration",
            6: "viol:LookupIndependentOfHistory", 7: "viol:LookupIndependentOfHistory", 8: "viol:LayeringFollowsDocs",
            9: "viol:LookupsDoNotChangeConfiguration", 10: "ok"}
    got = {tid: (verdicts.get(tid) or ["ok"])[0] for tid in want}
    if got != want:
        raise core.MachineryError(f"sensitivity self-test failed: corrupted observations judged {got}, expected {want}")
    check.cov["sensitivity"] = (
        "TLC rejects each seeded Impl model: " + "; ".join(f"{what} -> {inv} violated" for _, inv, what in _SENS)
        + "; ConfigTrace rejects 4 corrupted observations (lower layer winning over a falsy / specific command-line "
        "value), reports a missing command-line instance as drift, and judges 5 corrupted histories (leak to an unrelated "
        "module, duplicates on a repeated lookup, wrong on the fresh object, changed stored instances) by the right clause"
    )


# ------------------------------------------------------------------------------------------------


# What TLC prints for replay (ConfigSim.tla): every state is model-checked, the printed cases are thinned out by a
# deterministic hash where the space is larger than what is replayed: (modulus for the error-code kind, modulus for
# the other kinds); 1 = every case.  Malformed configurations are always printed.
EMIT = {
    "Config.quick.cfg": (32, 6),
    "Config.thorough.cfg": (256, 16),
    "Config.cmdline.cfg": (6, 1),
    "Config.cmdline3.cfg": (32, 4),
    "Config.hist.cfg": (1, 12),     # histories of >= 2 lookups: 1/12
    "Config.hist3.cfg": (1, 24),
    "Config.spell.cfg": (1, 8),     # acyclic chains in six spellings: 1/8; every cycle (malformed) is printed
}


def _model_check(check: core.Check, cfg: str, what: str) -> tuple[core.TLCResult, list[dict]]:
    mod_bool, mod_rest = EMIT[cfg]
    env = {"C18_EMIT_MOD": str(mod_bool), "C18_EMIT_MOD_REST": str(mod_rest), "C18_EMIT_REM": str(check.seed % 9973)}
    res = core.require_ok(core.run_tlc("ConfigSim", cfg, timeout=10800, env=env), what)
    cases = core.emitted_json(res)
    res.stdout = ""  # hundreds of MB in the thorough tier
    if not cases:
        raise core.MachineryError(f"no cases printed by TLC for {cfg}")
    return res, cases


def run(check: core.Check) -> None:
    quick = check.tier == "quick"
    rnd = random.Random(check.seed)
    check.assumptions += [
        "TLC 1.8.0 and the TLA+ definitions of Config.tla (RefLookup = documented precedence)",
        "real TOML files are parsed by the repository's own tomli; real options stand for the kinds: undefined_name / "
        "missing_f (error codes), for_loop_always_entered (flag), maximum_positional_args (int, default 10), "
        "extra_builtins (concatenated list), import_paths (path list), paths (path list fed by positional files)",
        "routes kwargs/argv: in the harness process Options.display is replaced by a recorder so that the Options "
        "object assembled by the real prepare_constructor_kwargs / main() can be queried per module; the unpatched "
        "display is exercised by the subprocess sample (module () only)",
        "path-sequence options are one value (first statement wins), as PathSequenceOption is not a ConcatenatedOption; "
        "a command line with both -e X and -d X is outside the domain",
    ]
    core.scratch()
    # 1. the design: exhaustive model checking of ImplLookup = RefLookup on every state of
    #    (a) the layering slice: rich main file, route "inst";
    #    (b) the command-line slice: every kind x {absent, falsy, truthy} on the command line (as kwargs and as every
    #        argv of <= 2 tokens) x {absent, falsy, truthy} in override / top level / extended file x defaults;
    #    the sensitivity self-tests (seeded Impl models must be rejected by the same invariant) and the random
    #    simulation of the rich 3-file space (beyond the exhaustive bound) run at the same time.
    cfg = "Config.quick.cfg" if quick else "Config.thorough.cfg"
    cfg2 = "Config.cmdline.cfg" if quick else "Config.cmdline3.cfg"
    #    (c) the history slice: ONE Options object, a sequence of <= 3 lookups (option kind, module) on it
    cfg3 = "Config.hist.cfg" if quick else "Config.hist3.cfg"
    with _phase(check, "TLC: model checking, sensitivity, simulation (concurrent)"):
        with ThreadPoolExecutor(6) as ex:
            f_a = ex.submit(_model_check, check, cfg, "Config layering slice")
            f_b = ex.submit(_model_check, check, cfg2, "Config command-line slice")
            f_h = ex.submit(_model_check, check, cfg3, "Config history slice")
            f_p = ex.submit(_model_check, check, "Config.spell.cfg", "Config spelling slice")
            f_s = ex.submit(sensitivity, check)
            f_sim = ex.submit(core.simulate_cases, "ConfigSim", "Config.sim.cfg", 3000 if quick else 60000,
                              depth=8, seed=check.seed + 1, check=check)
            res, cases = f_a.result()
            res2, cl_cases = f_b.result()
            res3, hist_cases = f_h.result()
            res4, spell_cases = f_p.result()
            f_s.result()
            sim_cases = f_sim.result()
    check.add_tlc("exhaustive:" + cfg, res, printed_cases=len(cases), print_moduli=EMIT[cfg])
    check.add_tlc("exhaustive:" + cfg2, res2, printed_cases=len(cl_cases), print_moduli=EMIT[cfg2])
    check.add_tlc("exhaustive:" + cfg3, res3, printed_cases=len(hist_cases), print_moduli=EMIT[cfg3])
    check.cov["history_cases"] = len(hist_cases)
    check.add_tlc("exhaustive:Config.spell.cfg", res4, printed_cases=len(spell_cases), print_moduli=EMIT["Config.spell.cfg"])
    check.cov["spelling_cases"] = len(spell_cases)
    # 2. S->C replay of the printed cases through the real code, adjudicated by TLC
    capped = False
    for lst, limit in ((cases, 50000 if quick else 700000), (cl_cases, 130000 if quick else 900000)):
        if len(lst) > limit:  # safety cap only: the moduli above are chosen to stay below it
            capped = True
            bad = [c for c in lst if c["bad"] != "none"]
            good = [c for c in lst if c["bad"] == "none"]
            lst[:] = bad + rnd.sample(good, limit - len(bad))
    full = {
        "layering_slice": EMIT[cfg] == (1, 1) and not capped,
        "cmdline_slice_error_code_kind": EMIT[cfg2][0] == 1 and not capped,
        "cmdline_slice_other_kinds": EMIT[cfg2][1] == 1 and not capped,
    }
    check.cov["exhaustive"] = all(full.values())
    check.cov["replayed_exhaustively"] = full
    check.cov["model_cases"] = len(cases) + len(cl_cases)
    check.cov["cmdline_cases"] = len(cl_cases)
    check.cov["rule"] = (
        "TLC checks ImplLookup = RefLookup on every state; replayed cases = the states with stage=done that ConfigSim "
        "prints (all malformed ones; of the others a deterministic hash sample 1/m, m per slice and kind in "
        f"tlc_runs[].print_moduli = (error-code kind, other kinds)). Layering slice ({cfg}, route inst): chain of "
        f"<= {2 if quick else 3} files (rich main file: overrides a and a.b in both orders, extend_config first/mid/last, "
        "disable_all) x cmdline {absent,falsy,truthy} x 4 queried modules x kind {bool,int,list}, plus malformed configs. "
        f"Command-line slice ({cfg2}): kinds {{bool,flag,int,list,paths,files}} x chains of <= {2 if quick else 3} slim "
        "files (top + override a, each {absent,falsy,truthy}, disable_all at top level; flat and nested directories) x "
        "routes {kwargs (config file given / declared by the class / none), argv (every command line of <= 2 tokens for "
        "the option)" + ("" if quick else ", inst") + "} x 4 queried modules x defaults (incl. the truthy default 10 of "
        "maximum_positional_args and both error-code defaults), plus 14 kinds of malformed configuration at every "
        "file/section with and without a command-line value. "
        "Spelling slice (Config.spell.cfg): chains of <= 3 files whose extend_config references are spelled {same dir, "
        "./x, ../dir/x, absolute, sub/../x, through a symlink}: acyclic chains follow the precedence, cycles of length 1-3 "
        "(closed at top level or inside an override table) and self-inclusions raise InvalidConfigOption in every spelling. "
        f"History slice ({cfg3}): ONE real Options object per case (chains of <= {2 if quick else 3} slim files x cmdline) and "
        f"every sequence of <= 3 lookups (kind in {{list,int}} x 4 modules) performed on it "
        "through for_module(...).get_value_for; every lookup judged against the documented value, stored instances and class "
        "defaults compared before/after (every single-lookup case too); a sample performed by the real program in one run "
        "over several files. Simulation: rich 3-file space, all kinds and routes. "
        "non-trivial = more than one file, or a command-line value/argv, or malformed"
    )
    judge(check, cases, "tlc-exhaustive")
    cases.clear()
    judge(check, cl_cases, "tlc-cmdline")
    judge(check, hist_cases, "tlc-history")
    judge(check, spell_cases, "tlc-spelling")
    judge(check, sim_cases, "tlc-simulate")
    # 3. the real program for a sample of the argv cases (module () only: that is what --display-options shows)
    argv_cases = [c for c in cl_cases if c["route"] == "argv" and c["q"] == [] and (c["argv"] or c["bad"] != "none")]
    by_kind: dict[str, list[dict]] = {}
    for c in argv_cases:
        by_kind.setdefault(c["kind"], []).append(c)
    per_kind = 6 if quick else 60
    proc_cases = [c for k in sorted(by_kind) for c in rnd.sample(by_kind[k], min(per_kind, len(by_kind[k])))]
    with _phase(check, "subprocess sample"):
        proc_obs = observe_proc(proc_cases)
    judge_obs(check, proc_obs, "subprocess --display-options")
    check.cov["subprocess_cases"] = len(proc_obs)
    # 4. the real program over several files in ONE run, for a sample of the histories it can perform (preferring
    #    those where some module gets fewer layers than an earlier one: that is where a leak would show)
    cli_cases = [c for c in hist_cases if cli_history_ok(c)]
    rnd.shuffle(cli_cases)
    cli_cases.sort(key=lambda c: not (len(c["files"]) > 1 and any(f["ova"]["val"] == "v1" for f in c["files"])
                                      and any(f["top"]["val"] == "v1" for f in c["files"])))
    cli_cases = cli_cases[: 16 if quick else 160]
    with _phase(check, "subprocess sample"):
        cli_obs = observe_cli_history(cli_cases)
    judge_obs(check, cli_obs, "subprocess: one run over several files")
    check.cov["subprocess_history_cases"] = len(cli_obs)


def replay(check: core.Check, witness: dict) -> None:
    judge(check, [_defaults(witness["case"])], "replay")
