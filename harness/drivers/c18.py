"""C18 -- configuration layering follows the documented precedence.

S->C: every case TLC enumerates from Config.tla (chains of config files x command line x queried
module, plus malformed configurations) is realised as real TOML files and looked up through
pyanalyze.options; C->S: the recorded (case, real value) lines are adjudicated by TLC against
ConfigTrace.tla (RefLookup = the documented precedence; ImplLookup = the transcription of options.py).
"""
from __future__ import annotations

import json
import os
import random
import shutil
from pathlib import Path
from typing import Any

from .. import core, tlaparse

LEVEL = "model_checking"

# real options standing for the three kinds
BOOL_OPT = {"T": "undefined_name", "F": "missing_f"}  # default enabled / default disabled
INT_OPT = "maximum_positional_args"
LIST_OPT = "extra_builtins"


def _opt_name(case: dict) -> str:
    if case["kind"] == "bool":
        return BOOL_OPT[case["default"][0]]
    return INT_OPT if case["kind"] == "int" else LIST_OPT


def _toml_value(case: dict, v: str, tag: str) -> str:
    k = case["kind"]
    if k == "bool":
        return "true" if v == "v1" else "false"
    if k == "int":
        return "1" if v == "v1" else "2"
    return json.dumps([tag])


def _section_items(case: dict, sec: dict, tag: str, bad: str | None) -> list[str]:
    items = []
    name = _opt_name(case)
    if sec["val"] in ("v1", "v2"):
        items.append(f"{name} = {_toml_value(case, sec['val'], tag)}")
    if sec.get("da"):
        items.append("disable_all = true")
    if bad == "unknown_key":
        items.append("no_such_option_xyz = true")
    elif bad == "bool_for_int":
        # TOML `true` where an integer is expected (for the other kinds: a string where a bool / list is expected)
        wrong = {"bool": '"true"', "int": "true", "list": '"x"'}[case["kind"]]
        items = [it for it in items if not it.startswith(name + " =")]
        items.append(f"{name} = {wrong}")
    elif bad == "disable_all_not_bool":
        items = [it for it in items if not it.startswith("disable_all")]
        items.append('disable_all = "yes"')
    elif bad == "wrong_type":
        wrong = {"bool": '"yes"', "int": '"many"', "list": "3"}[case["kind"]]
        # replace/add the option with a value of the wrong TOML type
        items = [it for it in items if not it.startswith(name + " =")]
        items.append(f"{name} = {wrong}")
    return items


def write_files(case: dict, d: Path) -> Path:
    files = case["files"]
    n = len(files)
    bad = case["bad"]
    for i, f in enumerate(files, start=1):
        here = bad != "none" and case["badfile"] == i
        loc = case["badloc"]
        top_bad = bad if here and loc == "top" else None
        ova_bad = bad if here and loc == "ova" else None
        lines = _section_items(case, f["top"], f"f{i}.top", top_bad)
        if here and bad == "module_at_top":
            lines.append('module = "a"')
        ovs = []
        for key, mod, name in (("ova", "a", "a"), ("ovab", "a.b", "ab")):
            sec = f[key]
            if sec["val"] == "absent":
                continue
            items = _section_items(case, sec, f"f{i}.{name}", ova_bad if key == "ova" else None)
            if here and bad == "nested_overrides" and key == "ova":
                items.append("overrides = []")
            if not (here and bad == "override_without_module" and key == "ova"):
                items.insert(0, f'module = "{mod}"')
            ovs.append("{" + ", ".join(items) + "}")
        if f.get("abfirst"):
            ovs.reverse()
        ov_line = [f"overrides = [{', '.join(ovs)}]"] if ovs else []
        if here and bad == "overrides_not_list":
            ov_line = ['overrides = "a"']
        ext_line = []
        if i < n:
            ext_line = [f'extend_config = "f{i + 1}.toml"']
        if here and bad == "recursive" and i == n:
            ext_line = ['extend_config = "f1.toml"']
        if here and bad == "missing_file" and i == n:
            ext_line = ['extend_config = "does_not_exist.toml"']
        if here and bad in ("recursive", "missing_file") and i < n:
            # defect in a non-final file: point it at itself / nowhere instead of the next file
            ext_line = ['extend_config = "f%d.toml"' % i] if bad == "recursive" else ['extend_config = "nope.toml"']
        pos = f["extpos"]
        if pos == "first":
            body = ext_line + lines + ov_line
        elif pos == "mid":
            body = lines + ext_line + ov_line
        else:
            body = lines + ov_line + ext_line
        (d / f"f{i}.toml").write_text("[tool.pyanalyze]\n" + "\n".join(body) + "\n")
    return d / "f1.toml"


def real_lookup(case: dict, d: Path) -> list[str]:
    from pyanalyze.error_code import ErrorCode
    from pyanalyze.options import ConfigOption, InvalidConfigOption, Options

    name = _opt_name(case)
    cls = ConfigOption.registry[name]
    main = write_files(case, d)
    inst = []
    if case["cmd"] != "none":
        k = case["kind"]
        if k == "bool":
            v: Any = case["cmd"] == "v1"
        elif k == "int":
            v = 1 if case["cmd"] == "v1" else 2
        else:
            v = ["cmd"]
        inst.append(cls(v, from_command_line=True))
    try:
        opts = Options.from_option_list(inst, config_file_path=main).for_module(tuple(case["q"]))
        if case["kind"] == "bool":
            val = opts.is_error_code_enabled(getattr(ErrorCode, name))
            val2 = opts.get_value_for(cls)
            if val != val2:
                return ["inconsistent", repr(val), repr(val2)]
        else:
            val = opts.get_value_for(cls)
    except InvalidConfigOption:
        return ["error"]
    except Exception as exc:  # any other exception is not "a configuration error"
        return ["raised", type(exc).__name__]
    if case["kind"] == "bool":
        return ["T" if val else "F"]
    if case["kind"] == "int":
        return [{1: "i1", 2: "i2", cls.default_value: "d"}.get(val, repr(val))]
    return ["dflt" if x in cls.default_value else str(x) for x in val]


def observe(cases: list[dict]) -> list[dict]:
    d = core.new_dir("c18-files")
    obs = []
    for tid, case in enumerate(cases):
        for p in d.glob("*.toml"):
            p.unlink()
        real = real_lookup(case, d)
        obs.append({"tid": tid, "case": case, "real": real})
    shutil.rmtree(d, ignore_errors=True)
    return obs


def _case_key(case: dict) -> str:
    return core.canon(case)


def judge(check: core.Check, cases: list[dict], label: str) -> None:
    obs = observe(cases)
    verdicts, stats = core.adjudicate("ConfigTrace", "ConfigTrace.cfg", obs, batch=25000, parallel=8)
    check.add_trace_stats(stats)
    check.evals(len(obs))
    for o in obs:
        vs = verdicts.get(o["tid"], [])
        c = o["case"]
        if len(c["files"]) > 1 or c["bad"] != "none" or c["cmd"] != "none":
            check.nontrivial(_case_key(c))
        for v in vs:
            if v.startswith("viol:"):
                check.violation(_case_key(c), v[5:], {"case": c, "real": o["real"], "source": label})
            elif v.startswith("drift:"):
                check.drift({"case": c, "real": o["real"]})
    for o in obs[:: max(1, len(obs) // 3)][:3]:
        check.sample({"source": label, **o})




def run(check: core.Check) -> None:
    quick = check.tier == "quick"
    rnd = random.Random(check.seed)
    check.assumptions += [
        "TLC 1.8.0 and the TLA+ definitions of Config.tla (RefLookup = documented precedence)",
        "real TOML files are parsed by the repository's own tomli; three real options stand for the kinds "
        "(undefined_name / missing_f, max_positional_args, extra_builtins)",
    ]
    # 1. the design: exhaustive model checking of ImplLookup = RefLookup
    cfg = "Config.quick.cfg" if quick else "Config.thorough.cfg"
    res = core.require_ok(core.run_tlc("ConfigSim", cfg, timeout=3000), "Config exhaustive")
    check.add_tlc("exhaustive:" + cfg, res)
    cases = core.emitted_json(res)
    if not cases:
        raise core.MachineryError("no cases in TLC dump")
    # sensitivity: the pinned (pre-fix) behaviour must be rejected by the same invariant
    pin = core.run_tlc("Config", "Config.pinned.cfg", timeout=600)
    if pin.violated != "PinnedFollowsDocs":
        raise core.MachineryError("sensitivity self-test failed: pinned priority handling not rejected by the model")
    check.cov["sensitivity"] = "model with priority never stored (pinned commit) violates LayeringFollowsDocs, as expected"
    # 2. S->C replay of TLC's cases through the real code, adjudicated by TLC
    limit = 60000 if quick else 600000
    exhaustive = len(cases) <= limit
    if not exhaustive:
        bad = [c for c in cases if c["bad"] != "none"]
        good = [c for c in cases if c["bad"] == "none"]
        cases = bad + rnd.sample(good, limit - len(bad))
    check.cov["exhaustive"] = exhaustive
    check.cov["model_cases"] = len(cases)
    check.cov["rule"] = (
        "cases = states with stage=done of Config.tla (chain of <=MaxFiles files x cmdline x query x kind, plus "
        "malformed configs); non-trivial = more than one file, or a command-line value, or malformed"
    )
    judge(check, cases, "tlc-exhaustive")
    # 3. beyond the exhaustive bound: TLC random simulation of the rich 3-file space
    sim_cases = core.simulate_cases("ConfigSim", "Config.sim.cfg", 3000 if quick else 60000, depth=8,
                                    seed=check.seed + 1, check=check)
    judge(check, sim_cases, "tlc-simulate")


def replay(check: core.Check, witness: dict) -> None:
    judge(check, [witness["case"]], "replay")
