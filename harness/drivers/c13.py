"""C13 -- static and runtime views of declarations agree.

Part A (annotations): spec/Annotations.tla.  TLC enumerates annotation expressions (bottom-up generator,
bounded size), checks on the model that the three evaluators (runtime object, string / forward
reference, the checker's own visitor) mean the same type outside the named deviation classes, and emits
every expression.  Each expression is realised as source and pushed through the REAL routes:
  py      eval(e) by real CPython (described structurally; validates the PyEval model in TLC)
  rt      type_from_runtime(eval(e));   str  type_from_runtime("e")
  ast     reveal_type(x) inside `def f(x: e)` of a checked module;  sigrt  get_argspec(f) of that module
  ast563 / sig563   the same in a module with `from __future__ import annotations`
and the recorded observations are adjudicated by TLC against spec/trace/AnnotationsTrace.tla.

Part B (def headers): spec/DefHeaders.tla, see observe_headers below.
"""
from __future__ import annotations

import ast
import contextlib
import io
import random
import re
import types
from typing import Any, Optional

from .. import core, pyz
from ..annot_codec import (
    CodecError,
    V,
    describe_object,
    describe_signature,
    describe_value,
    parse,
    raised,
    render,
)

LEVEL = "model_checking"

PRELUDE = '''
import typing, collections.abc
from typing import (Any, Optional, Union, List, Dict, Tuple, Type, Callable, Literal, Annotated, Final,
                    ClassVar, NewType, TypedDict, Protocol, TypeVar, Sequence)
from typing_extensions import reveal_type, Unpack
class A: ...
class B(A): ...
NT = NewType("NT", int)
class TD(TypedDict):
    a: int
    b: str
class P(Protocol):
    def m(self) -> int: ...
T = TypeVar("T")
TB = TypeVar("TB", bound=int)
TC = TypeVar("TC", int, str)
'''
FUTURE = "from __future__ import annotations\n"

_base_module = None
_modcount = 0


def make_module(code: str, name: Optional[str] = None) -> types.ModuleType:
    """Like pyz.make_module, but with dont_inherit=True: compile() otherwise inherits the
    `from __future__ import annotations` of the calling harness file and EVERY realised module would
    silently be a PEP 563 module (annotations kept as strings)."""
    global _modcount
    _modcount += 1
    name = name or f"verif_c13_m{_modcount}"
    mod = types.ModuleType(name)
    mod.__dict__["__file__"] = name + ".py"
    exec(compile(code, name + ".py", "exec", dont_inherit=True), mod.__dict__)
    return mod


def base_module():
    global _base_module
    if _base_module is None:
        _base_module = make_module(PRELUDE, name="verif_c13_base")
    return _base_module


# --------------------------------------------------------------------------- part A: annotations


def _check_module(src: str):
    """Check one realised module with the real visitor; returns (module, {funcname: reveal value term},
    {funcname: True if an internal_error was reported inside it})."""
    mod = make_module(src)
    fails, _v, tree = pyz.check_source(src, module=mod, annotate=True, want_visitor=True)
    revealed: dict[str, dict] = {}
    spans: list[tuple[int, int, str]] = []
    for node in tree.body:
        if isinstance(node, (ast.FunctionDef, ast.AsyncFunctionDef)) and node.name.startswith("f_"):
            spans.append((node.lineno, node.end_lineno or node.lineno, node.name))
            call = node.body[0].value  # reveal_type(x)
            iv = getattr(call.args[0], "inferred_value", None)
            if iv is not None:
                revealed[node.name] = describe_value(iv)
    crashed: dict[str, str] = {}
    for f in fails:
        code = getattr(f.get("code"), "name", None)
        if code == "internal_error":
            ln = f.get("lineno") or 0
            for a, b, name in spans:
                if a <= ln <= b:
                    m = re.search(r"Internal error: (\w+)", f.get("message", ""))
                    crashed[name] = m.group(1) if m else "internal_error"
    return mod, revealed, crashed


def _module_routes(srcs: dict[int, str], future: bool) -> tuple[dict[int, dict], dict[int, dict]]:
    """ast route and signature route for the given {index: annotation source} in one checked module."""
    body = (FUTURE if future else "") + PRELUDE
    for i, s in srcs.items():
        body += f"def f_{i}(x: {s}) -> None:\n    reveal_type(x)\n"
    checker = pyz.get_checker()
    try:
        mod, revealed, crashed = _check_module(body)
    except Exception as exc:  # the whole check died: isolate the culprit
        if len(srcs) == 1:
            (i,) = srcs
            return {i: raised(exc)}, {i: raised(exc)}
        a_all: dict[int, dict] = {}
        s_all: dict[int, dict] = {}
        for i, s in srcs.items():
            a1, s1 = _module_routes({i: s}, future)
            a_all.update(a1)
            s_all.update(s1)
        return a_all, s_all
    astv: dict[int, dict] = {}
    sigv: dict[int, dict] = {}
    for i in srcs:
        name = f"f_{i}"
        if name in crashed:
            astv[i] = V("Raised", crashed[name])
        elif name in revealed:
            astv[i] = revealed[name]
        else:
            raise core.MachineryError(f"no reveal_type result for {name}: {srcs[i]}")
        try:
            with contextlib.redirect_stderr(io.StringIO()):
                sig = checker.arg_spec_cache.get_argspec(getattr(mod, name))
            sigv[i] = describe_value(sig.parameters["x"].annotation)
        except Exception as exc:
            sigv[i] = raised(exc)
    return astv, sigv


def observe_annotations(arg: tuple[int, list[dict]]) -> list[dict]:
    """Observe one batch of expression terms; returns trace lines (tid = base + position)."""
    from pyanalyze.annotations import type_from_runtime

    base, cases = arg
    g = base_module().__dict__
    obs: list[dict] = []
    evaluable: dict[int, str] = {}
    everything: dict[int, str] = {}
    for i, e in enumerate(cases):
        src = render(e)
        if parse(src) != e:
            raise core.MachineryError(f"codec round trip failed for {src}: {e}")
        o: dict[str, Any] = {"tid": base + i, "e": e, "src": src}
        try:
            obj = eval(src, g)
        except Exception:
            o["py"] = {"k": "raise", "id": "", "args": []}
            obj = None
        else:
            try:
                o["py"] = describe_object(obj)
            except CodecError as exc:
                raise core.MachineryError(f"cannot describe eval({src!r}): {exc}") from exc
            evaluable[i] = src
            try:
                o["rt"] = describe_value(type_from_runtime(obj, globals=g))
            except Exception as exc:
                o["rt"] = raised(exc)
        try:
            o["str"] = describe_value(type_from_runtime(src, globals=g))
        except Exception as exc:
            o["str"] = raised(exc)
        everything[i] = src
        obs.append(o)
    if evaluable:
        astv, sigv = _module_routes(evaluable, future=False)
        for i in evaluable:
            obs[i]["ast"] = astv[i]
            obs[i]["sigrt"] = sigv[i]
    astv, sigv = _module_routes(everything, future=True)
    for i in everything:
        obs[i]["ast563"] = astv[i]
        obs[i]["sig563"] = sigv[i]
    return obs


def _batches(cases: list[dict], size: int) -> list[tuple[int, list[dict]]]:
    return [(i, cases[i : i + size]) for i in range(0, len(cases), size)]


def _flatten(parts: list[list[dict]]) -> list[dict]:
    return [o for part in parts for o in part]


def _is_nontrivial_expr(e: dict) -> bool:
    return e["k"] != "name"


def judge_annotations(check: core.Check, cases: list[dict], label: str) -> dict[str, int]:
    parts = core.pmap(observe_annotations, _batches(cases, 150), chunk=1)
    obs = _flatten(parts)
    stripped = [{k: v for k, v in o.items() if k != "src"} for o in obs]
    verdicts, stats = core.adjudicate("AnnotationsTrace", "AnnotationsTrace.cfg", stripped, batch=4000, parallel=8, timeout=3000)
    check.add_trace_stats(stats)
    check.evals(len(obs))
    counts = {"evaluable": 0, "not_evaluable": 0, "dev": 0}
    for o in obs:
        if o["py"]["k"] == "raise":
            counts["not_evaluable"] += 1
        else:
            counts["evaluable"] += 1
        if _is_nontrivial_expr(o["e"]):
            check.nontrivial(o["src"])
        for v in verdicts.get(o["tid"], []):
            payload = {"kind": "annotation", "e": o["e"], "src": o["src"], "observed": {k: o[k] for k in o if k not in ("tid", "e", "src")}, "source": label}
            if v.startswith("oracle:"):
                raise core.MachineryError(f"{v} on {o['src']}: real CPython object {o['py']}")
            if v.startswith("viol:"):
                check.violation(core.canon(o["e"]), v[5:], payload)
            elif v.startswith("dev:"):
                counts["dev"] += 1
                check.violation(v[4:], v[4:], payload)
            elif v.startswith("drift:"):
                check.drift({"verdict": v, "src": o["src"], "observed": o.get(v[6:])})
    for o in obs[:: max(1, len(obs) // 3)][:3]:
        check.sample({"source": label, **o})
    return counts


def run(check: core.Check) -> None:
    raise NotImplementedError


def replay(check: core.Check, witness: dict) -> None:
    raise NotImplementedError
