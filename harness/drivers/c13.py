"""C13 -- static and runtime views of declarations agree.

Part A (annotations): spec/Annotations.tla.  TLC enumerates annotation expressions (bottom-up generator,
bounded size), checks on the model that the three evaluators (runtime object, string / forward
reference, the checker's own visitor) mean the same type outside the named deviation classes, and emits
every expression.  Each expression is realised as source and pushed through the REAL routes:
  py      eval(e) by real CPython (described structurally; validates the PyEval model in TLC)
  rt      type_from_runtime(eval(e));   str  type_from_runtime("e")
  ast     reveal_type(x) inside `def f(x: e)` of a checked module;  sigrt  get_argspec(f) of that module
  ast563 / sig563   the same in a module with `from __future__ import annotations`
and the recorded observations are adjudicated by TLC against spec/trace/AnnotationsTrace.tla.

Part B (def headers): spec/DefHeaders.tla.  TLC enumerates def headers (all parameter kinds, defaults,
annotations, return, async, PEP 563) with a family of calls; each header is realised as a module-level def
and as a nested def in a defining module plus an importing module, and the def-derived signature, the
runtime signature, CPython's inspect.signature and every call's judgement in the three contexts are
adjudicated by TLC against spec/trace/DefHeadersTrace.tla.

Part C (evaluation context and sharing): spec/AnnotationContext.tla, harness/c13_context.py.  Two real modules that
each define a class K (and one a class Solo), forward references in every spelling, histories of typing.get_type_hints /
pyanalyze's own routes on either module's function, typing's subscription memo really shared inside a case.  TLC checks
that every route means the class of the DECLARING module whatever was resolved before, and adjudicates the real results
(spec/trace/AnnotationContextTrace.tla: viol:ContextIndependent / DeclaringModule / RoutesAgree / CallJudgedInContext).

Part D (shapes of definition): spec/DefShapes.tla, harness/c13_shapes.py.  Methods / classmethods / staticmethods reached
through the class and through an instance, functools.wraps wrappers, decorators with a declared Callable return type,
(async) generators; plus plain headers whose defaults are not literals (DefHeaders.nonlit*.cfg).

No hook in /repo is needed: every observation is the return value of a public entry point.
"""
from __future__ import annotations

import ast
import contextlib
import io
import json
import os
import random
import time
import typing
import re
import types
from typing import Any, Optional

from .. import c13_context, c13_decls, c13_shapes, core, pyz
from ..annot_codec import (
    CodecError,
    V,
    describe_object,
    describe_signature,
    describe_value,
    parse,
    raised,
    render,
)

LEVEL = "model_checking"

PRELUDE = '''
import typing, collections.abc
from typing import (Any, Optional, Union, List, Dict, Tuple, Type, Callable, Literal, Annotated, Final,
                    ClassVar, NewType, TypedDict, Protocol, TypeVar, Sequence)
from typing_extensions import reveal_type, Unpack
class A: ...
class B(A): ...
class TimeoutError(Exception): ...      # these two shadow builtins: a name in a string annotation must mean
class Warning: ...                      # the module's class (module globals before builtins)
NT = NewType("NT", int)
class TD(TypedDict):
    a: int
    b: str
class P(Protocol):
    def m(self) -> int: ...
T = TypeVar("T")
TB = TypeVar("TB", bound=int)
TC = TypeVar("TC", int, str)
from typing_extensions import NotRequired
class TDN(TypedDict):                   # **kwargs: Unpack[TDN]  (spec/DefVarargs.tla)
    p: int
    q: NotRequired[str]
D = 1                                   # defaults that are not literals: a module constant, a call, (a lambda)
def mk() -> int:
    return 1
'''
FUTURE = "from __future__ import annotations\n"

_base_module = None
_modcount = 0

# The known deviations are switchable constants of the specs (FixedStar, FixedFinalInString,
# FixedNestedLiteral, FixedDunder; FALSE in spec/mc/*.cfg = behaviour of the current code).  To try the
# check against a tree with some of /verif/proposed/C13-fix-*.diff applied without editing the cfgs:
#   VERIF_C13_FIXED=star,final,literal,dunder  (any subset)
# The star / final / literal repairs are committed in /repo (see known_findings.jsonl), so they are on by default.
os.environ.setdefault("VERIF_C13_FIXED", "star,final,literal")
_SWITCH = {"star": "FixedStar", "final": "FixedFinalInString", "literal": "FixedNestedLiteral", "dunder": "FixedDunder"}


def _cfg_overrides() -> Optional[dict[str, str]]:
    names = [x.strip() for x in os.environ.get("VERIF_C13_FIXED", "").split(",") if x.strip()]
    if not names:
        return None
    out = {}
    for path in (core.SPEC / "mc").glob("*.cfg"):
        if not path.name.startswith(("Annotations", "DefHeaders")):
            continue
        text = path.read_text()
        for n in names:
            text = text.replace(f"  {_SWITCH[n]} = FALSE", f"  {_SWITCH[n]} = TRUE")
        out[path.name] = text
    return out


def _tlc(module: str, cfg: str, **kw: Any) -> core.TLCResult:
    return core.run_tlc(module, cfg, extra_files=_cfg_overrides(), **kw)


def _adjudicate(module: str, cfg: str, obs: list[dict], **kw: Any):
    return core.adjudicate(module, cfg, obs, extra_files=_cfg_overrides(), **kw)


def make_module(code: str, name: Optional[str] = None) -> types.ModuleType:
    """Like pyz.make_module, but with dont_inherit=True: compile() otherwise inherits the
    `from __future__ import annotations` of the calling harness file and EVERY realised module would
    silently be a PEP 563 module (annotations kept as strings)."""
    global _modcount
    _modcount += 1
    name = name or f"verif_c13_m{_modcount}"
    mod = types.ModuleType(name)
    mod.__dict__["__file__"] = name + ".py"
    exec(compile(code, name + ".py", "exec", dont_inherit=True), mod.__dict__)
    return mod


def clear_typing_caches() -> None:
    """typing memoises X[...] with lru_caches keyed by ==: List[Union[A, B]] evaluated after
    List[Union[B, A]] returns the EARLIER object.  eval(e) is therefore history dependent; the harness
    pins the history to "fresh cache" before every evaluation of a case."""
    for f in typing._cleanups:  # type: ignore[attr-defined]
        f()


def make_module_chunks(chunks: list[str], future: bool) -> types.ModuleType:
    """Execute the chunks one after the other into one module, clearing typing's caches in between."""
    import __future__

    global _modcount
    _modcount += 1
    name = f"verif_c13_m{_modcount}"
    mod = types.ModuleType(name)
    mod.__dict__["__file__"] = name + ".py"
    flags = __future__.annotations.compiler_flag if future else 0
    for chunk in chunks:
        clear_typing_caches()
        exec(compile(chunk, name + ".py", "exec", flags=flags, dont_inherit=True), mod.__dict__)
    return mod


def check_module(src: str, module: types.ModuleType, **kw: Any):
    """pyz.check_source with a visitor that clears typing's caches before every function definition
    (the visitor executes the subscripts of an annotation, see clear_typing_caches)."""
    from pyanalyze.name_check_visitor import NameCheckVisitor

    class CacheClearingVisitor(NameCheckVisitor):
        def visit_FunctionDef(self, node):  # type: ignore[override]
            clear_typing_caches()
            return super().visit_FunctionDef(node)

    tree = ast.parse(src)
    with contextlib.redirect_stderr(io.StringIO()):
        v = CacheClearingVisitor(module.__name__ + ".py", src, tree, module=module, checker=pyz.get_checker(), **kw)
        fails = v.check()
    return fails, v, tree


def base_module():
    global _base_module
    if _base_module is None:
        _base_module = make_module(PRELUDE, name="verif_c13_base")
    return _base_module


# --------------------------------------------------------------------------- part A: annotations


def _check_module(chunks: list[str], future: bool):
    """Check one realised module with the real visitor; returns (module, {funcname: reveal value term},
    {funcname: exception class if an internal_error was reported inside it})."""
    src = "".join(chunks)
    mod = make_module_chunks(chunks, future)
    fails, _v, tree = check_module(src, mod, annotate=True)
    revealed: dict[str, dict] = {}
    spans: list[tuple[int, int, str]] = []
    for node in tree.body:
        if isinstance(node, (ast.FunctionDef, ast.AsyncFunctionDef)) and node.name.startswith("f_"):
            spans.append((node.lineno, node.end_lineno or node.lineno, node.name))
            call = node.body[0].value  # reveal_type(x)
            iv = getattr(call.args[0], "inferred_value", None)
            if iv is not None:
                revealed[node.name] = describe_value(iv)
    crashed: dict[str, str] = {}
    for f in fails:
        code = getattr(f.get("code"), "name", None)
        if code == "internal_error":
            ln = f.get("lineno") or 0
            for a, b, name in spans:
                if a <= ln <= b:
                    m = re.search(r"Internal error: (\w+)", f.get("message", ""))
                    crashed[name] = m.group(1) if m else "internal_error"
    return mod, revealed, crashed


def _module_routes(srcs: dict[int, str], future: bool) -> tuple[dict[int, dict], dict[int, dict]]:
    """ast route and signature route for the given {index: annotation source} in one checked module."""
    chunks = [(FUTURE if future else "") + PRELUDE]
    for i, s in srcs.items():
        chunks.append(f"def f_{i}(x: {s}) -> None:\n    reveal_type(x)\n")
    checker = pyz.get_checker()
    try:
        mod, revealed, crashed = _check_module(chunks, future)
    except Exception as exc:  # the whole check died: isolate the culprit
        if len(srcs) == 1:
            (i,) = srcs
            return {i: raised(exc)}, {i: raised(exc)}
        a_all: dict[int, dict] = {}
        s_all: dict[int, dict] = {}
        for i, s in srcs.items():
            a1, s1 = _module_routes({i: s}, future)
            a_all.update(a1)
            s_all.update(s1)
        return a_all, s_all
    astv: dict[int, dict] = {}
    sigv: dict[int, dict] = {}
    for i in srcs:
        name = f"f_{i}"
        if name in crashed:
            astv[i] = V("Raised", crashed[name])
        elif name in revealed:
            astv[i] = revealed[name]
        else:
            raise core.MachineryError(f"no reveal_type result for {name}: {srcs[i]}")
        try:
            clear_typing_caches()
            with contextlib.redirect_stderr(io.StringIO()):
                sig = checker.arg_spec_cache.get_argspec(getattr(mod, name))
            sigv[i] = describe_value(sig.parameters["x"].annotation)
        except Exception as exc:
            sigv[i] = raised(exc)
    return astv, sigv


def observe_annotations(arg: tuple[int, list[dict]]) -> list[dict]:
    """Observe one batch of expression terms; returns trace lines (tid = base + position)."""
    from pyanalyze.annotations import type_from_runtime

    base, cases = arg
    g = base_module().__dict__
    obs: list[dict] = []
    evaluable: dict[int, str] = {}
    everything: dict[int, str] = {}
    for i, e in enumerate(cases):
        src = render(e)
        if parse(src) != e:
            raise core.MachineryError(f"codec round trip failed for {src}: {e}")
        o: dict[str, Any] = {"tid": base + i, "e": e, "src": src}
        clear_typing_caches()
        try:
            obj = eval(src, g)
        except Exception:
            o["py"] = {"k": "raise", "id": "", "args": []}
            obj = None
        else:
            try:
                o["py"] = describe_object(obj)
            except CodecError as exc:
                raise core.MachineryError(f"cannot describe eval({src!r}): {exc}") from exc
            evaluable[i] = src
            try:
                o["rt"] = describe_value(type_from_runtime(obj, globals=g))
            except Exception as exc:
                o["rt"] = raised(exc)
        try:
            o["str"] = describe_value(type_from_runtime(src, globals=g))
        except Exception as exc:
            o["str"] = raised(exc)
        everything[i] = src
        obs.append(o)
    if evaluable:
        astv, sigv = _module_routes(evaluable, future=False)
        for i in evaluable:
            obs[i]["ast"] = astv[i]
            obs[i]["sigrt"] = sigv[i]
    astv, sigv = _module_routes(everything, future=True)
    for i in everything:
        obs[i]["ast563"] = astv[i]
        obs[i]["sig563"] = sigv[i]
    return obs


def _batches(cases: list[dict], size: int) -> list[tuple[int, list[dict]]]:
    return [(i, cases[i : i + size]) for i in range(0, len(cases), size)]


def _flatten(parts: list[list[dict]]) -> list[dict]:
    return [o for part in parts for o in part]


def _is_nontrivial_expr(e: dict) -> bool:
    return e["k"] != "name"


def judge_annotations(check: core.Check, cases: list[dict], label: str) -> dict[str, int]:
    t0 = time.time()
    parts = core.pmap(observe_annotations, _batches(cases, 100), chunk=1)
    obs = _flatten(parts)
    t1 = time.time()
    stripped = [{k: v for k, v in o.items() if k != "src"} for o in obs]
    verdicts, stats = _adjudicate("AnnotationsTrace", "AnnotationsTrace.cfg", stripped, batch=1500, parallel=8, timeout=3000)
    check.cov.setdefault("timing", []).append({"what": "annotations:" + label, "observe_s": round(t1 - t0, 1), "adjudicate_s": round(time.time() - t1, 1)})
    check.add_trace_stats(stats)
    check.evals(len(obs))
    counts = {"evaluable": 0, "not_evaluable": 0, "dev": 0}
    for o in obs:
        if o["py"]["k"] == "raise":
            counts["not_evaluable"] += 1
        else:
            counts["evaluable"] += 1
        if _is_nontrivial_expr(o["e"]):
            check.nontrivial(o["src"])
        for v in verdicts.get(o["tid"], []):
            payload = {"kind": "annotation", "e": o["e"], "src": o["src"], "observed": {k: o[k] for k in o if k not in ("tid", "e", "src")}, "source": label}
            if v.startswith("oracle:"):
                raise core.MachineryError(f"{v} on {o['src']}: real CPython object {o['py']}")
            if v.startswith("viol:"):
                check.violation(core.canon(o["e"]), v[5:], payload)
            elif v.startswith("dev:"):
                counts["dev"] += 1
                check.violation(v[4:], v[4:], payload)
            elif v.startswith("drift:"):
                check.drift({"verdict": v, "src": o["src"], "observed": o.get(v[6:])})
    for o in obs[:: max(1, len(obs) // 3)][:3]:
        check.sample({"source": label, **o})
    return counts



# --------------------------------------------------------------------------- part B: def headers

_GOOD_ARG = {"noann": "1", "int": "1", "str": '"s"', "A": "A()", "Optional[int]": "None", "list[int]": "[1]", "T": "1", "None": "None",
             "TimeoutError": "TimeoutError(1.5)"}
_BAD_ARG = 'b"x"'
# *args / **kwargs annotated with what the extra arguments are (spec/DefVarargs.tla): a fitting value per position / key
_FIXED_TUPLE = ("Unpack[tuple[int, str]]", "*tuple[int, str]")
_TD_KEY_ARG = {"p": "1", "q": '"s"'}


def _vararg_value(p: dict, k: int) -> str:
    key = _ann_key(p["ann"])
    if key in _FIXED_TUPLE:
        return ("1", '"s"')[k] if k < 2 else "1"
    return _GOOD_ARG.get(key, "1")


def _ann_src(ann: dict) -> Optional[str]:
    return None if ann["k"] == "noann" else render(ann)


def _ann_key(ann: dict) -> str:
    """Key into _GOOD_ARG: the annotation's source with quotes removed."""
    if ann["k"] == "noann":
        return "noann"
    return render(ann).strip("\"'")


def render_header(h: dict) -> str:
    """`(params) -> ret` for the header term."""
    parts: list[str] = []
    params = h["params"]
    kinds = [p["kind"] for p in params]
    star_done = "VAR_POSITIONAL" in kinds
    for i, p in enumerate(params):
        kind = p["kind"]
        if kind == "KEYWORD_ONLY" and not star_done:
            parts.append("*")
            star_done = True
        text = {"VAR_POSITIONAL": "*", "VAR_KEYWORD": "**"}.get(kind, "") + p["name"]
        a = _ann_src(p["ann"])
        if a is not None:
            text += ": " + a
        if p["dflt"] != "none":
            d = {"int:1": "1", "None": "None", "...": "...", "name": "D", "call": "mk()", "lambda": "lambda: 1"}[p["dflt"]]
            text += (" = " if a is not None else "=") + d
        parts.append(text)
        if kind == "POSITIONAL_ONLY" and (i + 1 == len(params) or kinds[i + 1] != "POSITIONAL_ONLY"):
            parts.append("/")
    r = _ann_src(h["ret"])
    return "(" + ", ".join(parts) + ")" + (f" -> {r}" if r is not None else "")


def render_call(h: dict, call: dict) -> str:
    """Argument list of one call of the family: positional slots get a value fitting the parameter they
    land on, keywords one fitting the named parameter; `bad` makes the first argument a bytes object."""
    params = h["params"]
    positional = [p for p in params if p["kind"] in ("POSITIONAL_ONLY", "POSITIONAL_OR_KEYWORD")]
    vararg = next((p for p in params if p["kind"] == "VAR_POSITIONAL"), None)
    by_name = {p["name"]: p for p in params}
    args: list[str] = []
    for j in range(call["npos"]):
        if j < len(positional):
            args.append(_GOOD_ARG[_ann_key(positional[j]["ann"])])
        else:
            args.append(_vararg_value(vararg, j - len(positional)) if vararg is not None else "1")
    for name in sorted(call["kws"]):
        p = by_name.get(name)
        args.append(f"{name}=" + (_GOOD_ARG[_ann_key(p["ann"])] if p is not None else _TD_KEY_ARG.get(name, "1")))
    if call["bad"] and args:
        first = args[0]
        args[0] = (first.split("=")[0] + "=" + _BAD_ARG) if "=" in first and not first.startswith(('"', "[")) else _BAD_ARG
    return ", ".join(args)


def _describe_inspect(f: Any) -> list[list[str]]:
    import inspect

    out = []
    for p in inspect.signature(f).parameters.values():
        out.append([p.name, p.kind.name, "nodefault" if p.default is inspect.Parameter.empty else "default"])
    return out


def _context_results(src: str, mod: types.ModuleType, wanted: dict[int, tuple[int, int]]):
    """Check `src`; wanted maps line number -> (header index, call index) of a `reveal_type(<call>)` statement.
    Returns {(hi, ci): {"codes": [...], "ret": value term}} and the tree."""
    fails, _v, tree = check_module(src, mod, annotate=True)
    codes: dict[int, set[str]] = {}
    for f in fails:
        code = getattr(f.get("code"), "name", None)
        if code in ("reveal_type", None):
            continue
        codes.setdefault(f.get("lineno") or 0, set()).add(code)
    out: dict[tuple[int, int], dict] = {}
    for node in ast.walk(tree):
        if isinstance(node, ast.Expr) and isinstance(node.value, ast.Call) and getattr(node.value.func, "id", None) == "reveal_type":
            key = wanted.get(node.lineno)
            if key is None:
                continue
            inner = node.value.args[0]
            iv = getattr(inner, "inferred_value", None)
            out[key] = {
                "codes": sorted(codes.get(node.lineno, ())),
                "ret": describe_value(iv) if iv is not None else V("Other", "no-inferred-value"),
            }
    return out, tree


class _Src:
    """Source text under construction, remembering the line number of every statement appended."""

    def __init__(self, first: str) -> None:
        self.chunks = [first]
        self.line = first.count("\n") + 1
        self.cur = ""

    def add(self, text: str) -> int:
        at = self.line
        self.cur += text
        self.line += text.count("\n")
        return at

    def end_chunk(self) -> None:
        if self.cur:
            self.chunks.append(self.cur)
            self.cur = ""

    def text(self) -> str:
        return "".join(self.chunks)


def observe_headers(arg: tuple[int, list[dict]]) -> list[dict]:
    """Realise a batch of {h, calls} cases as a defining module + an importing module and record the
    def-derived signature, the runtime signature, CPython's inspect.signature and every call's judgement
    in the three contexts."""
    import sys

    base, cases = arg
    obs: list[dict] = []
    checker = pyz.get_checker()
    # one defining module per value of `future`
    for future in (False, True):
        group = [(i, c) for i, c in enumerate(cases) if c["h"]["future"] == future]
        if not group:
            continue
        d = _Src((FUTURE if future else "") + PRELUDE)
        want_d: dict[int, tuple] = {}
        sig_line: dict[int, int] = {}
        for i, c in group:
            h = c["h"]
            kw = "async def" if h["isasync"] else "def"
            hdr = render_header(h)
            d.add(f"{kw} h_{i}{hdr}: ...\n")
            d.add(f"def outer_{i}() -> None:\n")
            d.add(f"    {kw} g_{i}{hdr}: ...\n")
            sig_line[d.add(f"    reveal_type(g_{i})\n")] = i
            for ci, call in enumerate(c["calls"]):
                want_d[d.add(f"    reveal_type(g_{i}({render_call(h, call)}))\n")] = ("nested", i, ci)
            d.add(f"def caller_{i}() -> None:\n")      # not executed when the module is imported
            for ci, call in enumerate(c["calls"]):
                want_d[d.add(f"    reveal_type(h_{i}({render_call(h, call)}))\n")] = ("defmod", i, ci)
            d.end_chunk()
        dsrc = d.text()
        dmod = make_module_chunks(d.chunks, future)
        sys.modules[dmod.__name__] = dmod
        try:
            res_d, dtree = _context_results(dsrc, dmod, want_d)
            sigdef: dict[int, dict] = {}
            for node in ast.walk(dtree):
                if isinstance(node, ast.Expr) and isinstance(node.value, ast.Call) and node.lineno in sig_line:
                    iv = getattr(node.value.args[0], "inferred_value", None)
                    sig = getattr(iv, "signature", None)
                    sigdef[sig_line[node.lineno]] = describe_signature(sig) if sig is not None else describe_value(iv)
            # the importing module
            names = ", ".join(["A", "TimeoutError"] + [f"h_{i}" for i, _ in group])
            m = _Src(f"from typing_extensions import reveal_type\nfrom {dmod.__name__} import {names}\n")
            want_i: dict[int, tuple] = {}
            for i, c in group:
                m.add(f"def caller_{i}() -> None:\n")
                for ci, call in enumerate(c["calls"]):
                    want_i[m.add(f"    reveal_type(h_{i}({render_call(c['h'], call)}))\n")] = ("importer", i, ci)
            m.end_chunk()
            imod = make_module_chunks([m.text()], False)
            res_i, _ = _context_results(m.text(), imod, want_i)
        finally:
            sys.modules.pop(dmod.__name__, None)
        for i, c in group:
            f = getattr(dmod, f"h_{i}")
            try:
                with contextlib.redirect_stderr(io.StringIO()):
                    sigrt = describe_signature(checker.arg_spec_cache.get_argspec(f))
            except Exception as exc:
                sigrt = raised(exc)
            calls = []
            for ci, call in enumerate(c["calls"]):
                try:
                    calls.append({**call, "src": render_call(c["h"], call), "nested": res_d[("nested", i, ci)],
                                  "defmod": res_d[("defmod", i, ci)], "importer": res_i[("importer", i, ci)]})
                except KeyError as exc:
                    raise core.MachineryError(f"missing call result {exc} for header {render_header(c['h'])}") from exc
            obs.append({"tid": base + i, "h": c["h"], "src": render_header(c["h"]), "inspect": _describe_inspect(f),
                        "sigdef": sigdef.get(i, V("Other", "no-signature")), "sigrt": sigrt, "calls": calls})
    obs.sort(key=lambda o: o["tid"])
    return obs


def _strip_header_obs(o: dict) -> dict:
    o = {k: v for k, v in o.items() if k != "src"}
    o["calls"] = [{k: v for k, v in c.items() if k != "src"} for c in o["calls"]]
    return o


def judge_headers(check: core.Check, cases: list[dict], label: str, cfg: str = "DefHeadersTrace.cfg",
                  module: str = "DefHeadersTrace") -> dict[str, int]:
    t0 = time.time()
    parts = core.pmap(observe_headers, _batches(cases, 10), chunk=1)
    obs = _flatten(parts)
    t1 = time.time()
    verdicts, stats = _adjudicate(module, cfg, [_strip_header_obs(o) for o in obs],
                                      batch=100, parallel=8, timeout=3000)
    check.cov.setdefault("timing", []).append({"what": "headers:" + label, "observe_s": round(t1 - t0, 1), "adjudicate_s": round(time.time() - t1, 1)})
    check.add_trace_stats(stats)
    counts = {"headers": len(obs), "calls": 0, "calls_all_accept": 0, "calls_all_reject": 0, "dev": 0}
    for o in obs:
        check.evals(1 + len(o["calls"]))
        counts["calls"] += len(o["calls"])
        for c in o["calls"]:
            codes = [c[k]["codes"] for k in ("nested", "defmod", "importer")]
            if all(not x for x in codes):
                counts["calls_all_accept"] += 1
            elif all(x for x in codes):
                counts["calls_all_reject"] += 1
        if o["h"]["params"]:
            check.nontrivial(o["src"] + ("|future" if o["h"]["future"] else "") + ("|async" if o["h"]["isasync"] else ""))
        seen: set[str] = set()
        for v in verdicts.get(o["tid"], []):
            if v in seen:
                continue
            seen.add(v)
            payload = {"kind": "header", "h": o["h"], "src": o["src"], "calls": [{k: c[k] for k in ("npos", "kws", "bad")} for c in o["calls"]],
                       "observed": {"inspect": o["inspect"], "sigdef": o["sigdef"], "sigrt": o["sigrt"]}, "source": label}
            if v.startswith("oracle:"):
                raise core.MachineryError(f"{v} on header {o['src']}: real inspect.signature {o['inspect']}")
            if v.startswith("viol:"):
                clause, _, k = v[5:].partition("#")
                if k:
                    payload["call"] = o["calls"][int(k) - 1]
                check.violation(core.canon({"h": o["h"], "clause": v[5:]}), clause, payload)
            elif v.startswith("dev:"):
                counts["dev"] += 1
                check.violation(v[4:], v[4:], payload)
            elif v.startswith("drift:"):
                check.drift({"verdict": v, "src": o["src"], "observed": o.get(v[6:])})
    for o in obs[:: max(1, len(obs) // 2)][:2]:
        s = dict(o)
        s["calls"] = s["calls"][:4]
        check.sample({"source": label, **s})
    return counts


# --------------------------------------------------------------------------- part C: evaluation context and sharing


def _context_batches(cases: list[dict], per_batch: int = 42) -> list[tuple[int, list[dict]]]:
    """Whole worlds per batch (the twin world without history is built once per world of a batch)."""
    by_world: dict[str, list[dict]] = {}
    for c in cases:
        by_world.setdefault(c13_context.world_key(c["w"]), []).append(c)
    batches: list[tuple[int, list[dict]]] = []
    cur: list[dict] = []
    base = 0
    for k in sorted(by_world):
        cur.extend(by_world[k])
        if len(cur) >= per_batch:
            batches.append((base, cur))
            base += len(cur)
            cur = []
    if cur:
        batches.append((base, cur))
    return batches


def judge_context(check: core.Check, cases: list[dict], label: str) -> dict[str, int]:
    t0 = time.time()
    parts = core.pmap(c13_context.observe_context, _context_batches(cases), chunk=1)
    obs = _flatten(parts)
    t1 = time.time()
    verdicts, stats = _adjudicate("AnnotationContextTrace", "AnnotationContextTrace.cfg", obs, batch=250, parallel=8, timeout=3000)
    check.cov.setdefault("timing", []).append({"what": "context:" + label, "observe_s": round(t1 - t0, 1), "adjudicate_s": round(time.time() - t1, 1)})
    check.add_trace_stats(stats)
    counts = {"cases": len(obs), "with_history": 0, "foreign_cell": 0, "undefined_reference": 0, "call_rejected_for_other_class": 0}
    for o in obs:
        check.evals(2 * 6 + 2 * 4)          # both modules: 4 routes + 2 calls after the history, 4 routes in the twin world
        if o["hist"]:
            counts["with_history"] += 1
        foreign = any(o["cells"][m][k] not in ("nocell", "none", m) for m in ("A", "B") for k in ("obj", "cache"))
        if foreign:
            counts["foreign_cell"] += 1
            # non-trivial = the situation the property is about really arose: some ForwardRef reachable from a module's
            # declaration carries the OTHER module's class when pyanalyze looks at it
            check.nontrivial("ctx|" + core.canon({"w": o["w"], "hist": o["hist"]}))
        if "undefined" in o["truth"].values():
            counts["undefined_reference"] += 1
        counts["call_rejected_for_other_class"] += sum(1 for m in ("A", "B") if o["obs"][m]["callother"])
        seen: set[str] = set()
        for v in verdicts.get(o["tid"], []):
            if v in seen:
                continue
            seen.add(v)
            payload = {"kind": "context", "w": o["w"], "hist": o["hist"], "sources": c13_context.source_of(o),
                       "observed": {k: o[k] for k in ("py", "truth", "cells", "obs", "base")}, "source": label}
            if v.startswith("oracle:"):
                raise core.MachineryError(f"{v} on world {o['w']} history {o['hist']}: py={o['py']} truth={o['truth']} cells={o['cells']}")
            if v.startswith("viol:"):
                check.violation(core.canon({"w": o["w"], "hist": o["hist"], "clause": v[5:]}), v[5:], payload)
            elif v.startswith("dev:"):
                check.violation(v[4:], v[4:], payload)
            elif v.startswith("drift:"):
                check.drift({"verdict": v, "w": o["w"], "hist": o["hist"], "observed": o["obs"], "base": o["base"]})
    for o in obs[:: max(1, len(obs) // 2)][:2]:
        check.sample({"source": "context:" + label, **o})
    return counts


def run_context(check: core.Check, quick: bool, rnd: random.Random) -> None:
    """spec/AnnotationContext.tla: model check all worlds x histories, replay them through the real code."""
    # vacuity is controlled without -coverage (which slows this run down 4x): the NeverForeignCell cfg must be violated
    # (some history leaves the other module's class on a shared ForwardRef) and the replay must really meet such cells
    res = core.require_ok(_tlc("AnnotationContextEmit", "AnnotationContext.quick.cfg", timeout=1800), "AnnotationContext exhaustive")
    check.add_tlc("exhaustive+emit:AnnotationContext.quick.cfg", res)
    cases = core.emitted_json(res)
    if not cases:
        raise core.MachineryError("TLC emitted no context cases")
    check.cov["model_cases_context"] = len(cases)
    if quick:
        # every world with a live memo (the real situation) with every history of length <= 1; seeded samples of their
        # two-step histories and of the worlds whose memo is cleared after every step (the control group)
        live = [c for c in cases if c["w"]["shared"]]
        short = [c for c in live if len(c["hist"]) <= 1]
        rest = [c for c in live if len(c["hist"]) > 1]
        control = [c for c in cases if not c["w"]["shared"]]
        chosen = short + rnd.sample(rest, min(len(rest), 350)) + rnd.sample(control, min(len(control), 200))
        exhaustive = len(chosen) == len(cases)
    else:
        allp = core.require_ok(_tlc("AnnotationContextEmit", "AnnotationContext.thorough.cfg", timeout=3000), "AnnotationContext all pairs")
        check.add_tlc("exhaustive+emit:AnnotationContext.thorough.cfg", allp)
        more = core.emitted_json(allp)
        check.cov["model_cases_context_all_pairs"] = len(more)
        have = {core.canon(c) for c in cases}
        more = [c for c in more if core.canon(c) not in have]
        chosen = cases + rnd.sample(more, min(len(more), 4000))
        exhaustive = True       # of the related-pairs bound; the all-pairs bound is model checked and sampled
    counts = judge_context(check, chosen, "tlc-exhaustive")
    if counts["foreign_cell"] == 0:
        raise core.MachineryError("context slice is vacuous: no replayed history left a foreign class on a shared ForwardRef")
    check.cov.setdefault("replay", {})["context"] = {**counts, "replay_is_exhaustive": exhaustive}
    check.cov["context_replay_is_exhaustive"] = exhaustive


# --------------------------------------------------------------------------- part D: shapes of definition


def _strip_shape_obs(o: dict) -> dict:
    return {k: v for k, v in o.items() if k != "src"}


def judge_shapes(check: core.Check, cases: list[dict], label: str) -> dict[str, int]:
    t0 = time.time()
    parts = core.pmap(c13_shapes.observe_shapes, _batches(cases, 8), chunk=1)
    obs = _flatten(parts)
    t1 = time.time()
    verdicts, stats = _adjudicate("DefShapesTrace", "DefShapesTrace.cfg", [_strip_shape_obs(o) for o in obs], batch=40, parallel=8, timeout=3000)
    check.cov.setdefault("timing", []).append({"what": "shapes:" + label, "observe_s": round(t1 - t0, 1), "adjudicate_s": round(time.time() - t1, 1)})
    check.add_trace_stats(stats)
    counts: dict[str, int] = {"cases": len(obs), "calls": 0, "dev": 0}
    for o in obs:
        shape = o["c"]["shape"]
        counts[shape] = counts.get(shape, 0) + 1
        counts["calls"] += len(o["calls"])
        check.evals(3 + len(o["calls"]) * (4 if shape in c13_shapes.METHOD_SHAPES else 3))
        check.nontrivial("shape|" + o["src"])       # every shape case is a decorated / bound / generator definition
        seen: set[str] = set()
        for v in verdicts.get(o["tid"], []):
            if v in seen:
                continue
            seen.add(v)
            payload = {"kind": "shape", "h": o["c"]["h"], "shape": shape, "src": o["src"],
                       "calls": [{k: c[k] for k in ("npos", "kws", "bad")} for c in o["calls"]],
                       "observed": {k: v2 for k, v2 in o.items() if k not in ("tid", "c", "calls", "src")}, "source": label}
            if v.startswith("oracle:"):
                raise core.MachineryError(f"{v} on shape case {o['src']}: {payload['observed']}")
            if v.startswith("viol:"):
                clause, _, k = v[5:].partition("#")
                if k:
                    payload["call"] = o["calls"][int(k) - 1]
                check.violation(core.canon({"h": o["c"]["h"], "shape": shape, "clause": v[5:]}), clause, payload)
            elif v.startswith("dev:"):
                counts["dev"] += 1
                check.violation(v[4:], v[4:], payload)
            elif v.startswith("drift:"):
                check.drift({"verdict": v, "src": o["src"], "observed": o.get(v[6:])})
    for o in obs[:: max(1, len(obs) // 2)][:2]:
        s = dict(o)
        s["calls"] = s["calls"][:3]
        check.sample({"source": "shapes:" + label, **s})
    return counts


def run_shapes(check: core.Check, quick: bool, rnd: random.Random) -> None:
    """spec/DefShapes.tla (methods, wrappers, retyping decorators, generators) and the plain headers with defaults that
    are not literals (DefHeaders.nonlit*.cfg)."""
    cfg = "DefShapes.quick.cfg" if quick else "DefShapes.thorough.cfg"
    # (-coverage exhausts the heap on this spec; vacuity control = every shape must occur among the emitted cases)
    res = core.require_ok(_tlc("DefShapesEmit", cfg, timeout=3000), "DefShapes exhaustive")
    check.add_tlc("exhaustive+emit:" + cfg, res)
    cases = core.emitted_json(res)
    missing = set(c13_shapes.METHOD_SHAPES + ("wraps", "retyped", "generator")) - {c["shape"] for c in cases}
    if missing:
        raise core.MachineryError(f"TLC emitted no shape cases for {sorted(missing)}")
    check.cov["model_cases_shapes"] = len(cases)
    limit = 180 if quick else 1200
    exhaustive = len(cases) <= limit
    if not exhaustive:
        # stratified by shape: the same number of cases of every shape (all of a shape that has fewer)
        by: dict[str, list[dict]] = {}
        for c in cases:
            by.setdefault(c["shape"], []).append(c)
        per = max(1, limit // len(by))
        cases = [c for k in sorted(by) for c in (by[k] if len(by[k]) <= per else rnd.sample(by[k], per))]
    counts = judge_shapes(check, cases, "tlc-exhaustive")
    ncfg = "DefHeaders.nonlit.cfg" if quick else "DefHeaders.nonlitt.cfg"
    nres = core.require_ok(_tlc("DefHeadersEmit", ncfg, timeout=3000), "DefHeaders non-literal defaults")
    check.add_tlc("exhaustive+emit:" + ncfg, nres)
    ncases = core.emitted_json(nres)
    if not ncases:
        raise core.MachineryError("TLC emitted no headers with non-literal defaults")
    nlimit = 120 if quick else 600
    nexh = len(ncases) <= nlimit
    if not nexh:
        ncases = rnd.sample(ncases, nlimit)
    ncounts = judge_headers(check, ncases, "tlc-exhaustive-nonliteral-defaults", "DefHeadersTrace.cfg")
    check.cov.setdefault("replay", {}).update({"shapes": {**counts, "replay_is_exhaustive": exhaustive},
                                               "headers_nonliteral_defaults": {**ncounts, "replay_is_exhaustive": nexh}})
    check.cov["shapes_replay_is_exhaustive"] = exhaustive and nexh


def run_varargs(check: core.Check, quick: bool, rnd: random.Random) -> None:
    """spec/DefVarargs.tla: *args / **kwargs annotated with Unpack[tuple[...]] / *tuple[...] / Unpack[TypedDict], as an
    expression, quoted, and in a PEP 563 module; both signature views against the declared meaning, calls in 3 contexts."""
    cfg = "DefVarargs.quick.cfg" if quick else "DefVarargs.thorough.cfg"
    res = core.require_ok(_tlc("DefVarargsEmit", cfg, timeout=3000), "DefVarargs exhaustive")
    check.add_tlc("exhaustive+emit:" + cfg, res)
    cases = core.emitted_json(res)
    if not cases:
        raise core.MachineryError("TLC emitted no *args / **kwargs headers")
    check.cov["model_cases_varargs"] = len(cases)
    # every header of one parameter (each spelling x PEP 563 or not) is always replayed; a seeded sample of the rest
    single = [c for c in cases if len(c["h"]["params"]) == 1]
    rest = [c for c in cases if len(c["h"]["params"]) > 1]
    extra = 40 if quick else 500
    exhaustive = len(rest) <= extra
    chosen = single + (rest if exhaustive else rnd.sample(rest, extra))
    counts = judge_headers(check, chosen, "tlc-exhaustive-varargs", "DefVarargsTrace.cfg", module="DefVarargsTrace")
    check.cov.setdefault("replay", {})["headers_varargs"] = {**counts, "replay_is_exhaustive": exhaustive}
    check.cov["varargs_replay_is_exhaustive"] = exhaustive


# --------------------------------------------------------------------------- part F: declarations of structured types


def judge_decls(check: core.Check, cases: list[dict], label: str) -> dict[str, int]:
    t0 = time.time()
    parts = core.pmap(c13_decls.observe_decls, _batches(cases, 12), chunk=1)
    obs = _flatten(parts)
    t1 = time.time()
    verdicts, stats = _adjudicate("DeclFieldsTrace", "DeclFieldsTrace.cfg", [{k: v for k, v in o.items() if k != "src"} for o in obs],
                                  batch=60, parallel=8, timeout=3000)
    check.cov.setdefault("timing", []).append({"what": "decls:" + label, "observe_s": round(t1 - t0, 1), "adjudicate_s": round(time.time() - t1, 1)})
    check.add_trace_stats(stats)
    counts: dict[str, int] = {"cases": len(obs), "dev": 0}
    for o in obs:
        c = o["c"]
        counts[c["kind"]] = counts.get(c["kind"], 0) + 1
        check.evals(22 if c["kind"] == "td" else 7)
        if c["kind"] != "td" or c["stack"]:
            check.nontrivial("decl|" + core.canon(c))          # non-trivial = the field carries a qualifier / is a dataclass or NamedTuple field
        seen: set[str] = set()
        for v in verdicts.get(o["tid"], []):
            if v in seen:
                continue
            seen.add(v)
            payload = {"kind": "decl", "c": c, "src": o["src"], "source_text": c13_decls.defining_source(c),
                       "observed": {k: v2 for k, v2 in o.items() if k not in ("tid", "c", "src")}, "source": label}
            if v.startswith("oracle:"):
                raise core.MachineryError(f"{v} on declaration {c}: {payload['observed']}")
            if v.startswith("viol:"):
                check.violation(core.canon({"c": c, "clause": v[5:]}), v[5:], payload)
            elif v.startswith("dev:"):
                counts["dev"] += 1
                check.violation(v[4:], v[4:], payload)
            elif v.startswith("drift:"):
                check.drift({"verdict": v, "c": c, "observed": payload["observed"]})
    for o in obs[:: max(1, len(obs) // 2)][:2]:
        check.sample({"source": "decls:" + label, **o})
    return counts


def run_decls(check: core.Check, quick: bool, rnd: random.Random) -> None:
    """spec/DeclFields.tla: TypedDict / dataclass / NamedTuple declarations in three spellings; the space is small, it
    is model checked and replayed completely in both tiers."""
    res = core.require_ok(_tlc("DeclFieldsEmit", "DeclFields.quick.cfg", coverage=True, timeout=1800), "DeclFields exhaustive")
    core.require_coverage(res, ["ChooseKind", "ChooseDecl", "ChooseSpelling"], "DeclFields")
    check.add_tlc("exhaustive+emit:DeclFields.quick.cfg", res)
    cases = core.emitted_json(res)
    if not cases:
        raise core.MachineryError("TLC emitted no declaration cases")
    check.cov["model_cases_decls"] = len(cases)
    counts = judge_decls(check, cases, "tlc-exhaustive")
    check.cov.setdefault("replay", {})["decls"] = {**counts, "replay_is_exhaustive": True}


_sens_pool = None
_sens_jobs: list = []


def _sensitivity_now(module: str, cfg: str, inv: str) -> None:
    r = _tlc(module, cfg, timeout=900, workers=2)
    if r.violated != inv:
        raise core.MachineryError(f"sensitivity self-test failed: {module}/{cfg} should violate {inv}, got {r.violated or r.error}")


def _sensitivity(module: str, cfg: str, inv: str) -> None:
    """Sensitivity self-tests are independent small TLC runs: they are started in the background (two at a time) and
    joined by _sensitivity_join() at the end of run(); a failing one is a MachineryError there."""
    global _sens_pool
    from concurrent.futures import ThreadPoolExecutor

    if _sens_pool is None:
        _sens_pool = ThreadPoolExecutor(2)
    _sens_jobs.append(_sens_pool.submit(_sensitivity_now, module, cfg, inv))


def _sensitivity_join() -> int:
    n = 0
    while _sens_jobs:
        _sens_jobs.pop(0).result()
        n += 1
    return n


def _uniq(cases: list) -> list:
    return list({core.canon(c): c for c in cases}.values())


def run(check: core.Check) -> None:
    quick = check.tier == "quick"
    rnd = random.Random(check.seed)
    check.assumptions += [
        "TLC and the TLA+ definitions of Annotations.tla / DefHeaders.tla; RefSame / RefSameSig define 'the same type / "
        "parameters up to representation' (union = set of alternatives, Annotated distributes over unions, origin of an "
        "Any is notation except Any[error], unannotated parameters are 'undeclared' in both views)",
        "PyEval (CPython's typing normalisation) and RefInspect (inspect.signature) are models validated against real "
        "CPython on every observation (mismatch = machinery error)",
        "typing's lru caches are cleared before every evaluation of a case: eval(e) is otherwise history dependent "
        "(ClassVar[Union[A, B]] returns an earlier ClassVar[Union[B, A]])",
        "realised modules are compiled with dont_inherit=True (not PEP 563 unless the case says so); the vocabulary is the "
        "prelude of harness/drivers/c13.py (A, B(A), NT, TD, P, T, TB, TC and the typing names)",
        "return types of calls are compared only when the header declares a return type (an undeclared return is inferred "
        "from the body in the defining module, which an importer cannot do)",
        "context slice: the CPython model of typing's sharing (which spellings put their ForwardRef into one memo entry, "
        "get_type_hints evaluating an unevaluated ForwardRef in f.__globals__ and reusing an evaluated one) is validated "
        "against the real ForwardRef objects on every observation (oracle:TypingCells); the meaning of a reference is "
        "Python's scoping rule (the declaring module's namespace), validated by eval(name, module.__dict__) "
        "(oracle:RefResolve); where the name is undefined in the declaring module every route must say 'unknown' and "
        "Any[error] / Any[inference] are the same answer; typing's memo is cleared between cases only (after every step "
        "in the control worlds shared = FALSE)",
        "shape slice: 'up to representation' additionally means: a default written as a call / a lambda may be shown by "
        "the def-derived view as the declared return type / the lambda's signature (the value exists only at run time); "
        "the object behind a functools.wraps wrapper is judged by its own signature (inspect.signature(follow_wrapped=False), "
        "as arg_spec.py does deliberately); the def-derived view of a method is what the visitor knows of the parameters "
        "inside the body",
        "vararg slice: the declared meaning of *args: Unpack[tuple[A, B]] / *tuple[A, B] (exactly two more positionals), "
        "Unpack[tuple[A, ...]] and **kwargs: Unpack[TD] (keyword parameters per key, NotRequired = optional) is RefSlots of "
        "DefVarargs.tla (PEP 646 / 692); quoting does not change the meaning; CPython does not enforce it, so it is not "
        "executed -- both signature views must show it and the three call contexts must agree",
        "declaration slice: the declared meaning of a TypedDict item is RefRequired / RefReadonly of DeclFields.tla (PEP 589 / "
        "655 / 705: Required / NotRequired override totality, ReadOnly makes the item read-only, Annotated and quoting change "
        "nothing); an operation is 'rejected' iff some error code is reported on it; what CPython records on the class "
        "(__required_keys__, __readonly_keys__, the dataclass / NamedTuple __init__) is a model validated on every "
        "observation (oracle:PyKeys / oracle:PyInitParams); typing_extensions as installed in /venv",
    ]
    # ---------------- part A: annotations
    if quick:
        res = core.require_ok(_tlc("AnnotationsEmit", "Annotations.quick.cfg", coverage=True, timeout=1200), "Annotations exhaustive")
        check.add_tlc("exhaustive+emit:Annotations.quick.cfg", res)
        cases = core.emitted_json(res)
        limit = 4500
    else:
        # -coverage slows TLC down several times: the vacuity check is made on the 3-form bound, the 4-form
        # bound is then explored without it
        cov = core.require_ok(_tlc("Annotations", "Annotations.cov.cfg", coverage=True, timeout=1200), "Annotations coverage")
        core.require_coverage(cov, ["PushLeaf", "ApplyUnary", "ApplyBinary", "ApplyTop", "Finish"], "Annotations")
        check.add_tlc("coverage:Annotations.cov.cfg", cov)
        res = core.require_ok(_tlc("AnnotationsEmit", "Annotations.thorough.cfg", timeout=3000), "Annotations exhaustive")
        check.add_tlc("exhaustive+emit:Annotations.thorough.cfg", res)
        cases = core.emitted_json(res)
        limit = 38000
    if quick:
        core.require_coverage(res, ["PushLeaf", "ApplyUnary", "ApplyBinary", "ApplyTop", "Finish"], "Annotations")
    if not cases:
        raise core.MachineryError("TLC emitted no annotation expressions")
    fixed = {x.strip() for x in os.environ.get("VERIF_C13_FIXED", "").split(",") if x.strip()}
    if not {"star", "final", "literal"} <= fixed:     # with every annotation deviation repaired the strict property holds
        _sensitivity("Annotations", "Annotations.strict.cfg", "AnnotationRoutesAgreeStrict")
    _sensitivity("Annotations", "Annotations.bug.cfg", "AnnotationRoutesAgree")
    _sensitivity("Annotations", "Annotations.bug2.cfg", "AnnotationRoutesAgree")
    check.cov["model_cases_annotations"] = len(cases)
    exhaustive_a = len(cases) <= limit
    if not exhaustive_a:
        # everything up to 3 forms is always replayed in the thorough tier; above that a seeded sample
        small = [c for c in cases if _size(c) <= (2 if quick else 3)]
        rest = [c for c in cases if _size(c) > (2 if quick else 3)]
        cases = small + rnd.sample(rest, max(0, min(len(rest), limit - len(small))))
    ca = judge_annotations(check, cases, "tlc-exhaustive")
    num = 150 if quick else 4000
    sim = core.require_ok(
        _tlc("AnnotationsEmit", "Annotations.sim.cfg", workers=1, simulate=f"num={num}", depth=24, seed=check.seed + 13, timeout=1800),
        "Annotations simulate",
    )
    check.add_tlc("simulate:Annotations.sim.cfg", sim)
    sim_cases = _uniq(core.emitted_json(sim))
    if len(sim_cases) < num // 4:
        raise core.MachineryError(f"annotation simulation produced only {len(sim_cases)} distinct cases")
    cs = judge_annotations(check, sim_cases, "tlc-simulate")
    # ---------------- part C: evaluation context and sharing (two modules, histories)
    _sensitivity("AnnotationContext", "AnnotationContext.bugcached.cfg", "CtxIndependent")
    _sensitivity("AnnotationContext", "AnnotationContext.bugcached2.cfg", "CtxDeclaringModule")
    _sensitivity("AnnotationContext", "AnnotationContext.bugfallback.cfg", "CtxDeclaringModule")
    _sensitivity("AnnotationContext", "AnnotationContext.foreign.cfg", "NeverForeignCell")
    run_context(check, quick, rnd)
    # ---------------- part B: def headers
    hcfg = "DefHeaders.quick.cfg" if quick else "DefHeaders.thorough.cfg"
    if not quick:
        hcov = core.require_ok(_tlc("DefHeaders", "DefHeaders.cov.cfg", coverage=True, timeout=1200), "DefHeaders coverage")
        core.require_coverage(hcov, ["AddParam", "FinishHeader"], "DefHeaders")
        check.add_tlc("coverage:DefHeaders.cov.cfg", hcov)
    hres = core.require_ok(_tlc("DefHeadersEmit", hcfg, coverage=quick, timeout=3000), "DefHeaders exhaustive")
    if quick:
        core.require_coverage(hres, ["AddParam", "FinishHeader"], "DefHeaders")
    check.add_tlc(("exhaustive+emit:" if quick else "exhaustive:") + hcfg, hres)
    _sensitivity("DefHeaders", "DefHeaders.strict.cfg", "HeaderViewsAgreeStrict")
    _sensitivity("DefHeaders", "DefHeaders.bug.cfg", "HeaderViewsAgree")
    _sensitivity("DefHeaders", "DefHeaders.bug2.cfg", "HeaderViewsAgree")
    if quick:
        hcases = core.emitted_json(hres)
    else:   # the thorough model check covers <= 3 parameters; the replay takes the richer 2-parameter vocabulary
        hem = core.require_ok(_tlc("DefHeadersEmit", "DefHeaders.emitt.cfg", timeout=3000), "DefHeaders emit")
        check.add_tlc("emit:DefHeaders.emitt.cfg", hem)
        hcases = core.emitted_json(hem)
    if not hcases:
        raise core.MachineryError("TLC emitted no def headers")
    check.cov["model_cases_headers"] = len(hcases)
    hlimit = 300 if quick else 1200
    exhaustive_h = len(hcases) <= hlimit
    if not exhaustive_h:
        hcases = rnd.sample(hcases, hlimit)
    ch = judge_headers(check, hcases, "tlc-exhaustive", "DefHeadersTrace.cfg" if quick else "DefHeadersTraceBig.cfg")
    hnum = 4 if quick else 40
    hsim = core.require_ok(
        _tlc("DefHeadersEmit", "DefHeaders.sim.cfg", workers=1, simulate=f"num={hnum}", depth=8, seed=check.seed + 17, timeout=1800),
        "DefHeaders simulate",
    )
    check.add_tlc("simulate:DefHeaders.sim.cfg", hsim)
    hsim_cases = _uniq(core.emitted_json(hsim))
    if len(hsim_cases) < hnum // 4:
        raise core.MachineryError(f"header simulation produced only {len(hsim_cases)} distinct cases")
    chs = judge_headers(check, hsim_cases, "tlc-simulate", "DefHeadersTraceBig.cfg")
    # ---------------- part D: shapes of definition, defaults that are not literals
    _sensitivity("DefShapes", "DefShapes.strict.cfg", "ShapeViewsAgreeStrict")
    _sensitivity("DefShapes", "DefShapes.bugbound.cfg", "ShapeViewsAgree")
    _sensitivity("DefShapes", "DefShapes.bugasyncgen.cfg", "ShapeViewsAgree")
    _sensitivity("DefShapes", "DefShapes.oldasyncgen.cfg", "CallAwaitableAgrees")     # the behaviour before repo b243661
    _sensitivity("DefHeaders", "DefHeaders.defaultsequal.cfg", "HeaderDefaultsEqual")
    run_shapes(check, quick, rnd)
    # ---------------- part E: *args / **kwargs that say what the extra arguments are
    _sensitivity("DefVarargs", "DefVarargs.strict.cfg", "VarargViewsAgreeStrict")
    _sensitivity("DefVarargs", "DefVarargs.bugstring.cfg", "VarargViewsAgree")
    run_varargs(check, quick, rnd)
    # ---------------- part F: declarations of structured types (TypedDict / dataclass / NamedTuple fields)
    for cfg, inv in (("strict1", "DeclaredMeaningStrict"), ("strict2", "FieldRoutesAgreeStrict"), ("strict3", "ConstructorTypedStrict"),
                     ("bugreadonly", "DeclaredMeaning"), ("bugreadonly2", "SpellingIndependent"), ("bugrequired", "DeclaredMeaning")):
        _sensitivity("DeclFields", f"DeclFields.{cfg}.cfg", inv)
    run_decls(check, quick, rnd)
    check.cov["sensitivity_runs"] = _sensitivity_join()
    check.cov["exhaustive"] = exhaustive_a and exhaustive_h and bool(check.cov.get("context_replay_is_exhaustive"))
    check.cov.setdefault("replay", {}).update({
        "annotations_exhaustive": ca, "annotations_simulated": cs, "headers_exhaustive": ch, "headers_simulated": chs,
        "annotation_replay_is_exhaustive": exhaustive_a, "header_replay_is_exhaustive": exhaustive_h,
    })
    check.cov["sensitivity"] = (
        "AnnotationRoutesAgreeStrict / HeaderViewsAgreeStrict are violated on the model (the named deviations are real); "
        "with BugOptionalDropsNone (string route forgets None in Optional[X]), BugBuiltinsFirst (names in string annotations "
        "of function objects looked up in builtins before the module) and BugRuntimeIgnoresKwDefaults the ordinary "
        "invariants are violated; context slice: with BugPreferCachedForward (the ForwardRef branch trusts typing's cached "
        "__forward_value__) CtxIndependent and CtxDeclaringModule are violated, with BugFallbackAnyModule (an undefined name "
        "taken from any module that defines it) CtxDeclaringModule, and NeverForeignCell is violated (some history does leave "
        "the other module's class on a shared ForwardRef); shape slice: ShapeViewsAgreeStrict (the declared-Callable "
        "deviation is real), BugBoundKeepsFirst, BugAsyncGenWrapped violate ShapeViewsAgree, FixedAsyncGenInferred = FALSE (the code before repo b243661) violates CallAwaitableAgrees, HeaderDefaultsEqual is violated "
        "by call / lambda defaults; vararg slice: VarargViewsAgreeStrict (the two deviation classes are real), BugStringDropsAllowUnpack (a string annotation evaluated without allow_unpack) violates VarargViewsAgree; declaration slice: the three *Strict invariants (the three deviation classes are real), BugReadOnlyOnlyWithoutKeys (a ReadOnly found in the evaluated annotation honoured only when the class has no __readonly_keys__) violates DeclaredMeaning and SpellingIndependent, BugRequiredFromKeysOnly violates DeclaredMeaning; corrupted real observations of every new clause are flagged (--selftest-binding)"
    )
    check.cov["rule"] = (
        "annotation cases = expression trees TLC builds bottom-up from the leaf/unary/binary forms of Annotations.tla up to "
        "MaxNodes forms (3 quick, 4 thorough; simulation up to 7); each is pushed through eval + 6 real routes; non-trivial = "
        "not a bare name (distinct by source text).  header cases = def headers of DefHeaders.tla (<=2 parameters emitted, "
        "<=3 model-checked, simulation <=4) x the call family Calls(h); non-trivial = at least one parameter.  "
        "context cases = worlds (17 spellings of a forward reference x 2 referenced names x PEP 563 or not, per module; pairs "
        "of modules using the same spelling or two spellings whose ForwardRef lives in the same memo entry [thorough: model "
        "check of all pairs, sampled replay]; memo shared or cleared) x all histories of <= 2 steps over {gthA, gthB, pyzA, "
        "pyzB}: all model checked; replayed in quick: every shared-memo world with every history of <= 1 step + seeded "
        "samples of the 2-step histories and of the cleared-memo worlds; non-trivial = a ForwardRef reachable from a "
        "module's declaration really carries the other module's class when pyanalyze reads it.  shape cases = headers of "
        "<= 1 parameter (thorough 2) over all kinds, annotations {none, int, 'A'}, defaults {none, 1, D, mk(), lambda: 1}, "
        "returns {none, None, 'A', Iterator[int], AsyncIterator[int]}, async, PEP 563 x 6 shapes: all model checked, a "
        "stratified sample (40 per shape in quick) replayed with the call family Calls(h)"
    )


def _size(e: dict) -> int:
    """Number of generator forms is not recoverable exactly from the term; the number of sub/or/str nodes + leaves
    is a monotone stand-in used only to order the replay (small first)."""
    if e["k"] in ("name", "const", "ellipsis", "empty"):
        return 1 if e["k"] == "name" else 0
    return (1 if e["k"] in ("sub", "or", "str") else 0) + sum(_size(a) for a in e["args"])


def replay(check: core.Check, witness: dict) -> None:
    if witness.get("kind") == "decl":
        judge_decls(check, [witness["c"]], "replay")
    elif witness.get("kind") == "context":
        judge_context(check, [{"w": witness["w"], "hist": witness["hist"]}], "replay")
    elif witness.get("kind") == "shape":
        judge_shapes(check, [{"h": witness["h"], "shape": witness["shape"], "calls": witness["calls"]}], "replay")
    elif witness.get("kind") == "header" and any(
        p["kind"] in ("VAR_POSITIONAL", "VAR_KEYWORD") and render(p["ann"]).strip("\"'").startswith(("Unpack[", "*"))
        for p in witness["h"]["params"] if p["ann"]["k"] != "noann"
    ) or witness.get("source") == "tlc-exhaustive-varargs":
        judge_headers(check, [{"h": witness["h"], "calls": witness["calls"]}], "replay", "DefVarargsTrace.cfg", module="DefVarargsTrace")
    elif witness.get("kind") == "header":
        big = any(c["npos"] > 2 or len(c["kws"]) > 1 for c in witness["calls"])
        judge_headers(check, [{"h": witness["h"], "calls": witness["calls"]}], "replay",
                      "DefHeadersTraceBig.cfg" if big else "DefHeadersTrace.cfg")
    else:
        judge_annotations(check, [witness["e"]], "replay")


def selftest_binding(check: core.Check) -> None:
    """Corrupt one recorded field of a real observation and confirm that TLC's verdict flags it."""
    e = parse("Optional[int]")
    (o,) = observe_annotations((0, [e]))
    o = {k: v for k, v in o.items() if k != "src"}
    good, _ = _adjudicate("AnnotationsTrace", "AnnotationsTrace.cfg", [o])
    bad = dict(o, str=V("Typed", "str"))
    v1, _ = _adjudicate("AnnotationsTrace", "AnnotationsTrace.cfg", [bad])
    bad2 = dict(o, py={"k": "class", "id": "int", "args": []})
    v2, _ = _adjudicate("AnnotationsTrace", "AnnotationsTrace.cfg", [bad2])
    h = {"params": [{"name": "a", "kind": "POSITIONAL_OR_KEYWORD", "ann": parse("int"), "dflt": "none"}],
         "ret": parse("int"), "isasync": False, "future": False}
    calls = [{"npos": n, "kws": k, "bad": b} for n in (0, 1, 2) for k in ([], ["a"], ["zz"]) for b in (False, True)]
    (ho,) = observe_headers((0, [{"h": h, "calls": calls}]))
    ho = _strip_header_obs(ho)
    hgood, _ = _adjudicate("DefHeadersTrace", "DefHeadersTrace.cfg", [ho])
    hbad = json.loads(json.dumps(ho))
    hbad["sigrt"]["a"][0]["a"][0]["n"] = "KEYWORD_ONLY"
    v3, _ = _adjudicate("DefHeadersTrace", "DefHeadersTrace.cfg", [hbad])
    hbad2 = json.loads(json.dumps(ho))
    hbad2["calls"][0]["importer"]["codes"] = ["incompatible_call", "made_up"]
    v4, _ = _adjudicate("DefHeadersTrace", "DefHeadersTrace.cfg", [hbad2])
    # evaluation context: a real case whose shared ForwardRef carries A's class when B's declaration is read
    decl = {"f": "List", "n": "K", "fut": False}
    (co,) = c13_context.observe_context((0, [{"w": {"a": decl, "b": decl, "shared": True}, "hist": ["gthA"]}]))
    cgood, _ = _adjudicate("AnnotationContextTrace", "AnnotationContextTrace.cfg", [co])
    cbad = json.loads(json.dumps(co))
    cbad["obs"]["B"]["sig"] = co["obs"]["A"]["sig"]            # B's signature route answers with A's class
    v5, _ = _adjudicate("AnnotationContextTrace", "AnnotationContextTrace.cfg", [cbad])
    cbad2 = json.loads(json.dumps(co))
    cbad2["cells"]["B"]["obj"] = "none"                         # the ForwardRef B reaches was NOT evaluated
    v6, _ = _adjudicate("AnnotationContextTrace", "AnnotationContextTrace.cfg", [cbad2])
    cbad3 = json.loads(json.dumps(co))
    cbad3["obs"]["B"]["callother"] = []                         # the importer accepts A.K where B.K is declared
    v7, _ = _adjudicate("AnnotationContextTrace", "AnnotationContextTrace.cfg", [cbad3])
    # shapes: a real instance method
    sh = {"params": [{"name": "a", "kind": "POSITIONAL_OR_KEYWORD", "ann": parse("int"), "dflt": "none"}],
          "ret": parse("None"), "isasync": False, "future": False}
    (so,) = c13_shapes.observe_shapes((0, [{"h": sh, "shape": "method", "calls": calls}]))
    so = _strip_shape_obs(so)
    sgood, _ = _adjudicate("DefShapesTrace", "DefShapesTrace.cfg", [so])
    sbad = dict(so, sigI=so["sigC"])                            # the bound method keeps `self`
    v8, _ = _adjudicate("DefShapesTrace", "DefShapesTrace.cfg", [sbad])
    sbad2 = json.loads(json.dumps(so))
    sbad2["body"][1] = V("Typed", "str")                        # inside the body `a` is a str
    v9, _ = _adjudicate("DefShapesTrace", "DefShapesTrace.cfg", [sbad2])
    sbad3 = json.loads(json.dumps(so))
    sbad3["calls"][0]["impcls"]["codes"] = ["made_up"]
    v10, _ = _adjudicate("DefShapesTrace", "DefShapesTrace.cfg", [sbad3])
    # an unannotated async generator: the defining module reports missing_await / Coroutine again (repo b243661 undone)
    gh = dict(sh, ret={"k": "noann", "id": "", "args": []}, isasync=True)
    (go,) = c13_shapes.observe_shapes((0, [{"h": gh, "shape": "generator", "calls": calls}]))
    go = _strip_shape_obs(go)
    ggood, _ = _adjudicate("DefShapesTrace", "DefShapesTrace.cfg", [go])
    gbad = json.loads(json.dumps(go))
    coro = V("Generic", "Coroutine", [V("Any", "inference"), V("Any", "inference"), V("Any", "inference")])
    for ctx in ("nested", "defmod"):
        gbad["calls"][0][ctx] = {"codes": sorted(gbad["calls"][0][ctx]["codes"] + ["missing_await"]), "ret": coro}
    v11, _ = _adjudicate("DefShapesTrace", "DefShapesTrace.cfg", [gbad])
    print("shape: async generator awaited ->", ggood, v11)
    if ggood or not ({"viol:AwaitableIffCoroutine#1", "viol:CallJudgedIdentically#1"} <= set(v11.get(0, []))):
        raise core.MachineryError("binding self-test failed: the repaired async-generator defect is not flagged as a violation")
    # **kwargs: "Unpack[TDN]": the runtime view degrades to dict[str, Any] (a string evaluated without allow_unpack)
    vh = {"params": [{"name": "kw", "kind": "VAR_KEYWORD", "ann": parse('"Unpack[TDN]"'), "dflt": "none"}],
          "ret": {"k": "noann", "id": "", "args": []}, "isasync": False, "future": False}
    vcalls = [{"npos": n, "kws": list(k), "bad": b} for n in (0, 1, 2, 3) for b in (False, True)
              for k in ([], ["p"], ["q"], ["zz"], ["p", "q"], ["p", "zz"], ["q", "zz"])]
    (vo,) = observe_headers((0, [{"h": vh, "calls": vcalls}]))
    vo = _strip_header_obs(vo)
    vgood, _ = _adjudicate("DefVarargsTrace", "DefVarargsTrace.cfg", [vo])
    vbad = json.loads(json.dumps(vo))
    vbad["sigrt"]["a"] = [V("Param", "kw", [V("kind", "VAR_KEYWORD"), V("nodefault"), V("Generic", "dict", [V("Typed", "str"), V("Any", "error")])]),
                          vbad["sigrt"]["a"][-1]]
    v12, _ = _adjudicate("DefVarargsTrace", "DefVarargsTrace.cfg", [vbad])
    print("vararg: runtime view degraded  ->", vgood, v12)
    if vgood or "viol:VarargViewsAgree" not in v12.get(0, []):
        raise core.MachineryError("binding self-test failed: a degraded **kwargs view was not flagged")
    # a typing_extensions TypedDict whose ReadOnly[int] field is quoted: the runtime route says "writable"
    dcase = {"kind": "td", "base": "ext", "total": True, "stack": ["ReadOnly"], "spelling": "quoted", "inherit": False, "q": "none", "dflt": False}
    (do,) = c13_decls.observe_decls((0, [dcase]))
    do.pop("src")
    dgood, _ = _adjudicate("DeclFieldsTrace", "DeclFieldsTrace.cfg", [do])
    dbad = json.loads(json.dumps(do))
    dbad["entries"]["rt"][1] = "writable"
    v13, _ = _adjudicate("DeclFieldsTrace", "DeclFieldsTrace.cfg", [dbad])
    dbad2 = json.loads(json.dumps(do))
    dbad2["ops"]["imp"]["set"] = []                              # the importer lets a read-only key be assigned
    v14, _ = _adjudicate("DeclFieldsTrace", "DeclFieldsTrace.cfg", [dbad2])
    dbad3 = json.loads(json.dumps(do))
    dbad3["keys"]["readonly"] = "yes"                            # CPython would have recorded the quoted ReadOnly
    v15, _ = _adjudicate("DeclFieldsTrace", "DeclFieldsTrace.cfg", [dbad3])
    print("decl: rt entry writable        ->", v13)
    print("decl: importer op accepted     ->", v14)
    print("decl: key set corrupted        ->", v15)
    if (any(not x.startswith("dev:") for x in dgood.get(0, [])) or not {"viol:DeclaredMeaning@rt", "viol:FieldRoutesAgree"} <= set(v13.get(0, []))
            or not {"viol:OperationsFollowDeclaration@imp", "viol:OperationsJudgedIdentically"} <= set(v14.get(0, []))
            or "oracle:PyKeys" not in v15.get(0, [])):
        raise core.MachineryError("binding self-test failed: a corrupted declaration observation was not flagged")
    print("uncorrupted:", good, hgood, cgood, sgood)
    print("context: B's sig route -> A.K  ->", v5)
    print("context: cell state corrupted  ->", v6)
    print("context: importer accepts other->", v7)
    print("shape: bound keeps self        ->", v8)
    print("shape: body view corrupted     ->", v9)
    print("shape: importer codes corrupted->", v10)
    ok2 = (not cgood and not sgood
           and {"viol:DeclaringModule@B", "viol:RoutesAgree@B", "viol:ContextIndependent@B"} <= set(v5.get(0, []))
           and "oracle:TypingCells@B" in v6.get(0, []) and "viol:CallJudgedInContext@B" in v7.get(0, [])
           and "viol:BindingDropsFirst" in v8.get(0, []) and "viol:BodyViewAgrees" in v9.get(0, [])
           and any(x.startswith("viol:CallJudgedIdentically") for x in v10.get(0, [])))
    if not ok2:
        raise core.MachineryError("binding self-test failed: a corrupted context / shape observation was not flagged")
    print("str route corrupted     ->", v1)
    print("CPython object corrupted->", v2)
    print("runtime kind corrupted  ->", v3)
    print("importer codes corrupted->", v4)
    ok = (not good and not hgood and "viol:RoutesAgree" in v1.get(0, []) and "oracle:PyEval" in v2.get(0, [])
          and "viol:HeaderViewsAgree" in v3.get(0, []) and any(x.startswith("viol:CallJudgedIdentically") for x in v4.get(0, [])))
    if not ok:
        raise core.MachineryError("binding self-test failed: a corrupted observation was not flagged")
    print("binding self-test passed")
