"""C16 -- automatic fixes are safe.

Part A (add-ignores loop): spec/FixLoop.tla (extends Suppression.tla).  TLC explores every abstract
file x settings and every iteration of the fix loop up to the fixpoint; the real loop
(NameCheckVisitor(add_ignores=True).check_for_test(apply_changes=True), re-run on its own output) is
driven on the realised files and its Begin/Iter/End event stream validated by TLC (FixLoopTrace.tla).

Part B (replacement fixes: missing_f, use_fstrings, unused_variable, too_many_positional_args, unused_ignore,
missing_await, unused comprehension variable) is spec/FixReplace.tla + FixReplaceTrace.tla, driven by c16b.py.

Part C (the fixes as operations on the TEXT: line range of the rewritten statement, the lines around it, where an
ignore comment is inserted) is spec/FixLayout.tla + FixLayoutTrace.tla, driven by c16c.py.

Part D (what the fix producers decide and generate: does a diagnostic offer a replacement, and is the replacement the
intended semantic change only -- judged by executing the function before/after) is spec/FixShapes.tla +
FixShapesTrace.tla, driven by c16d.py.
"""
from __future__ import annotations

import ast
import random
from typing import Any

from .. import core, pyz
from ..supp_common import ABSTRACT, META, parse_own, render, settings_of

LEVEL = "model_checking"
MAX_REAL_ITER = 16


def run_fix_once(src: str, settings: dict[str, bool]):
    import contextlib
    import io

    from pyanalyze.name_check_visitor import NameCheckVisitor

    checker = pyz.get_checker(settings)
    module = pyz.make_module(src)
    tree = ast.parse(src)
    with contextlib.redirect_stderr(io.StringIO()):
        v = NameCheckVisitor(module.__name__ + ".py", src, tree, module=module, checker=checker, add_ignores=True)
        result, new_src = v.check_for_test(apply_changes=True)
    return pyz.brief(result), new_src


def observe_one(arg: tuple[int, dict]) -> list[dict]:
    tid, case = arg
    src = render(case)
    settings = settings_of(case)
    orig_ast = ast.dump(ast.parse(src))
    events: list[dict] = [{"tid": tid, "event": "Begin", "case": case, "src": src}]
    only_insertions = True
    status = "diverged"
    for _ in range(MAX_REAL_ITER):
        fails, new_src = run_fix_once(src, settings)
        if not fails:
            status = "fixed"
            break
        old_lines = src.splitlines()
        new_lines = new_src.splitlines()
        first = fails[0]
        fcode = ABSTRACT.get(first[0], first[0])
        # locate the single inserted line
        pos = None
        p0 = first[1]
        if (
            isinstance(p0, int)
            and len(new_lines) == len(old_lines) + 1
            and 1 <= p0 <= len(new_lines)
            and old_lines[: p0 - 1] + [new_lines[p0 - 1]] + old_lines[p0 - 1 :] == new_lines
        ):
            pos = p0  # inserted directly above the first reported diagnostic
        elif len(new_lines) == len(old_lines) + 1:
            for k in range(len(new_lines)):
                if k >= len(old_lines) or new_lines[k] != old_lines[k]:
                    if new_lines[:k] + new_lines[k + 1 :] == old_lines:
                        pos = k + 1
                    break
        if pos is None:
            only_insertions = False
            events.append({"tid": tid, "event": "End", "status": "diverged", "ast_same": False,
                           "only_insertions": False, "final": new_src})
            return events
        ign = parse_own(new_lines[pos - 1])
        if ign is None:
            only_insertions = False
            ign = "not-a-comment"
        events.append({"tid": tid, "event": "Iter", "first": [fcode, first[1]], "pos": pos, "code": ign})
        src = new_src
    try:
        ast_same = ast.dump(ast.parse(src)) == orig_ast
    except SyntaxError:
        ast_same = False
    events.append({"tid": tid, "event": "End", "status": status, "ast_same": ast_same,
                   "only_insertions": only_insertions, "final": src})
    return events


def judge(check: core.Check, cases: list[dict], label: str) -> None:
    per_case = core.pmap(observe_one, list(enumerate(cases)), chunk=50)
    batches: list[list[dict]] = [[]]
    for lines in per_case:
        if len(batches[-1]) + len(lines) > 30000:
            batches.append([])
        batches[-1].extend(lines)
    all_verdicts: dict[Any, list[str]] = {}
    for b in batches:
        if not b:
            continue
        verdicts, stats = core.adjudicate("FixLoopTrace", "FixLoopTrace.cfg", b, batch=10**9)
        check.add_trace_stats(stats)
        for k, v in verdicts.items():
            all_verdicts.setdefault(k, []).extend(v)
    check.evals(len(cases))
    for tid, case in enumerate(cases):
        if len(per_case[tid]) > 2:
            check.nontrivial(core.canon(case))
        for v in all_verdicts.get(tid, []):
            payload = {"case": case, "source": label, "src": per_case[tid][0]["src"], "trace": per_case[tid][1:]}
            if v.startswith("viol:"):
                check.violation(core.canon(case), v[5:], payload)
            elif v.startswith("dev:"):
                check.violation(v[4:], v[4:], payload)  # class key: matched against known_findings.jsonl
            else:
                check.drift({"verdict": v, **payload})
    for k in sorted({0, len(cases) // 2, len(cases) - 1}):
        check.sample({"source": label, "trace": per_case[k]})


def run(check: core.Check) -> None:
    quick = check.tier == "quick"
    rnd = random.Random(check.seed)
    check.assumptions += [
        "TLC 1.8.0; FixLoop.tla; the real loop is driven through check_for_test(apply_changes=True) with add_ignores=True",
        "replacement fixes (missing_f, use_fstrings, ...) are only post-condition checked (part B); the decompiler's "
        "source fidelity is outside what the TLA+ model decides",
    ]
    cfg = "FixLoop.quick.cfg" if quick else "FixLoop.thorough.cfg"
    res = core.require_ok(core.run_tlc("FixLoop", cfg, coverage=True, timeout=3400), "FixLoop exhaustive")
    core.require_coverage(res, ["FAddLine", "FChoose", "Iterate", "Fixpoint", "GiveUp"], "FixLoop")
    check.add_tlc("exhaustive:" + cfg, res)
    for strict, inv in (("FixLoop.strict1.cfg", "ConvergesStrict"), ("FixLoop.strict2.cfg", "TargetsOneStrict")):
        r = core.run_tlc("FixLoop", strict, timeout=600)
        if r.violated != inv:
            raise core.MachineryError(f"sensitivity self-test failed: {inv} unexpectedly holds on the model")
    check.cov["sensitivity"] = "ConvergesStrict and TargetsOneStrict are violated on the model (the known deviations are real)"
    emit_cfg = "FixLoop.emit2.cfg" if quick else "FixLoop.emit3.cfg"
    em = core.require_ok(core.run_tlc("FixLoopEmit", emit_cfg, timeout=3000), "FixLoop emit")
    check.add_tlc("emit:" + emit_cfg, em)
    cases = core.emitted_json(em)
    limit = 4000 if quick else 80000
    exhaustive = len(cases) <= limit
    if not exhaustive:
        cases = rnd.sample(cases, limit)
    check.cov["exhaustive"] = exhaustive
    check.cov["rule"] = (
        "cases = abstract files x settings enumerated by TLC (FixLoop.tla); each is driven through the real add-ignores "
        "loop to its fixpoint (or 16 iterations); non-trivial = at least one fix iteration happened"
    )
    judge(check, cases, "tlc-exhaustive")
    sim_cases = core.simulate_cases("FixLoopEmit", "FixLoop.sim.cfg", 600 if quick else 10000, depth=24,
                                    seed=check.seed + 5, check=check)
    judge(check, sim_cases, "tlc-simulate")
    # part B: replacement fixes
    from . import c16b

    c16b.run_part_b(check, quick)
    # part C: fixes as operations on the text (line ranges, neighbouring lines, ignore insertion)
    from . import c16c

    c16c.run_part_c(check, quick)
    # part D: what the fix producers decide and generate, over the statement shapes that matter for each of them
    from . import c16d

    c16d.run_part_d(check, quick)


def replay(check: core.Check, witness: dict) -> None:
    if witness["case"].get("part") == "replacement":
        from . import c16b

        c16b.replay_part_b(check, witness)
        return
    if witness["case"].get("part") == "shapes":
        from . import c16d

        c16d.replay_part_d(check, witness)
        return
    if witness["case"].get("part") == "layout":
        from . import c16c

        c16c.replay_part_c(check, witness)
        return
    judge(check, [witness["case"]], "replay")
