"""C11 -- suppression and enabling are a pure projection of the diagnostics.

Model: spec/Suppression.tla (show_error decision chain as a state machine + declarative RefD).
S->C: every abstract file x settings TLC enumerates is realised as Python source and checked by the
real NameCheckVisitor with the ShowError hook on.  C->S: the recorded Begin/ShowError/End event
streams are validated step by step by TLC against SuppressionTrace.tla.
"""
from __future__ import annotations

import random
from typing import Any

from .. import core, pyz

LEVEL = "model_checking"

from ..supp_common import ABSTRACT, META, REAL_CODE, render, settings_of  # noqa: E402


def observe_one(arg: tuple[int, dict]) -> list[dict]:
    """Check one realised file (codes disabled through command-line style settings); return its trace lines."""
    tid, case = arg
    return _observe(tid, case, None, None)


def _observe(tid: int, case: dict, checker, modname) -> list[dict]:
    from pyanalyze import _verif_trace

    src = render(case)
    sink: list[dict] = []
    _verif_trace.set_sink(sink)
    try:
        if checker is None:
            fails = pyz.check_source(src, settings=settings_of(case))
        else:
            fails = pyz.check_source(src, checker=checker, module=pyz.make_module(src, name=modname))
    finally:
        _verif_trace.set_sink(None)
    lines = [{"tid": tid, "event": "Begin", "case": case, "src": src}]
    for ev in sink:
        if ev["event"] != "ShowError":
            continue
        code = ev["code"]
        if code in META:
            continue
        if ev["decision"] == "caught":
            # first return path of show_error: recorded for the caller, nothing decided yet
            lines.append({"tid": tid, "event": "Caught", "code": str(code)})
            continue
        if code not in ABSTRACT or ev["lineno"] is None:
            raise core.MachineryError(f"realisation raised unexpected diagnostic {ev} for\n{src}")
        lines.append(
            {"tid": tid, "event": "ShowError", "code": ABSTRACT[code], "lineno": ev["lineno"], "decision": ev["decision"]}
        )
    out = []
    for code, lineno, _col in pyz.brief(fails):
        if code in META:
            out.append([code, lineno])
        elif code in ABSTRACT:
            out.append([ABSTRACT[code], lineno])
        else:
            raise core.MachineryError(f"realisation raised unexpected failure {code} for\n{src}")
    lines.append({"tid": tid, "event": "End", "out": out})
    return lines


def observe_override_group(arg: tuple[int, list[dict]]) -> list[list[dict]]:
    """Route 'per-module override': one configuration file whose overrides give module vq_a the settings of case A and
    module vq_b those of case B; ONE Checker checks B, A, B, A in turn (each module must keep its own settings)."""
    import shutil
    import tempfile
    from pathlib import Path

    from pyanalyze.name_check_visitor import NameCheckVisitor

    base, (case_a, case_b) = arg
    d = Path(tempfile.mkdtemp(prefix="c11cfg.", dir=str(core.scratch())))
    lines = ["[tool.pyanalyze]"]
    ovs = []
    for mod, case in (("vq_a", case_a), ("vq_b", case_b)):
        items = [f'module = "{mod}"'] + [f"{k} = {'true' if v else 'false'}" for k, v in sorted(settings_of(case).items())]
        ovs.append("{" + ", ".join(items) + "}")
    lines.append("overrides = [" + ", ".join(ovs) + "]")
    (d / "pyproject.toml").write_text("\n".join(lines) + "\n")
    kwargs = NameCheckVisitor.prepare_constructor_kwargs({"config_file": d / "pyproject.toml"})
    checker = kwargs["checker"]
    out = []
    for j, (mod, case) in enumerate((("vq_b", case_b), ("vq_a", case_a), ("vq_b", case_b), ("vq_a", case_a))):
        out.append(_observe(base + j, case, checker, mod))
    shutil.rmtree(d, ignore_errors=True)
    return out


def judge_overrides(check: core.Check, cases: list[dict], label: str) -> None:
    pairs = [(i * 4, [cases[k], cases[k + 1]]) for i, k in enumerate(range(0, len(cases) - 1, 2))
             if cases[k]["disabled"] != cases[k + 1]["disabled"] or cases[k]["unused_on"] != cases[k + 1]["unused_on"]]
    groups = core.pmap(observe_override_group, pairs, chunk=10)
    per_case = [lines for g in groups for lines in g]
    _adjudicate(check, per_case, label)


def judge(check: core.Check, cases: list[dict], label: str) -> None:
    per_case = core.pmap(observe_one, list(enumerate(cases)), chunk=100)
    _adjudicate(check, per_case, label)


def _adjudicate(check: core.Check, per_case: list[list[dict]], label: str) -> None:
    cases = [lines[0]["case"] for lines in per_case]
    for i, lines in enumerate(per_case):      # re-number: tids are positions in per_case
        for ln in lines:
            ln["tid"] = i
    obs = [ln for lines in per_case for ln in lines]
    # batches must not split a Begin..End group
    batches: list[list[dict]] = [[]]
    for lines in per_case:
        if len(batches[-1]) + len(lines) > 40000:
            batches.append([])
        batches[-1].extend(lines)
    all_verdicts: dict[Any, list[str]] = {}
    for b in batches:
        if not b:
            continue
        verdicts, stats = core.adjudicate("SuppressionTrace", "SuppressionTrace.cfg", b, batch=10**9)
        check.add_trace_stats(stats)
        for k, v in verdicts.items():
            all_verdicts.setdefault(k, []).extend(v)
    check.evals(len(cases))
    for tid, case in enumerate(cases):
        if any(ln["ign"] != "none" for ln in case["lines"]) and any(ln["diags"] for ln in case["lines"]):
            check.nontrivial(core.canon(case))
        for v in all_verdicts.get(tid, []):
            payload = {"case": case, "source": label, "src": per_case[tid][0]["src"], "trace": per_case[tid][1:]}
            if v.startswith("viol:"):
                check.violation(core.canon(case), v[5:], payload)
            else:
                check.drift({"verdict": v, **payload})
    for k in (0, len(cases) // 2, len(cases) - 1):
        check.sample({"source": label, "trace": per_case[k]})


def run(check: core.Check) -> None:
    quick = check.tier == "quick"
    rnd = random.Random(check.seed)
    check.assumptions += [
        "TLC 1.8.0; Suppression.tla's RefReported/OutputOK is the README's meaning of ignore comments "
        "(a leading own-line ignore[code] is read as a file-level ignore for that code, as the implementation does)",
        "diagnostics are realised with module-level lambdas raising undefined_name / unsupported_operation",
    ]
    # 1. design: exhaustive TLC of the state machine against RefD
    cfg = "Suppression.quick.cfg" if quick else "Suppression.thorough.cfg"
    res = core.require_ok(core.run_tlc("Suppression", cfg, coverage=True, timeout=3000), "Suppression exhaustive")
    core.require_coverage(res, ["AddLine", "ChooseSettings", "ShowStep", "UnusedPass", "BarePass"], "Suppression")
    check.add_tlc("exhaustive:" + cfg, res)
    pin = core.run_tlc("Suppression", "Suppression.pinned.cfg", timeout=600)
    if pin.violated != "ProjectionOK":
        raise core.MachineryError("sensitivity self-test failed: pinned lines[-1] wrap not rejected by the model")
    check.cov["sensitivity"] = "model with the pinned lines[lineno-2] wrap violates ProjectionOK, as expected"
    # 2. S->C: exhaustive replay of the smaller bound
    emit_cfg = "Suppression.emit2.cfg" if quick else "Suppression.emit3.cfg"
    em = core.require_ok(core.run_tlc("SuppressionEmit", emit_cfg, timeout=3000), "Suppression emit")
    check.add_tlc("emit:" + emit_cfg, em)
    cases = core.emitted_json(em)
    limit = 12000 if quick else 300000
    exhaustive = len(cases) <= limit
    if not exhaustive:
        cases = rnd.sample(cases, limit)
    check.cov["exhaustive"] = exhaustive
    check.cov["rule"] = (
        "cases = (abstract file of <=N lines over 26 line forms) x (disabled subset, unused_ignore on/off, bare_ignore "
        "on/off) enumerated by TLC; non-trivial = has both a diagnostic and an ignore comment"
    )
    judge(check, cases, "tlc-exhaustive")
    # 3. beyond: TLC simulation of longer files
    sim_cases = core.simulate_cases("SuppressionEmit", "Suppression.sim.cfg", 1500 if quick else 40000, depth=14,
                                    seed=check.seed + 11, check=check)
    judge(check, sim_cases, "tlc-simulate")
    # the same cases with the codes disabled through per-module overrides of one configuration file, two modules with
    # different settings sharing one Checker
    ov = list(cases)
    rnd.shuffle(ov)
    judge_overrides(check, ov[: 1200 if quick else 40000], "per-module-override")


def replay(check: core.Check, witness: dict) -> None:
    judge(check, [witness["case"]], "replay")
