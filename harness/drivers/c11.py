"""C11 -- suppression and enabling are a pure projection of the diagnostics.

Base model: spec/Suppression.tla (show_error decision chain as a state machine + declarative RefD), files of
module-level lambdas, settings through the constructor route and per-module overrides.
Routes: spec/SuppressionRoutes.tla -- (1) enabling: command line (--enable-all/--disable-all/-e/-d) over the
configuration file (top-level section, override of this module, override of another module) over the built-in
default, ImplEnabled (transcription) = RefEnabled (documented precedence); (2) files with structure (multi-line
statements, function bodies, decorators, nested defs, docstring / shebang / comment leading blocks, `ignore[a, b]`);
(3) catch_errors as state (CatchBegin / ShowCaught / CatchEndDrop / CatchEndReemit / Reshow*).
S->C: every case TLC enumerates or simulates is realised as Python source and checked by the real code -- through
the constructor `settings` route, through an in-process NameCheckVisitor.main() run (argument parser, config file,
two modules sharing one Checker) and, for a sample, through `python -m pyanalyze`.  C->S: the recorded
Begin/ShowError/Caught/Meta/End event streams are validated step by step by TLC against SuppressionTrace.tla /
SuppressionRoutesTrace.tla, which also judge the final failure list by the Ref operators.
"""
from __future__ import annotations

import copy
import random
from concurrent.futures import ThreadPoolExecutor
from typing import Any

from .. import core, pyz

LEVEL = "model_checking"

from .. import supp_routes as sr  # noqa: E402
from ..supp_common import ABSTRACT, META, REAL_CODE, render, settings_of  # noqa: E402, F401


def observe_one(arg: tuple[int, dict]) -> list[dict]:
    """Check one realised file (codes disabled through command-line style settings); return its trace lines."""
    tid, case = arg
    return _observe(tid, case, None, None)


def _observe(tid: int, case: dict, checker, modname) -> list[dict]:
    from pyanalyze import _verif_trace

    src = render(case)
    sink: list[dict] = []
    _verif_trace.set_sink(sink)
    try:
        if checker is None:
            fails = pyz.check_source(src, settings=settings_of(case))
        else:
            fails = pyz.check_source(src, checker=checker, module=pyz.make_module(src, name=modname))
    finally:
        _verif_trace.set_sink(None)
    lines = [{"tid": tid, "event": "Begin", "case": case, "src": src}]
    for ev in sink:
        if ev["event"] != "ShowError":
            continue
        code = ev["code"]
        if code in META:
            continue
        if ev["decision"] == "caught":
            # first return path of show_error: recorded for the caller, nothing decided yet
            lines.append({"tid": tid, "event": "Caught", "code": str(code)})
            continue
        if ev["lineno"] is None:
            continue            # cannot be replayed; if it is reported, the output below carries it
        # a code the file does not raise by construction (never seen on the unchanged tree) is handed to TLC under its
        # own name: the chain is replayed for it and, if it is reported, OutputOK rejects the output
        lines.append(
            {"tid": tid, "event": "ShowError", "code": ABSTRACT.get(code, f"x:{code}"), "lineno": ev["lineno"],
             "decision": ev["decision"]}
        )
    out = []
    for code, lineno, _col in pyz.brief(fails):
        if code in META:
            out.append([code, lineno])
        else:
            out.append([ABSTRACT.get(code, f"x:{code}"), lineno or 0])
    lines.append({"tid": tid, "event": "End", "out": out})
    return lines


def observe_override_group(arg: tuple[int, list[dict]]) -> list[list[dict]]:
    """Route 'per-module override': one configuration file whose overrides give module vq_a the settings of case A and
    module vq_b those of case B; ONE Checker checks B, A, B, A in turn (each module must keep its own settings)."""
    import shutil
    import tempfile
    from pathlib import Path

    from pyanalyze.name_check_visitor import NameCheckVisitor

    base, (case_a, case_b) = arg
    d = Path(tempfile.mkdtemp(prefix="c11cfg.", dir=str(core.scratch())))
    lines = ["[tool.pyanalyze]"]
    ovs = []
    for mod, case in (("vq_a", case_a), ("vq_b", case_b)):
        items = [f'module = "{mod}"'] + [f"{k} = {'true' if v else 'false'}" for k, v in sorted(settings_of(case).items())]
        ovs.append("{" + ", ".join(items) + "}")
    lines.append("overrides = [" + ", ".join(ovs) + "]")
    (d / "pyproject.toml").write_text("\n".join(lines) + "\n")
    kwargs = NameCheckVisitor.prepare_constructor_kwargs({"config_file": d / "pyproject.toml"})
    checker = kwargs["checker"]
    out = []
    for j, (mod, case) in enumerate((("vq_b", case_b), ("vq_a", case_a), ("vq_b", case_b), ("vq_a", case_a))):
        out.append(_observe(base + j, case, checker, mod))
    shutil.rmtree(d, ignore_errors=True)
    return out


def judge_overrides(check: core.Check, cases: list[dict], label: str) -> None:
    pairs = [(i * 4, [cases[k], cases[k + 1]]) for i, k in enumerate(range(0, len(cases) - 1, 2))
             if cases[k]["disabled"] != cases[k + 1]["disabled"] or cases[k]["unused_on"] != cases[k + 1]["unused_on"]]
    groups = core.pmap(observe_override_group, pairs, chunk=10)
    per_case = [lines for g in groups for lines in g]
    _adjudicate(check, per_case, label)


CHUNK = 30000      # cases observed and adjudicated at a time (bounds the memory of the thorough tier)


def _chunks(items: list, n: int = CHUNK):
    for k in range(0, len(items), n):
        yield items[k:k + n]


def judge(check: core.Check, cases: list[dict], label: str) -> None:
    for part in _chunks(cases):
        per_case = core.pmap(observe_one, list(enumerate(part)), chunk=100)
        _adjudicate(check, per_case, label)


def _adjudicate(check: core.Check, per_case: list[list[dict]], label: str, *, module: str = "SuppressionTrace",
                route: str = "base", extra: list[dict] | None = None) -> dict[Any, list[str]]:
    cases = [lines[0]["case"] for lines in per_case]
    for i, lines in enumerate(per_case):      # re-number: tids are positions in per_case
        for ln in lines:
            ln["tid"] = i
    # batches must not split a Begin..End group
    batches: list[list[dict]] = [[]]
    for lines in per_case:
        if len(batches[-1]) + len(lines) > 12000:
            batches.append([])
        batches[-1].extend(lines)
    all_verdicts: dict[Any, list[str]] = {}

    def one(b):
        return core.adjudicate(module, module + ".cfg", b, batch=10**9)

    with ThreadPoolExecutor(4) as ex:
        for verdicts, stats in ex.map(one, [b for b in batches if b]):
            check.add_trace_stats(stats)
            for k, v in verdicts.items():
                all_verdicts.setdefault(k, []).extend(v)
    check.evals(len(cases))
    for tid, case in enumerate(cases):
        if any(ln["ign"] != "none" for ln in case["lines"]) and any(ln["diags"] for ln in case["lines"]):
            check.nontrivial(core.canon(case))
        for v in all_verdicts.get(tid, []):
            begin = per_case[tid][0]
            payload = {"case": case, "source": label, "route": route, "src": begin["src"], "trace": per_case[tid][1:]}
            for k in ("argv", "toml"):
                if k in begin:
                    payload[k] = begin[k]
            if extra is not None:
                payload.update(extra[tid])
            if v.startswith("viol:"):
                check.violation(core.canon(case), v[5:], payload)
            elif v.startswith("drift:"):
                check.drift({"verdict": v, **payload})
            else:
                raise core.MachineryError(f"unexpected verdict {v} for {case}")
    for k in (0, len(cases) // 2, len(cases) - 1):
        if cases:
            check.sample({"source": label, "trace": per_case[k][:40]})
    return all_verdicts


# --------------------------------------------------------------------------- routes


def judge_ctor(check: core.Check, cases: list[dict], label: str) -> list[list[dict]]:
    """Returns the observations of the first chunk (used by the trace self-test)."""
    first: list[list[dict]] = []
    for part in _chunks(cases):
        per_case = core.pmap(sr.observe_ctor, list(enumerate(part)), chunk=100)
        _adjudicate(check, per_case, label, module="SuppressionRoutesTrace", route="ctor")
        first = first or per_case
    return first


def _pairs(cases: list[dict]) -> list[tuple[int, dict, list]]:
    """Runs of two files: file A with the case's request, file B = the next case's lines under the same request seen
    from the other module (its override section is A's `oth`)."""
    n = len(cases)
    return [(2 * k, cases[k], cases[(k + 1) % n]["lines"]) for k in range(n)]


def judge_cli(check: core.Check, cases: list[dict], label: str, *, subprocess_route: bool = False) -> None:
    for part in _chunks(_pairs(cases), 4000):
        _judge_cli_part(check, part, label, subprocess_route)


def _judge_cli_part(check: core.Check, args: list, label: str, subprocess_route: bool) -> None:
    if subprocess_route:
        with ThreadPoolExecutor(8) as ex:
            groups = list(ex.map(sr.observe_subprocess, args))
    else:
        groups = core.pmap(sr.observe_cli, args, chunk=8)
    per_case, extra = [], []
    for (_, case_a, lines_b), g in zip(args, groups):
        for lines in g:
            per_case.append(lines)
            extra.append({"run": {"case_a": case_a, "lines_b": lines_b}})
    _adjudicate(check, per_case, label, module="SuppressionRoutesTrace", route="sub" if subprocess_route else "cli",
                extra=extra)


def _verdicts_of(groups: list[list[dict]]) -> list[str]:
    groups = copy.deepcopy(groups)
    for i, g in enumerate(groups):
        for ln in g:
            ln["tid"] = i
    verdicts, _ = core.adjudicate("SuppressionRoutesTrace", "SuppressionRoutesTrace.cfg", [ln for g in groups for ln in g],
                                  batch=10**9)
    return [",".join(sorted(verdicts.get(i, []))) for i in range(len(groups))]


def selftest_trace(check: core.Check, per_case: list[list[dict]]) -> None:
    """Sensitivity of the trace specification's oracle clauses: real observations are corrupted in the way a defect of
    the corresponding mechanism would corrupt them; TLC must answer viol:ProjectionOK for each."""
    def dropped_unused(g):
        # the ignore comment on a line whose only errors were caught and dropped is reported unused: hide that report
        case, out = g[0]["case"], g[-1]["out"]
        for k, ln in enumerate(case["lines"], 1):
            if ln["shape"] == "wbody" and ln["ign"] != "none" and ["unused_ignore", k] in out:
                g2 = copy.deepcopy(g)
                g2[-1]["out"].remove(["unused_ignore", k])
                return g2
        return None

    def reemitted_used(g):
        # a comment that suppressed a re-emitted error (c4) is reported unused although it was used
        case, out = g[0]["case"], g[-1]["out"]
        if "unused_ignore" not in case["cfg"]["en"] or "c4" in case["cfg"]["dis"]:
            return None
        for k, ln in enumerate(case["lines"], 1):
            if ln["shape"] == "stmt" and ln["ign"] in ("c4", "bare") and ln["diags"] == ["c4"] \
                    and ["unused_ignore", k] not in out and not any(o[1] == k for o in out):
                if any(p["kind"] == "own" for p in case["lines"]):
                    continue
                g2 = copy.deepcopy(g)
                g2[-1]["out"].append(["unused_ignore", k])
                return g2
        return None

    def disabled_still_reported(g):
        # the request disables a code whose diagnostic is (still) in the output
        case, out = g[0]["case"], g[-1]["out"]
        for code, _k in out:
            if code in ("c1", "c2", "c4"):
                g2 = copy.deepcopy(g)
                g2[0]["case"]["cfg"]["dis"] = sorted(set(case["cfg"]["dis"]) | {code})
                g2[0]["case"]["cfg"]["en"] = [c for c in case["cfg"]["en"] if c != code]
                return g2
        return None

    def dropped_reported(g):
        # an error caught by an assert_error block leaks into the output
        case = g[0]["case"]
        for k, ln in enumerate(case["lines"], 1):
            if ln["shape"] == "wbody" and ln["diags"] and ln["diags"][0] not in case["cfg"]["dis"]:
                if any(p["kind"] == "own" for p in case["lines"]) or ln["ign"] != "none":
                    continue
                g2 = copy.deepcopy(g)
                g2[-1]["out"].append([ln["diags"][0], k])
                return g2
        return None

    corrupted, names = [], []
    for name, f in (("dropped-error-comment-not-reported-unused", dropped_unused),
                    ("comment-used-by-reemitted-error-reported-unused", reemitted_used),
                    ("disabled-code-still-reported", disabled_still_reported),
                    ("dropped-error-reported", dropped_reported)):
        for g in per_case:
            g2 = f(g)
            if g2 is not None:
                corrupted.append(g2)
                names.append(name)
                break
        else:
            raise core.MachineryError(f"trace self-test {name}: no suitable real observation (vacuous)")
    got = _verdicts_of(corrupted)
    for name, v in zip(names, got):
        if "viol:ProjectionOK" not in v:
            raise core.MachineryError(f"trace self-test {name}: corrupted observation was not rejected (verdicts: {v!r})")
    check.cov["trace_sensitivity"] = {n: v for n, v in zip(names, got)}


DESIGN_ACTIONS = ["RPickShape", "RAddLine", "RChooseAll", "RChooseCode", "RChooseFile", "RStart", "CatchBegin", "ShowCaught",
                  "ShowDecide", "CatchEndDrop", "CatchEndReemit", "ReshowCaught", "ReshowDecide", "RUnusedPass", "RBarePass"]


def run(check: core.Check) -> None:
    import os
    import time

    quick = check.tier == "quick"
    # smoke-testing aid: scales the replay sizes of the thorough tier (the TLC design runs are not affected)
    scale = float(os.environ.get("VERIF_C11_THOROUGH_SCALE", "1"))

    def th(n: int) -> int:
        return max(1, int(n * scale))

    phases: dict[str, float] = {}
    check.cov["phase_wall_s"] = phases
    t_last = [time.time()]

    def mark(name: str) -> None:
        now = time.time()
        phases[name] = round(now - t_last[0], 1)
        t_last[0] = now

    rnd = random.Random(check.seed)
    check.assumptions += [
        "TLC 1.8.0; Suppression.tla's RefReported/OutputOK is the README's meaning of ignore comments "
        "(a leading own-line ignore[code] is read as a file-level ignore for that code, as the implementation does)",
        "base slice: diagnostics are realised with module-level lambdas raising undefined_name / unsupported_operation",
        "routes: RefEnabled = -d over -e over --enable-all/--disable-all over the module's override section over the "
        "top-level section over the built-in default (README, --help texts, docs/configuration.md; a code named by both "
        "-e and -d is disabled: 'disabling a code by command line removes exactly its diagnostics'); the undocumented "
        "`disable_all` configuration key belongs to C18",
        "routes: `ignore[a, b]` is not a documented form: it suppresses nothing and is reported unused (never bare); "
        "comments naming unused_ignore / bare_ignore are outside the domain (self-referential)",
        "routes: implicit_any (raised at several nodes of every realised line) is switched off with -d whenever "
        "--enable-all is requested; were it reported all the same, TLC judges the output a violation",
        "routes: a diagnostic belongs to the line show_error reports it at (node.lineno: continuation line, decorator "
        "line, def line); errors caught by a `with assert_error():` block are not diagnostics of the file",
    ]
    # ---- 1. design: every TLC run of the two specifications, side by side
    R = "SuppressionRoutesMC"
    jobs: dict[str, tuple] = {
        # quick: all files of 3 lines under the four settings that report unused_ignore (all 16 settings: <=2 lines in
        # base-emit); thorough: all files of <=4 lines x all settings
        "base": ("SuppressionQuick3", "SuppressionQuick3.cfg", False, 16) if quick
        else ("Suppression", "Suppression.thorough.cfg", False, 16),
        "base-emit": ("SuppressionEmit", "Suppression.emit2.cfg" if quick else "Suppression.emit3.cfg", quick, 8),
        "pinned": ("Suppression", "Suppression.pinned.cfg", False, 4),
        "enable": (R, "SuppressionRoutes.enable.cfg" if quick else "SuppressionRoutes.enable3.cfg", False, 4 if quick else 16),
        "catchflat": (R, "SuppressionRoutes.catchflat2.cfg" if quick else "SuppressionRoutes.catchflat3.cfg", False, 8),
        "catchblock": (R, "SuppressionRoutes.catchblockq.cfg" if quick else "SuppressionRoutes.catchblock.cfg", quick, 8),
        "struct": (R, "SuppressionRoutes.struct3.cfg" if quick else "SuppressionRoutes.struct4.cfg", False, 8),
    }
    sens = {
        "enablebug_disable_before_enable": {"EEnabledOK"},
        "enablebug_config_beats_command_line": {"EEnabledOK"},
        "enablebug_other_module_applies": {"EEnabledOK"},
        "catchbug_caught_marks_used": {"RProjectionOK"},
        # violates both; which one TLC's workers report first is not deterministic
        "catchbug_drop_reemits": {"RChainOnce", "RProjectionOK"},
    }
    for name in sens:
        jobs[name] = (R, f"SuppressionRoutes.{name}.cfg", False, 4)

    def tlc(job):
        module, cfg, cov, workers = job
        return core.run_tlc(module, cfg, coverage=cov, workers=workers, timeout=3400)

    with ThreadPoolExecutor(3 if quick else 2) as ex:
        results = dict(zip(jobs, ex.map(tlc, jobs.values())))
    mark("design-tlc")
    for name in ("base", "base-emit", "enable", "catchflat", "catchblock", "struct"):
        core.require_ok(results[name], f"C11 design run {name} ({jobs[name][1]})")
        check.add_tlc(f"{name}:{jobs[name][1]}", results[name])
    if quick:
        core.require_coverage(results["base-emit"], ["AddLine", "ChooseSettings", "ShowStep", "UnusedPass", "BarePass"], "Suppression")
        core.require_coverage(results["catchblock"], DESIGN_ACTIONS, "SuppressionRoutes")
    if results["pinned"].violated != "ProjectionOK":
        raise core.MachineryError("sensitivity self-test failed: pinned lines[-1] wrap not rejected by the model")
    for name, inv in sens.items():
        check.add_tlc(f"sensitivity:{name}", results[name], violated=results[name].violated)
        if results[name].violated not in inv:
            raise core.MachineryError(f"sensitivity self-test failed: seeded model defect {name} did not violate {inv} "
                                      f"(violated: {results[name].violated}, error: {results[name].error})")
    check.cov["sensitivity"] = ("model with the pinned lines[lineno-2] wrap violates ProjectionOK; the seeded model defects "
                                + ", ".join(f"{n} -> {results[n].violated}" for n in sens) + ", as expected")

    # ---- 2. base slice, S->C: replay of the exhaustive smaller bound
    cases = core.emitted_json(results["base-emit"])
    results["base-emit"].stdout = ""        # the emitting runs' outputs are large; keep only the parsed cases
    limit = 6000 if quick else th(300000)
    exhaustive = len(cases) <= limit
    if not exhaustive:
        cases = rnd.sample(cases, limit)
    check.cov["exhaustive"] = exhaustive
    check.cov["rule"] = (
        "base: cases = (abstract file of <=N lines over 26 line forms) x (disabled subset, unused_ignore on/off, bare_ignore "
        "on/off) enumerated by TLC (design check exhaustive for N=2 with all 16 settings and N=3 with the 4 settings that "
        "report unused_ignore in quick, N=4 with all settings in thorough; replay of all N=2 quick (sampled to "
        f"{limit}) / N=3 thorough files); routes: enabling = every request over (all-flag x {{-e,-d,both,neither}} x top x "
        "override x other-module override) for a default-on and a default-off code (quick; + unused_ignore thorough); "
        "catch = every flat file of <=2 (quick) / 3 (thorough) lines over diags {c1,c4,c2,c1+c4} x comments "
        "{bare,c4,c3,multi} and every extension by <=2 lines of the three `with assert_error():` block heads, x requests "
        "over {c4, unused_ignore}; structure = every file of <=3 (quick) / 4 (thorough) lines over the 14 shapes, diags "
        "{c1,c6,c1+c6}, comments {bare,c1}, unused_ignore on/off; structure + command line = TLC simulation of files of 3..8 lines over 14 shapes, 14 "
        "diagnostic sets, 8 comment forms x requests over all 7 codes, replayed through main() two files per run; "
        "non-trivial = has both a diagnostic and an ignore comment"
    )
    judge(check, cases, "tlc-exhaustive")
    mark("base-replay")
    # base, beyond: TLC simulation of longer files
    sim_cases = core.simulate_cases("SuppressionEmit", "Suppression.sim.cfg", 800 if quick else th(40000), depth=14,
                                    seed=check.seed + 11, check=check, first_num=900 if quick else None)
    judge(check, sim_cases, "tlc-simulate")
    mark("base-simulate")
    # the same cases with the codes disabled through per-module overrides of one configuration file, two modules with
    # different settings sharing one Checker
    ov = list(cases)
    rnd.shuffle(ov)
    judge_overrides(check, ov[: 600 if quick else th(40000)], "per-module-override")
    mark("base-overrides")

    # ---- 3. routes, S->C
    flat = core.emitted_json(results["catchflat"])
    block = core.emitted_json(results["catchblock"])
    check.cov["routes_cases"] = {"catch-flat": len(flat), "catch-block": len(block)}
    lim = 1500 if quick else th(60000)
    flat_s = flat if len(flat) <= lim else rnd.sample(flat, lim)
    block_s = block if len(block) <= lim else rnd.sample(block, lim)
    struct = core.emitted_json(results["struct"])
    for name in ("catchflat", "catchblock", "struct"):
        results[name].stdout = ""
    check.cov["routes_cases"]["structure-exhaustive"] = len(struct)
    check.cov["routes_replayed_exhaustively"] = {"catch-flat": len(flat) <= lim, "catch-block": len(block) <= lim,
                                                 "structure": len(struct) <= lim}
    judge_ctor(check, struct if len(struct) <= lim else rnd.sample(struct, lim), "routes-structure/constructor-settings")
    judge_ctor(check, flat_s, "routes-catch-flat/constructor-settings")
    per_block = judge_ctor(check, block_s, "routes-catch-block/constructor-settings")
    selftest_trace(check, per_block)
    mark("routes-constructor-replay")
    # structure x command line x configuration file, through main()
    want = 250 if quick else th(4000)
    sims = []
    for cfg, seed in (("SuppressionRoutes.sim.cfg", 17), ("SuppressionRoutes.simblock.cfg", 29)):
        sims += _simulate_routes(check, cfg, want, check.seed + seed)
    check.cov["routes_cases"]["simulated"] = len(sims)
    mark("routes-simulate")
    judge_cli(check, sims, "routes-structure/main()")
    # the flat catch cases' files under full requests: the enabling dimension exhaustively chosen by TLC is too large to
    # replay, so requests are taken from the simulated cases and files from the exhaustive slice
    half = sims[: max(1, len(sims) // 2)]
    mixed = [{"lines": f["lines"], "cfg": s["cfg"]} for f, s in zip(rnd.sample(flat, min(len(flat), len(half))), half)]
    judge_cli(check, mixed, "routes-catch-flat/main()")
    mark("routes-main-replay")
    judge_cli(check, rnd.sample(sims, min(len(sims), 10 if quick else 60)), "routes-structure/python -m pyanalyze", subprocess_route=True)
    mark("routes-subprocess-replay")


def _simulate_routes(check: core.Check, cfg: str, want: int, seed: int) -> list[dict]:
    uniq: dict[str, dict] = {}
    num = max(4, want // 5)
    for rnd_i in range(3):
        res = core.require_ok(core.run_tlc("SuppressionRoutesMC", cfg, workers=8, simulate=f"num={num}", depth=250,
                                           seed=seed + 7919 * rnd_i, timeout=1700), f"SuppressionRoutes simulate {cfg}")
        check.add_tlc(f"simulate:{cfg}:num={num}x8", res)
        for c in core.emitted_json(res):
            uniq.setdefault(core.canon(c), c)
        if len(uniq) >= want:
            break
        num *= 3
    cases = list(uniq.values())
    if not cases:
        raise core.MachineryError(f"simulation of SuppressionRoutes/{cfg} produced no cases")
    if len(cases) > want:
        cases = random.Random(seed).sample(cases, want)
    return cases


def replay(check: core.Check, witness: dict) -> None:
    route = witness.get("route", "base")
    if route == "base":
        judge(check, [witness["case"]], "replay")
    elif route == "ctor":
        judge_ctor(check, [witness["case"]], "replay")
    else:
        run_ = witness["run"]
        args = [(0, run_["case_a"], run_["lines_b"])]
        groups = [sr.observe_subprocess(a) if route == "sub" else sr.observe_cli(a) for a in args]
        per_case = [lines for g in groups for lines in g]
        _adjudicate(check, per_case, "replay", module="SuppressionRoutesTrace", route=route,
                    extra=[{"run": run_} for _ in per_case])
