"""C07 -- callable compatibility is behaviourally sound.

Model: spec/SigCompat.tla (Signature.can_assign as a state machine over the expected parameters, one action
per branch) against behavioural inclusion stated with the C05 oracle spec/CPythonBind.tla.
S->C: every pair (expected f, actual g) TLC enumerates / simulates is realised as two real `def`s; the real
verdict is KnownValue(f).can_assign(KnownValue(g)) (value.py:582 -> CallableValue.can_assign ->
Signature.can_assign), for a sample also the real visitor on `use(g)` with `def use(cb: Literal[f])`;
both functions are REALLY CALLED with every call shape (<= maxpos positionals, <= maxkw keywords) and the
shapes CPython binds -- with the parameter every argument landed in -- are recorded.
C->S: TLC (spec/trace/SigCompatTrace.tla) validates the oracle model against those real outcomes, judges the
real verdicts and compares them with the implementation model.  This file only records.
"""
from __future__ import annotations

import itertools
import random
import re
from typing import Any, Optional

from .. import core, pyz
from .c05 import adjudicate_parallel

LEVEL = "model_checking"
EXTRA = "z"
MAXPOS = 3
MAXKW = 3
ANY = 9

ACTIONS = [
    "PosOnly_Match", "PosOnly_NoDefault", "PosOnly_ViaVarArgs", "PosOnly_NotAccepted",
    "PosOrKw_Match", "PosOrKw_NameMismatch", "PosOrKw_NoDefault", "PosOrKw_TheirPosOnly",
    "PosOrKw_ViaVarArgsAndKwargs", "PosOrKw_NotAccepted",
    "KwOnly_Match", "KwOnly_NoDefault", "KwOnly_ViaKwargs", "KwOnly_NotAccepted",
    "VarPos_Ok", "VarPos_NotAccepted", "VarKw_Ok", "VarKw_NotAccepted",
    "Final_ExtraPosOnly", "Final_ExtraParam", "Final_ExtraKwOnly", "Final_Ok",
    "AddExp", "EndExp", "AddAct", "EndAct",
]
TYPED_ACTIONS = [
    "PosOnly_Type", "PosOnly_VarArgsType", "PosOrKw_Type", "PosOrKw_VarArgsType", "PosOrKw_KwargsType",
    "KwOnly_Type", "KwOnly_KwargsType", "VarPos_Type", "VarPos_ExtraPositionalType", "VarKw_Type",
    "VarKw_ExtraKeywordType",
]

# ----------------------------------------------------------------------------- realisation

PRELUDE = "class A: pass\nclass B(A): pass\nclass C(B): pass\nclass U: pass\n_c = C()\n_u = U()\n"
RANK_NAME = {0: "C", 1: "B", 2: "A", 3: "object", 5: "U"}      # U is unrelated to the chain C <: B <: A
UNRELATED = 5


def def_source(sig: list[dict], ret: int, fname: str, body: str) -> str:
    parts: list[str] = []
    kinds = [p["kind"] for p in sig]
    for i, p in enumerate(sig):
        k, name = p["kind"], p["name"]
        ann = "" if p["ty"] == ANY else ": " + RANK_NAME[p["ty"]]
        if k == "ko" and "va" not in kinds and (i == 0 or kinds[i - 1] != "ko"):
            parts.append("*")
        if k == "va":
            parts.append("*" + name + ann)
        elif k == "vk":
            parts.append("**" + name + ann)
        else:
            dval = "_u" if p["ty"] == UNRELATED else "_c"      # a default that is a member of the declared type
            dflt = "" if not p["dflt"] else ("=" + dval if not ann else " = " + dval)
            parts.append(name + ann + dflt)
        if k == "po" and (i + 1 == len(sig) or kinds[i + 1] != "po"):
            parts.append("/")
    r = "" if ret == ANY else " -> " + RANK_NAME[ret]
    return f"def {fname}({', '.join(parts)}){r}: {body}"


_NS: dict[str, Any] = {}
_FUNCS: dict[str, Any] = {}


def _namespace() -> dict:
    if not _NS:
        exec(PRELUDE, _NS)
    return _NS


def real_function(sig: list[dict], ret: int):
    key = core.canon([sig, ret])
    f = _FUNCS.get(key)
    if f is None:
        ns = dict(_namespace())
        try:
            exec(compile(def_source(sig, ret, "f", "return locals()"), "<c07>", "exec"), ns)
        except SyntaxError as exc:
            raise core.MachineryError(f"generated signature is not a function definition: {sig}: {exc}")
        f = _FUNCS[key] = ns["f"]
    return f


_WHY = [
    (re.compile(r"^return annotation is not compatible"), "Return_Type"),
    (re.compile(r"^positional-only param .* has no default"), "PO_NoDefault"),
    (re.compile(r"^type of positional-only parameter"), "PO_Type"),
    (re.compile(r"^type of parameter .* is incompatible: ?\*args type is incompatible"), "VarArgsType"),
    (re.compile(r"^type of parameter .* is incompatible: \*\*kwargs"), "KwargsType"),
    (re.compile(r"^positional-only parameter \d+ is not accepted"), "PO_NotAccepted"),
    (re.compile(r"^param name .* does not match"), "PK_NameMismatch"),
    (re.compile(r"^param .* has no default"), "PK_NoDefault"),
    (re.compile(r"^type of parameter .* is incompatible$"), "ParamType"),
    (re.compile(r"^parameter .* is not accepted as a keyword argument"), "PK_TheirPosOnly"),
    (re.compile(r"^parameter .* is not accepted$"), "NotAccepted"),
    (re.compile(r"^keyword-only param .* has no default"), "KO_NoDefault"),
    (re.compile(r"^\*args are not accepted"), "VA_NotAccepted"),
    (re.compile(r"^type of \*args is incompatible"), "VA_Type"),
    (re.compile(r"^type of param .* is incompatible with \*args type"), "VA_ExtraPositionalType"),
    (re.compile(r"^\*\*kwargs are not accepted"), "VK_NotAccepted"),
    (re.compile(r"^type of \*\*kwargs is incompatible"), "VK_Type"),
    (re.compile(r"^type of param .* is incompatible with \*\*kwargs type"), "VK_ExtraKeywordType"),
    (re.compile(r"^takes extra positional-only parameter"), "Final_ExtraPosOnly"),
    (re.compile(r"^takes extra parameter"), "Final_Extra"),
]


def real_compat(case: dict) -> dict:
    from pyanalyze.value import CanAssignError, KnownValue

    checker = pyz.get_checker()
    f = real_function(case["exp"], case["exp_ret"])
    g = real_function(case["act"], case["act_ret"])
    try:
        r = KnownValue(f).can_assign(KnownValue(g), checker)
    except Exception as exc:
        return {"verdict": "raised", "why": type(exc).__name__}
    if isinstance(r, CanAssignError):
        msg = r.message
        return {"verdict": "err", "why": next((c for rx, c in _WHY if rx.search(msg)), msg)}
    return {"verdict": "ok", "why": "Final_Ok"}


def _targets(sig: list[dict], n: int, keys: tuple[str, ...], got: dict) -> tuple[list[int], list[int]]:
    """Index (1-based) of the parameter that really received each argument."""
    index = {p["name"]: i + 1 for i, p in enumerate(sig)}
    va = next((p["name"] for p in sig if p["kind"] == "va"), None)
    vk = next((p["name"] for p in sig if p["kind"] == "vk"), None)
    pt, kt = [], []
    for j in range(n):
        v = 100 + j
        hit = [nm for nm, val in got.items() if nm not in (va, vk) and val == v]
        if hit:
            pt.append(index[hit[0]])
        elif va is not None and v in got[va]:
            pt.append(index[va])
        else:
            pt.append(0)
    for j, k in enumerate(keys):
        v = 200 + j
        if k in got and k not in (va, vk) and got[k] == v:
            kt.append(index[k])
        elif vk is not None and got[vk].get(k) == v:
            kt.append(index[vk])
        else:
            kt.append(0)
    return pt, kt


def real_calls(case: dict) -> dict:
    names = sorted({p["name"] for p in case["exp"]} | {p["name"] for p in case["act"]} | {EXTRA})
    keysets = [ks for r in range(MAXKW + 1) for ks in itertools.combinations(names, r)]
    out: dict[str, Any] = {"maxpos": MAXPOS, "maxkw": MAXKW, "names": names, "total": 0}
    for tag, sig, ret in (("fb", case["exp"], case["exp_ret"]), ("gb", case["act"], case["act_ret"])):
        fn = real_function(sig, ret)
        bound = []
        total = 0
        for n in range(MAXPOS + 1):
            pos = [100 + j for j in range(n)]
            for ks in keysets:
                total += 1
                try:
                    got = fn(*pos, **{k: 200 + j for j, k in enumerate(ks)})
                except TypeError:
                    continue
                pt, kt = _targets(sig, n, ks, got)
                bound.append([n, list(ks), pt, kt])
        out[tag] = bound
        out["total"] = total
    ns = _namespace()
    cls = {0: ns["C"], 1: ns["B"], 2: ns["A"], 3: object, UNRELATED: ns["U"]}
    ranks = sorted({p["ty"] for p in case["exp"] + case["act"]} | {case["exp_ret"], case["act_ret"]} - {ANY})
    ranks = [r for r in ranks if r != ANY]
    out["chain"] = [[r1, r2, issubclass(cls[r1], cls[r2])] for r1 in ranks for r2 in ranks]
    out["tc"] = _typed_calls(case, out["fb"], out["gb"], cls) if ranks else []
    return out


class _AnyArg:
    """An argument whose type the expected signature leaves open (unannotated parameter)."""


def _typed_calls(case: dict, fb: list, gb: list, cls: dict) -> list:
    """For every call shape CPython binds in BOTH functions: call the actual function g with arguments that are
    instances of the types the expected signature f declares for the parameters they land in (a keyword landing in
    f's **kwargs: an instance of its value type, a positional landing in *args: of its element type) and
    isinstance-check what every annotated parameter of g received (*args elements, **kwargs values; defaults that
    were not overridden are g's own business).  -> [[n, keys, every argument is a member of its parameter's type]]"""
    exp, act = case["exp"], case["act"]
    g = real_function(act, case["act_ret"])
    in_g = {(b[0], tuple(b[1])) for b in gb}
    defaults = {id(d) for d in (g.__defaults__ or ())} | {id(d) for d in (g.__kwdefaults__ or {}).values()}
    make = lambda ty: _AnyArg() if ty == ANY else cls[ty]()  # noqa: E731
    out = []
    for n, keys, pt, kt in fb:
        if (n, tuple(keys)) not in in_g:
            continue
        pos = [make(exp[t - 1]["ty"]) for t in pt]
        kws = {k: make(exp[t - 1]["ty"]) for k, t in zip(keys, kt)}
        got = g(*pos, **kws)
        ok = True
        for p in act:
            if p["ty"] == ANY:
                continue
            v = got[p["name"]]
            vals = list(v) if p["kind"] == "va" else list(v.values()) if p["kind"] == "vk" else [v]
            for x in vals:
                if id(x) in defaults or isinstance(x, _AnyArg):
                    continue
                ok = ok and isinstance(x, cls[p["ty"]])
        out.append([n, list(keys), ok])
    return out


def observe_one(arg: tuple[int, dict]) -> dict:
    tid, case = arg
    return {"tid": tid, "case": case, "real": real_compat(case), "vis": "none", **real_calls(case)}


def _visitor_chunk(part: list[dict]) -> list[str]:
    """`use_j(g_j)` with `def use_j(cb: Literal[f_j])`: verdict = incompatible_argument on that line."""
    lines = ["from typing import Literal", *PRELUDE.splitlines()]
    for j, c in enumerate(part):
        lines.append(def_source(c["exp"], c["exp_ret"], f"f{j}", "raise NotImplementedError"))
        lines.append(def_source(c["act"], c["act_ret"], f"g{j}", "raise NotImplementedError"))
        lines.append(f"def use{j}(cb: Literal[f{j}]) -> None: pass")
    lines.append("def caller() -> None:")
    first = len(lines) + 1
    lines += [f"    use{j}(g{j})" for j in range(len(part))]
    src = "\n".join(lines) + "\n"
    flagged = set()
    for code, lineno, _col in pyz.brief(pyz.check_source(src)):
        if code != "incompatible_argument" or lineno is None or not (first <= lineno < first + len(part)):
            raise core.MachineryError(f"realisation raised unexpected diagnostic {code} at line {lineno} in\n{src}")
        flagged.add(lineno - first)
    return ["err" if j in flagged else "ok" for j in range(len(part))]


# ----------------------------------------------------------------------------- adjudication


def _show(case: dict) -> dict:
    return {"expected": def_source(case["exp"], case["exp_ret"], "f", "..."),
            "actual": def_source(case["act"], case["act_ret"], "g", "...")}


def judge(check: core.Check, cases: list[dict], label: str, n_visitor: int = 0, rnd: Optional[random.Random] = None) -> None:
    pyz.get_checker()
    obs = core.pmap(observe_one, list(enumerate(cases)), chunk=200)
    if n_visitor:
        idx = list(range(len(cases)))
        if n_visitor < len(idx):
            idx = sorted((rnd or random.Random(0)).sample(idx, n_visitor))
        chunks = [idx[i : i + 60] for i in range(0, len(idx), 60)]
        results = core.pmap(_visitor_chunk, [[cases[i] for i in ch] for ch in chunks], chunk=1)
        for ch, res in zip(chunks, results):
            for i, v in zip(ch, res):
                obs[i]["vis"] = v
        check.cov["visitor_observations"] = check.cov.get("visitor_observations", 0) + len(idx)
    verdicts, stats = adjudicate_parallel("SigCompatTrace", "SigCompatTrace.cfg", obs, batch=3000, parallel=8)
    check.add_trace_stats(stats)
    check.evals(len(obs))
    accepted = 0
    for o in obs:
        c = o["case"]
        if o["real"]["verdict"] == "ok":
            accepted += 1
            if c["exp"] and c["act"]:
                check.nontrivial(core.canon(c))
        for v in verdicts.get(o["tid"], []):
            payload = {"case": c, **_show(c), "real": o["real"], "vis": o["vis"], "source": label,
                       "expected_binds": [b[:2] for b in o["fb"]], "actual_binds": [b[:2] for b in o["gb"]]}
            if v.startswith("viol:"):
                check.violation(core.canon(c), v[5:], payload)
            elif v.startswith("dev:"):
                check.violation(v[4:], v[4:], payload)
            elif v.startswith("drift:"):
                check.drift({"verdict": v, **payload})
            else:
                raise core.MachineryError(f"{v} for {_show(c)}: {o}")
    check.cov["accepted_pairs"] = check.cov.get("accepted_pairs", 0) + accepted
    for o in obs[:: max(1, len(obs) // 3)][:3]:
        check.sample({"source": label, **_show(o["case"]), "real": o["real"], "vis": o["vis"],
                      "shapes_bound_by_expected": len(o["fb"]), "shapes_bound_by_actual": len(o["gb"])})


def _emitted_sample(res: core.TLCResult, limit: int, rnd: random.Random) -> tuple[list[dict], int]:
    """The cases TLC printed (core.emitted_json), but only `limit` randomly chosen ones are parsed when there
    are more -- half a million parsed pairs would not fit comfortably in memory.  Returns (cases, total)."""
    import json

    lines = [ln for ln in res.stdout.splitlines() if ln.startswith('"{')]
    total = len(lines)
    if total > limit:
        lines = rnd.sample(lines, limit)
    return [json.loads(json.loads(ln)) for ln in lines], total


def _star_sample(res: core.TLCResult, limit: int, rnd: random.Random) -> tuple[list[dict], int, int]:
    """The pairs of the typed *args/**kwargs slice: every pair in which BOTH signatures have **kwargs (the stratum in
    which consumed_positional / consumed_required_pos_only / consumed_keyword decide which actual parameters are
    compared with the expected **kwargs type) plus a random sample of the others, `limit` in total.
    Returns (cases, total emitted, size of the stratum)."""
    import json

    lines = [ln for ln in res.stdout.splitlines() if ln.startswith('"{')]
    total = len(lines)
    vk = '\\"kind\\":\\"vk\\"'
    both = [ln for ln in lines if ln.count(vk) == 2]
    rest = [ln for ln in lines if ln.count(vk) != 2]
    if len(both) > limit:
        both = rnd.sample(both, limit)
    n = min(len(rest), max(0, limit - len(both)))
    picked = both + rnd.sample(rest, n)
    return [json.loads(json.loads(ln)) for ln in picked], total, len(both)


def run_star(check: core.Check, quick: bool, rnd: random.Random) -> None:
    """Typed *args / **kwargs slice (spec/SigCompatStar.tla): annotated *args / **kwargs and defaulted positional
    parameters on both sides, types B, U (unrelated) and Any."""
    cfg = "SigCompatStar.quick.cfg" if quick else "SigCompatStar.thorough.cfg"
    res = core.require_ok(core.run_tlc("SigCompatStarEmit", cfg, timeout=3000), "SigCompatStar " + cfg)
    check.add_tlc("exhaustive:" + cfg, res)
    cases, total, stratum = _star_sample(res, 3600 if quick else 60000, rnd)
    del res
    r = core.run_tlc("SigCompatStar", "SigCompatStar.sens.cfg", timeout=900, workers=4)
    if r.violated != "TypesSound":
        raise core.MachineryError(f"sensitivity self-test failed: SigCompatStar.sens.cfg did not violate TypesSound ({r.error})")
    check.cov["sensitivity"] += "; SigCompatStar.sens.cfg (every positionally consumed parameter exempt from the **kwargs check) violates TypesSound"
    check.cov["model_cases"] += total
    check.cov["replayed_cases"] += len(cases)
    check.cov["star_slice"] = {"pairs": total, "replayed": len(cases), "both_have_kwargs_replayed": stratum}
    check.cov["rule"] += (
        "; typed *args/**kwargs slice = pairs of SigCompatStar.tla (kinds restricted per side, types B / unrelated U / Any on "
        "every parameter incl. *args and **kwargs): every pair in which both signatures have **kwargs is replayed, the rest sampled"
    )
    before = check.cov.get("accepted_pairs", 0)
    obs_n = check.cov["evaluations"]
    judge(check, cases, "tlc-exhaustive-star-typed", n_visitor=200 if quick else 4000, rnd=rnd)
    if check.cov["accepted_pairs"] == before or check.cov["evaluations"] == obs_n:
        raise core.MachineryError("typed *args/**kwargs slice: no accepted pair observed (vacuous)")


def run(check: core.Check) -> None:
    quick = check.tier == "quick"
    rnd = random.Random(check.seed)
    check.assumptions += [
        "TLC 1.8.0; behavioural inclusion is stated with CPythonBind.tla (RefBinds, the C05 oracle) and validated in every "
        "run against really calling both functions with every call shape (<=3 positionals, <=3 keywords over all parameter "
        "names and one foreign name)",
        "types are a chain C <: B <: A <: object of user classes (ranks 0..3), a class U unrelated to it (rank 5), or "
        "unannotated; the membership model is subclass inclusion (checked against issubclass of the realised classes, and, "
        "shape by shape, against really calling the actual function with instances of the types the expected signature "
        "declares and isinstance-checking what every annotated parameter received)",
        "expected parameters are named a, b, c by position (no loss of generality up to renaming); actual parameters range "
        "over those names and one other",
    ]
    # 1. the design: exhaustive model checking
    # (-coverage 1 makes TLC about 3x slower: vacuity is controlled on the quick bounds in both tiers, where every
    # action of the machine must fire; the bigger thorough runs go without it)
    emitted: list[tuple[list[dict], int]] = []
    limits = (25000, 10000) if quick else (120000, 60000)  # pairs replayed: untyped, typed
    for cfg, actions in (("SigCompat.quick.cfg", ACTIONS), ("SigCompat.typedq.cfg", ACTIONS + TYPED_ACTIONS)):
        res = core.require_ok(core.run_tlc("SigCompatEmit", cfg, coverage=True, timeout=3000), "SigCompat " + cfg)
        core.require_coverage(res, actions, "SigCompat " + cfg)
        check.add_tlc("exhaustive+coverage:" + cfg, res)
        emitted.append(_emitted_sample(res, limits[len(emitted)], rnd))
        del res
    if quick:
        # a third quick slice: one expected parameter against actual signatures of three parameters (e.g. *args,
        # keyword-only, **kwargs together), replayed exhaustively
        res = core.require_ok(core.run_tlc("SigCompatEmit", "SigCompat.quick3.cfg", timeout=3000), "SigCompat quick3")
        check.add_tlc("exhaustive:SigCompat.quick3.cfg", res)
        extra_pairs, _n = _emitted_sample(res, 10**6, rnd)
        emitted[0] = (emitted[0][0] + extra_pairs, emitted[0][1] + _n)
        del res
    if not quick:
        emitted = []
        for cfg in ("SigCompat.thorough.cfg", "SigCompat.typed.cfg"):
            res = core.require_ok(core.run_tlc("SigCompatEmit", cfg, timeout=3300), "SigCompat " + cfg)
            check.add_tlc("exhaustive:" + cfg, res)
            emitted.append(_emitted_sample(res, limits[len(emitted)], rnd))
            del res
    sens = []
    for scfg, inv in (("SigCompat.sens1.cfg", "BehaviourallySound"), ("SigCompat.strict.cfg", "BehaviourallySoundStrict")):
        r = core.run_tlc("SigCompat", scfg, timeout=900, workers=4)
        if r.violated != inv:
            raise core.MachineryError(f"sensitivity self-test failed: {scfg} did not violate {inv} ({r.error})")
        sens.append(f"{scfg} violates {inv}")
    check.cov["sensitivity"] = "; ".join(sens)
    # 2. S->C
    (cases_u, total_u), (cases_t, total_t) = emitted
    if not cases_u or not cases_t:
        raise core.MachineryError("no cases emitted by TLC")
    check.cov["exhaustive"] = len(cases_u) == total_u and len(cases_t) == total_t
    check.cov["model_cases"] = total_u + total_t
    check.cov["replayed_cases"] = len(cases_u) + len(cases_t)
    check.cov["rule"] = (
        "cases = states with stage=done of SigCompat.tla: ordered pairs (expected, actual) of signatures over 5 parameter "
        "kinds x defaults x names (untyped run) and x type ranks (typed run); non-trivial = accepted pair with parameters "
        "on both sides"
    )
    judge(check, cases_u, "tlc-exhaustive-untyped", n_visitor=1500 if quick else 20000, rnd=rnd)
    judge(check, cases_t, "tlc-exhaustive-typed", n_visitor=600 if quick else 8000, rnd=rnd)
    # 3. beyond the bound: simulation with 4 parameters on each side
    num = 1500 if quick else 30000
    sim = core.require_ok(
        core.run_tlc("SigCompatEmit", "SigCompat.sim.cfg", workers=1, simulate=f"num={num}", depth=16,
                     seed=check.seed + 7, timeout=1800),
        "SigCompat simulate",
    )
    check.add_tlc("simulate:SigCompat.sim.cfg", sim)
    uniq = {core.canon(c): c for c in core.emitted_json(sim)}
    check.cov["simulated_cases"] = len(uniq)
    if len(uniq) < num // 4:
        raise core.MachineryError(f"simulation produced only {len(uniq)} distinct cases")
    judge(check, list(uniq.values()), "tlc-simulate", n_visitor=300 if quick else 3000, rnd=rnd)
    # 3b. typed *args / **kwargs slice with an unrelated class
    run_star(check, quick, rnd)
    # 4. the entry points in front of Signature.can_assign: overrides (class hierarchies), Callable[[..], R] parameters,
    # protocol methods (spec/CallableRoutes.tla, harness/drivers/c07b.py)
    from . import c07b

    routes = c07b.run_slices(check, quick, rnd)
    check.cov["sensitivity"] += "; " + routes["sensitivity"]
    check.cov["exhaustive"] = bool(check.cov["exhaustive"] and routes["exhaustive"])
    check.cov["model_cases"] += routes["model_cases"]
    check.cov["replayed_cases"] += routes["replayed_cases"]
    check.cov["simulated_cases"] += routes["simulated_cases"]
    check.cov["rule"] += "; " + routes["rule"]


def replay(check: core.Check, witness: dict) -> None:
    if "route" in witness["case"]:
        from . import c07b

        c07b.judge(check, [witness["case"]], "replay", n_fresh=1)
        return
    judge(check, [witness["case"]], "replay", n_visitor=1)


def selftest_binding(check: core.Check) -> None:
    """Corrupt one recorded field of a real observation and confirm that TLC's verdict flags it."""
    P = lambda kind, name, dflt=False: {"kind": kind, "name": name, "dflt": dflt, "ty": ANY}  # noqa: E731
    case = {"exp": [P("pk", "a")], "act": [P("pk", "a"), P("pk", "b", True)], "exp_ret": ANY, "act_ret": ANY}
    good = observe_one((0, case))
    variants = {
        "unchanged": good,
        "real verdict flipped": dict(good, tid=1, real={"verdict": "err", "why": "PK_NameMismatch"}),
        "a shape CPython bound for g removed": dict(good, tid=2, gb=good["gb"][1:]),
    }
    bad = {"exp": [P("po", "a"), P("vk", "b")], "act": [P("pk", "a"), P("vk", "b")], "exp_ret": ANY, "act_ret": ANY}
    o = observe_one((3, bad))
    variants["known unsound pair (a, /, **b) <- (a, **b)"] = o
    rej = observe_one((4, {"exp": [P("pk", "a")], "act": [P("pk", "b")], "exp_ret": ANY, "act_ret": ANY}))
    variants["rejected pair (a) <- (b) recorded as accepted"] = dict(rej, real={"verdict": "ok", "why": "Final_Ok"})
    # typed: f(a: B = .., /, **b: U) <- g(a: B = .., **b: U) is rejected (f(a=U()) would put a U into g's a: B)
    T = lambda kind, name, dflt, ty: {"kind": kind, "name": name, "dflt": dflt, "ty": ty}  # noqa: E731
    kw = {"exp": [T("po", "a", True, 1), T("vk", "b", False, UNRELATED)],
          "act": [T("pk", "a", True, 1), T("vk", "b", False, UNRELATED)], "exp_ret": ANY, "act_ret": ANY}
    tk = observe_one((5, kw))
    if tk["real"]["why"] != "VK_ExtraKeywordType" or [0, ["a"], False] not in tk["tc"]:
        raise core.MachineryError(f"binding self-test: unexpected observation of the typed **kwargs pair: {tk['real']} {tk['tc']}")
    variants["typed **kwargs pair, rejected"] = tk
    variants["typed **kwargs pair recorded as accepted (defaulted positional exempt from the **kwargs check)"] = dict(
        tk, tid=6, real={"verdict": "ok", "why": "Final_Ok"})
    variants["typed call outcome f(a=U()) -> g flipped"] = dict(
        tk, tid=7, tc=[[n, ks, (not ok) if (n, ks) == (0, ["a"]) else ok] for n, ks, ok in tk["tc"]])
    verdicts, _ = core.adjudicate("SigCompatTrace", "SigCompatTrace.cfg", list(variants.values()))
    expect = {0: [], 1: ["drift:verdict"], 2: ["oracle:actual-binds"], 3: ["dev:keyword-also-positional"],
              4: ["viol:BehaviourallySound", "drift:verdict"], 5: [],
              6: ["viol:TypesSound", "dev:keyword-also-positional", "drift:verdict"], 7: ["oracle:typed-calls"]}
    for name, ob in variants.items():
        got = verdicts.get(ob["tid"], [])
        print(f"selftest-binding: {name}: TLC verdicts {got}")
        if sorted(got) != sorted(expect[ob["tid"]]):
            raise core.MachineryError(f"binding self-test: {name}: expected {expect[ob['tid']]}, TLC said {got}")
    print("selftest-binding: ok")
    from . import c07b

    c07b.selftest()
