"""C17 -- format-string diagnostics agree with CPython's formatter.

Two specifications: spec/PercentFormat.tla (`template % args`, str and bytes) and spec/StrFormat.tla
(`template.format(*a, **k)`).  Each contains a transcription of pyanalyze's checker (Impl*), an
independent model of CPython 3.12's formatter (Ref*), a staged generator and the invariants
  Soundness  : CPython raises  => a format error is reported        (or a named Dev_ class)
  Precision  : CPython succeeds => nothing is reported outside the documented stricter lints
  ResultType : the inferred type is the type of the actual result.
Two generators per half: the token-level machines of PercentFormat.tla / StrFormat.tla (every character
sequence over an alphabet, malformed prefixes included) and the specifier-/field-structured machines of
PercentFields.tla / StrFields.tla (templates built from items whose FIELDS are enumerated: mapping key, flags,
width, precision, length modifier, conversion resp. field name, accessor chain, conversion, format spec, with
arguments drawn around the arity the template asks for).  The structured modules EXTEND the token-level ones:
same case record, same Impl/Ref operators, same invariants, same trace specifications.
S->C: every case TLC enumerates (exhaustively up to the replay limit, a seeded sample above it, plus
TLC -simulate beyond the exhaustive bound) is realised as `reveal_type(<expr>)` inside a function,
checked by the real visitor, and really evaluated by CPython.  C->S: the recorded observations are
adjudicated by TLC against spec/trace/{PercentFormat,StrFormat}Trace.tla, which first validate the
CPython model against the real outcome (mismatch = machinery error), then judge the real report
against the real outcome, then compare the real report with the Impl model (drift).
"""
from __future__ import annotations

import copy
import random
import time
from concurrent.futures import ThreadPoolExecutor
from typing import Any

from .. import core, fmt_common

LEVEL = "model_checking"

MODULE = {"percent": "PercentFormat", "format": "StrFormat"}

# sensitivity self-tests: (module, cfg suffix, invariant that must be violated)
SENSITIVITY = {
    "percent": [
        ("PercentFormat", "bug1", "Soundness"),  # seeded model bug: "too many arguments" never reported
        ("PercentFormat", "bug2", "Soundness"),  # seeded model bug: %s on a bytes template accepts anything
        ("PercentFormat", "strict1", "SoundnessStrict"),  # the known MISS deviations are real
        ("PercentFormat", "strict2", "PrecisionStrict"),  # the known false reports are real
        ("PercentFormat", "strict3", "NoCrashStrict"),  # the internal error is real
        # specifier-structured slices.  Seeded model bug: ONE star slot for a specifier with `*` width AND `*`
        # precision -- the arity is then off by one in both directions, so both clauses must reject it
        ("PercentFields", "bugstar1", "Soundness"),  # '%*.*d' % (1, 1) raises, the bugged model is silent
        ("PercentFields", "bugstar2", "Precision"),  # '%*.*d' % (1, 1, 1) is fine, the bugged model reports
        ("PercentFields", "strict1", "SoundnessStrict"),  # the deviation classes are reached by the field slices
        ("PercentFields", "strict2", "PrecisionStrict"),
    ],
    "format": [
        ("StrFormat", "bug1", "Soundness"),  # seeded model bug: out-of-range numbered argument not reported
        ("StrFormat", "bug2", "Soundness"),  # seeded model bug: single '}' accepted
        ("StrFormat", "strict1", "SoundnessStrict"),
        ("StrFields", "bug1", "Soundness"),  # the same seeded bug must be rejected by the field slices
        ("StrFields", "strict1", "SoundnessStrict"),
        # seeded model bug: field names classified by int() (spaces, sign, "_" accepted) instead of isdigit():
        # "{-1}".format() raises KeyError but the bugged model is silent; "{-1.real}".format(**{"-1": 1}) is fine
        # but the bugged model reports an index out of range
        ("StrFields", "bugint1", "Soundness"),
        ("StrFields", "bugint2", "Precision"),
        # seeded model bug: the code before repo 0e517b7 (str.isdigit() instead of isdecimal(): int("\u00b2") raises)
        ("StrFields", "bugdigit", "NoCrash"),
    ],
}

FIELDS = {"percent": "PercentFields", "format": "StrFields"}

# every observation class that must occur (vacuity control measured on the real observations)
REQUIRED_CLASSES = ["raises+reported", "ok+silent", "ok+lint"]


def _nontrivial(which: str, case: dict) -> bool:
    t = case["t"]
    return ("%" in t) if which == "percent" else ("{" in t or "}" in t)


def _class_of(o: dict) -> str:
    raises = o["cpy"]["exc"] != "ok"
    rep = o["pz"]["first"] != "none"
    if raises:
        return "raises+reported" if rep else "raises+silent"
    if not rep:
        return "ok+silent"
    return "ok+lint" if o["pz"]["first"] in ("nospec", "pctopt", "mix", "unused-pos", "unused-kw") else "ok+other"


def judge(check: core.Check, which: str, cases: list[dict], label: Any) -> dict[Any, list[str]]:
    """`label`: the source of the cases (one string, or one string per case)."""
    mod = MODULE[which]
    labels = label if isinstance(label, list) else [label] * len(cases)
    obs = fmt_common.observe(cases, which)
    if [o["tid"] for o in obs] != list(range(len(cases))):
        raise core.MachineryError("observations are not in case order")
    verdicts, stats = core.adjudicate(mod + "Trace", mod + "Trace.cfg", obs, batch=15000, parallel=6, timeout=3000)
    check.add_trace_stats(stats)
    check.evals(len(obs))
    classes = check.cov.setdefault("observation_classes", {}).setdefault(which, {})
    for o in obs:
        case = o["case"]
        if _nontrivial(which, case):
            check.nontrivial(which + core.canon(case))
        cls = _class_of(o)
        classes[cls] = classes.get(cls, 0) + 1
        for v in verdicts.get(o["tid"], []):
            payload = {"which": which, "case": case, "expr": o["expr"], "cpy": o["cpy"], "pz": o["pz"],
                       "source": labels[o["tid"]]}
            if v.startswith("oracle:"):
                raise core.MachineryError(
                    f"{mod}: the CPython model disagrees with real CPython on {o['expr']}: {v} (real: {o['cpy']})"
                )
            if v.startswith("viol:"):
                check.violation(which + ":" + core.canon(case), v[5:], payload)
            elif v.startswith("dev:"):
                check.violation(v[4:], v[4:], payload)  # class key, matched against known_findings.jsonl
            elif v.startswith("drift:"):
                check.drift({"verdict": v, **payload})
            else:
                raise core.MachineryError(f"unknown verdict {v!r}")
    if which == "percent":
        _arity_classes(check, obs, labels)
    for o in obs[:: max(1, len(obs) // 2)][:2]:
        check.sample({"source": labels[o["tid"]], "expr": o["expr"], "case": o["case"], "cpy": o["cpy"], "pz": o["pz"]})
    return verdicts


def _arity_classes(check: core.Check, obs: list[dict], labels: list[str]) -> None:
    """Vacuity statistics of the specifier-structured slices (evidence only, nothing is judged here): how often
    a single-specifier template with s star fields (0, 1, 2) met a tuple of length d = len - (s + 1)."""
    classes = check.cov.setdefault("field_arity_classes", {})
    for o in obs:
        if "PercentFields" not in labels[o["tid"]]:
            continue
        case = o["case"]
        t = case["t"]
        if case["args"]["shape"] != "tuple" or t.count("%") != 1 or "(" in t:
            continue
        d = len(case["args"]["items"]) - (t.count("*") + 1)
        key = f"stars={t.count('*')},len-need={d:+d},{'raises' if o['cpy']['exc'] != 'ok' else 'ok'}"
        classes[key] = classes.get(key, 0) + 1


def _uniq(cases: list[dict]) -> list[dict]:
    return list({core.canon(c): c for c in cases}.values())


def _sample(rnd: random.Random, cases: list[dict], limit: int) -> tuple[list[dict], bool]:
    if len(cases) <= limit:
        return cases, True
    return rnd.sample(cases, limit), False


def selftest_binding(check: core.Check) -> None:
    """Corrupt recorded fields of real observations and require TLC to flag each corruption."""
    probes = {
        "percent": {"kind": "str", "t": ["%", "d"], "args": {"shape": "scalar", "items": ["sa"], "keys": []}},
        "format": {"t": ["{", "1", "}"], "pos": ["i1"], "kw": []},
    }
    report = []
    for which, case in probes.items():
        mod = MODULE[which]
        (o,) = fmt_common.observe([case], which)
        if o["cpy"]["exc"] == "ok" or o["pz"]["first"] == "none":
            raise core.MachineryError(f"binding self-test: probe {o['expr']} is not a reported failure")
        a = copy.deepcopy(o)
        a["tid"], a["pz"]["first"] = 1, "none"  # pretend pyanalyze said nothing
        b = copy.deepcopy(o)
        b["tid"], b["cpy"]["exc"] = 2, "ok"  # pretend CPython succeeded
        b["cpy"]["rtype"] = "str"
        c = copy.deepcopy(o)
        c["tid"] = 3
        if which == "percent":
            c["pz"]["all"] = c["pz"]["all"] + ["too-many"]  # pretend the API produced one more error
        else:
            c["pz"]["parse"] = [[1, "p-single-close"]]
        o["tid"] = 0
        verdicts, _ = core.adjudicate(mod + "Trace", mod + "Trace.cfg", [o, a, b, c])
        got = {k: verdicts.get(k, []) for k in range(4)}
        ok = (
            got[0] == []
            and any(v.startswith("viol:ReportsWhenRaises") for v in got[1])
            and any(v.startswith("oracle:") for v in got[2])
            and any(v.startswith("drift:") for v in got[3])
        )
        if not ok:
            raise core.MachineryError(f"binding self-test failed for {mod}: {got}")
        report.append(f"{mod}: {o['expr']} untouched -> ok; first:=none -> {got[1]}; cpy:=ok -> {got[2][:1]}; extra error -> {got[3]}")
    # a named deviation class excuses an observation only when the Impl model reproduces the real report: a
    # silence the model does not predict must be judged a violation even inside a known class
    probes2 = {
        # CPython: KeyError('k'); pyanalyze: 'cannot combine ...' (mix).  With the report erased the case is in
        # the class percent-non-str-dict-key by its shape, but the modelled mechanism predicts "mix"
        "percent": {"kind": "str", "t": list("%(k)*d"), "args": {"shape": "dict", "items": ["i1"],
                                                                   "keys": [{"ty": "int", "chars": ["1"]}]}},
        # CPython: AttributeError; pyanalyze: numbered argument 1 out of range.  Erased -> shape of
        # format-field-path-unchecked, but the model predicts "index-range"
        "format": {"t": list("{0.foo}{1}"), "pos": ["i1"], "kw": []},
    }
    known = {
        "percent": ({"kind": "str", "t": ["%", "x"], "args": {"shape": "scalar", "items": ["f15"], "keys": []}},
                    "dev:percent-x-float"),
        "format": ({"t": list("{0.foo}"), "pos": ["i1"], "kw": []}, "dev:format-field-path-unchecked"),
    }
    for which, case in probes2.items():
        mod = MODULE[which]
        o, kn = fmt_common.observe([case, known[which][0]], which)
        if o["cpy"]["exc"] == "ok" or o["pz"]["first"] == "none":
            raise core.MachineryError(f"dev self-test: probe {o['expr']} is not a reported failure")
        a = copy.deepcopy(o)
        a["tid"], a["pz"]["first"] = 1, "none"
        b = copy.deepcopy(o)  # pretend the checker crashed on a template outside the known crash classes
        b["tid"], b["pz"]["crash"], b["pz"]["rtype"] = 3, True, "any"
        o["tid"], kn["tid"] = 0, 2
        verdicts, _ = core.adjudicate(mod + "Trace", mod + "Trace.cfg", [o, a, kn, b])
        got = {k: verdicts.get(k, []) for k in range(4)}
        ok = (
            got[0] == []
            and any(v.startswith("viol:ReportsWhenRaises") for v in got[1])
            and not any(v.startswith("dev:") for v in got[1])
            and got[2] == [known[which][1]]
            and "viol:Exception" in got[3]
            and not any(v.startswith("dev:") for v in got[3])
        )
        if not ok:
            raise core.MachineryError(f"dev-class self-test failed for {mod}: {got}")
        report.append(f"{mod}: {o['expr']} first:=none (shape of a known class, not what the model predicts) -> {got[1]}; "
                      f"{kn['expr']} untouched -> {got[2]}; crash:=True -> {got[3]}")
    check.cov["binding_selftest"] = report


def run(check: core.Check) -> None:
    quick = check.tier == "quick"
    rnd = random.Random(check.seed)
    check.assumptions += [
        "TLC 1.8.0; the TLA+ model of CPython 3.12's %-formatter and str.format (RefRun) -- validated against the real "
        "evaluation of every replayed expression (a mismatch is a machinery error, exit 2)",
        "the argument literals come from a fixed menu (ints in/out of range(256)/0x110000, bool, float, complex, None, "
        "str/bytes of length 0-2, a list, a dict); templates are sequences over the token alphabets of the cfg files",
        "pyanalyze reports at most one diagnostic per (node, code): the visible report is the first error; the complete "
        "error list is taken from the public API (PercentFormatString.lint/accept, parse_format_string) on the value "
        "the visitor inferred",
        "the rendered text of the result is not modelled (only acceptance and result type); TLC -coverage is not usable "
        "on these specifications (out of memory in the cost model), vacuity is controlled by the observation classes "
        "and the *Strict / seeded-bug configurations instead",
        "PercentFields.tla / StrFields.tla only decide WHICH cases are looked at (their slot plan / required-count "
        "heuristics are not oracles): they EXTEND PercentFormat.tla / StrFormat.tla and every case is judged by the "
        "same Ref*/Impl* operators, invariants and trace specifications; a named deviation class excuses an "
        "observation only if the Impl model reproduces the real first report (ModelReproduces in the trace specs)",
    ]

    t_phase = time.time()
    phases: dict[str, float] = check.cov.setdefault("phase_wall_s", {})

    def phase(name: str) -> None:
        nonlocal t_phase
        phases[name] = round(time.time() - t_phase, 1)
        t_phase = time.time()

    jobs: dict[str, dict] = {}

    def job(name: str, module: str, cfg: str, **kw: Any) -> None:
        jobs[name] = {"module": module, "cfg": cfg, "kw": kw}

    for which, mod in MODULE.items():
        if quick:
            job(f"{which}:exhaustive", mod + "Emit", f"{mod}.quick.cfg", workers=6)
        else:
            job(f"{which}:exhaustive", mod, f"{mod}.thorough.cfg", workers=8)
            job(f"{which}:emit", mod + "Emit", f"{mod}.emit4.cfg", workers=6)
        for smod, suffix, _inv in SENSITIVITY[which]:
            job(f"{which}:sens:{smod}.{suffix}", smod, f"{smod}.{suffix}.cfg", workers=2)
        num = 3000 if quick else 30000
        job(f"{which}:sim", mod + "Emit", f"{mod}.sim.cfg", workers=2, simulate=f"num={num}", depth=40,
            seed=check.seed + (11 if which == "percent" else 12))
        # specifier-/field-structured slices: one item over the representative menus and two items over the
        # small menus (exhaustive, every case replayed), random walks over the complete field menus with two
        # items (simulation), and in the thorough tier one item over the COMPLETE field menus / two items over
        # the medium menus (exhaustive)
        fmod = FIELDS[which]
        job(f"{which}:fields", fmod + "Emit", f"{fmod}.quick.cfg", workers=4)
        job(f"{which}:fields2", fmod + "Emit", f"{fmod}.two.cfg", workers=4)
        fnum = (1000 if which == "percent" else 2500) if quick else num  # walks per worker
        job(f"{which}:fieldsim", fmod + "Emit", f"{fmod}.sim.cfg", workers=2, simulate=f"num={fnum}", depth=60,
            seed=check.seed + (13 if which == "percent" else 14))
        if not quick:
            job(f"{which}:fields22", fmod + "Emit", f"{fmod}.two2.cfg", workers=8)
    # lexical edge forms of a field name (00, ' 0', '0 ', ' 0 ', +0, -0, -1, 0_0, 1_0, 0x0, superscript two,
    # Arabic-Indic zero, 'a b', 20 nines; alone / with .0 / .real, and followed by {0} / {}) x positional
    # arguments x keyword arguments spelled exactly like the field name (through a ** dict literal); and the
    # same dimension character by character (token level)
    job("format:fieldnames", "StrFieldsEmit", "StrFields.names.cfg", workers=4)
    job("format:names", "StrFormatEmit", "StrFormat.names.cfg", workers=4)
    if not quick:  # every edge form (also 2**63-1, 2**63, +1, mixed Unicode digits) x accessor x conversion x spec
        job("format:fieldnames2", "StrFieldsEmit", "StrFields.names2.cfg", workers=8)
    # keyed specifiers x dicts of up to two entries (both spellings of a key, second key, keyed + unkeyed)
    job("percent:fieldkeys", "PercentFieldsEmit", "PercentFields.keys2.cfg", workers=2)
    # every conversion character x every length modifier x every argument class
    job("percent:fieldconvs", "PercentFieldsEmit", "PercentFields.convs.cfg", workers=2)
    if not quick:
        job("percent:fieldsfull", "PercentFields", "PercentFields.full.cfg", workers=8)
        job("format:fieldsfull", "StrFieldsEmit", "StrFields.full.cfg", workers=8)
    if not quick:
        job("percent:full", "PercentFormat", "PercentFormat.full.cfg", workers=8)
        job("format:nest", "StrFormatEmit", "StrFormat.nest.cfg", workers=6)
        job("percent:keys", "PercentFormatEmit", "PercentFormat.keys.cfg", workers=6)
    else:
        job("format:nest", "StrFormatEmit", "StrFormat.nest3.cfg", workers=4)

    job("format:deep", "StrFormatEmit", "StrFormat.deep.cfg", workers=4)

    def run_job(name: str) -> core.TLCResult:
        j = jobs[name]
        return core.run_tlc(j["module"], j["cfg"], timeout=3400, heap="6g", **j["kw"])

    order = sorted(jobs, key=lambda n: (":sens:" in n, n))  # heavy jobs first
    with ThreadPoolExecutor(4) as ex:
        results = dict(zip(order, ex.map(run_job, order)))

    phase("tlc-model-checking")
    # 1. the design: TLC proves the invariants on the model inside the bounds
    for name in order:
        res = results[name]
        if ":sens:" in name:
            continue
        core.require_ok(res, name)
        check.add_tlc(name + ":" + jobs[name]["cfg"], res)
    # 2. sensitivity: seeded model bugs and the strict invariants must be rejected
    sens = []
    for which in MODULE:
        for smod, suffix, inv in SENSITIVITY[which]:
            res = results[f"{which}:sens:{smod}.{suffix}"]
            if res.violated != inv:
                raise core.MachineryError(
                    f"sensitivity self-test failed: {smod}.{suffix}.cfg did not violate {inv}: {res.error}"
                )
            sens.append(f"{smod}.{suffix}.cfg violates {inv}")
    check.cov["sensitivity"] = sens
    # 3. binding self-test (corrupted observations must be flagged by TLC)
    selftest_binding(check)
    phase("selftests")
    # 4. S->C replay of TLC's cases through the real visitor and real CPython, adjudicated by TLC
    limit = 12000 if quick else 100000
    exhaustive = True
    model_cases = {}
    for which in MODULE:
        src = f"{which}:exhaustive" if quick else f"{which}:emit"
        cases = core.emitted_json(results[src])
        results[src].stdout = ""
        if not cases:
            raise core.MachineryError(f"{src}: TLC emitted no cases")
        model_cases[which] = len(cases)
        cases, ex_all = _sample(rnd, cases, limit)
        exhaustive = exhaustive and ex_all
        judge(check, which, cases, "tlc-exhaustive:" + jobs[src]["cfg"])
        del cases
    nest = core.emitted_json(results["format:nest"])
    results["format:nest"].stdout = ""
    model_cases["format-nested-specs"] = len(nest)
    nest, ex_all = _sample(rnd, nest, 5000 if quick else 40000)
    exhaustive = exhaustive and ex_all
    judge(check, "format", nest, "tlc-exhaustive:" + jobs["format:nest"]["cfg"])
    deep = core.emitted_json(results["format:deep"])
    results["format:deep"].stdout = ""
    model_cases["format-deep-nesting"] = len(deep)
    deep, ex_all = _sample(rnd, deep, 5000 if quick else 80000)
    exhaustive = exhaustive and ex_all
    judge(check, "format", deep, "tlc-exhaustive:" + jobs["format:deep"]["cfg"])
    if not quick:
        keys = core.emitted_json(results["percent:keys"])
        results["percent:keys"].stdout = ""
        model_cases["percent-key-grammar"] = len(keys)
        keys, ex_all = _sample(rnd, keys, 30000)
        exhaustive = exhaustive and ex_all
        judge(check, "percent", keys, "tlc-exhaustive:" + jobs["percent:keys"]["cfg"])
    names = core.emitted_json(results["format:names"])
    results["format:names"].stdout = ""
    model_cases["format-name-characters"] = len(names)
    names, ex_all = _sample(rnd, names, 5000 if quick else 40000)
    exhaustive = exhaustive and ex_all
    judge(check, "format", names, "tlc-exhaustive:" + jobs["format:names"]["cfg"])
    phase("replay-token-level")
    # 4b. the specifier-/field-structured slices: all cases of the exhaustive slices in one replay per half
    for which in MODULE:
        fmod = FIELDS[which]
        cases: list[dict] = []
        labels: list[str] = []
        for src, lim in [(f"{which}:fields", 20000), (f"{which}:fields2", 20000)] + (
            [("percent:fieldkeys", 20000), ("percent:fieldconvs", 20000)] if which == "percent"
            else [("format:fieldnames", 20000)]
        ) + (
            [] if quick else [(f"{which}:fields22", 40000)]
            + ([("format:fieldsfull", 40000), ("format:fieldnames2", 40000)] if which == "format" else [])
        ):
            got = core.emitted_json(results[src])
            results[src].stdout = ""
            if not got:
                raise core.MachineryError(f"{src}: TLC emitted no cases")
            model_cases[src + ":" + jobs[src]["cfg"]] = len(got)
            got, ex_all = _sample(rnd, got, lim)
            exhaustive = exhaustive and ex_all
            cases += got
            labels += ["tlc-exhaustive:" + jobs[src]["cfg"]] * len(got)
        judge(check, which, cases, labels)
        del cases
    phase("replay-structured")
    # 5. beyond the exhaustive bound: TLC random simulation over the full alphabets / the complete field menus
    for which in MODULE:
        cases, labels = [], []
        for src, lim in [(f"{which}:sim", 4000 if quick else 30000), (f"{which}:fieldsim", 3000 if quick else 30000)]:
            sim = _uniq(core.emitted_json(results[src]))
            results[src].stdout = ""
            check.cov.setdefault("simulated_cases", {})[src] = len(sim)
            if len(sim) < 200:
                raise core.MachineryError(f"{src}: simulation produced only {len(sim)} distinct cases")
            sim, _ = _sample(rnd, sim, lim)
            cases += sim
            labels += ["tlc-simulate:" + jobs[src]["cfg"]] * len(sim)
        judge(check, which, cases, labels)
    phase("replay-simulated")
    # vacuity of the structured slices: every (number of star fields) x (tuple length - required) class occurred
    arity = check.cov.get("field_arity_classes", {})
    for stars in (0, 1, 2):
        for d in (-1, 0, 1):
            if not any(k.startswith(f"stars={stars},len-need={d:+d},") for k in arity):
                raise core.MachineryError(f"PercentFields: arity class stars={stars}, len-need={d:+d} never replayed")
    if not any(k == "stars=2,len-need=+0,ok" for k in arity):
        raise core.MachineryError("PercentFields: no successful '%*.*<conv>' % 3-tuple was replayed")
    check.cov["exhaustive"] = exhaustive
    check.cov["model_cases"] = model_cases
    check.cov["replay_limit_per_source"] = limit
    check.cov["rule"] = (
        "cases = states with stage=done of (a) PercentFormat.tla (kind x template over the token alphabet x literal "
        "scalar/tuple/dict argument) and StrFormat.tla (template x positional x keyword arguments), templates of "
        "<= 3 (quick) / 4 (thorough) tokens; (b) PercentFields.tla: templates of 1-2 items (literal, %%, specifier "
        "= key x flags x width{none,digits,*} x precision{none,.,.digits,.*} x length modifier x conversion) x "
        "scalars / tuples of length required-1, required, required+1 with fitting and misfitting star values / "
        "dicts; StrFields.tla: templates of 1-2 items (literal, {{, }}, field = name{auto,0,1,a,b} x accessor chain "
        "x conversion x format spec{none, simple, nested field, malformed}) x positional arguments (required-1, "
        "required, required+1) x keyword subsets.  quick: (b) with one item over representative menus "
        "(PercentFields/StrFields.quick.cfg: both keys x {no flag, -} x 3 widths x 4 precisions x {d,x,c,s,%}), two "
        "items over small menus (.two.cfg), every conversion x every length modifier (PercentFields.convs.cfg) and "
        "keyed specifiers x dicts of <= 2 entries (PercentFields.keys2.cfg), and the lexical edge forms of a "
        "str.format field name (StrFields.names.cfg: 00, 01, ' 0', '0 ', ' 0 ', +0, -0, -1, 0_0, 1_0, 0x0, U+00B2, "
        "U+0660, 'a b', 20 nines x {plain, .0, .real} x following {0}/{} x positional x same-spelled ** keywords), "
        "every case replayed; StrFormat.names.cfg: the same dimension over a character alphabet, 3 tokens, sampled; "
        "thorough adds one item over the COMPLETE field menus (PercentFields.full.cfg: 3 keys x 16 flag sets x 3 "
        "widths x 4 precisions x 4 length modifiers x 19 conversions, model-checked; StrFields.full.cfg replayed) "
        "and two items over medium menus (.two2.cfg).  Replayed exhaustively up to the replay limit, seeded uniform "
        "sample above it, plus TLC -simulate over the full token alphabets and over the complete field menus with "
        "two items; non-trivial = the template contains '%' (resp. '{' or '}'), counted distinct by canonical JSON"
    )
    # vacuity: every observation class must have occurred in both halves
    for which in MODULE:
        classes = check.cov["observation_classes"].get(which, {})
        missing = [c for c in REQUIRED_CLASSES if classes.get(c, 0) == 0]
        if missing:
            raise core.MachineryError(f"{which}: observation classes never exercised: {missing}")


def replay(check: core.Check, witness: dict) -> None:
    judge(check, witness["which"], [witness["case"]], "replay")
