"""C13, declarations of structured types (spec/DeclFields.tla, spec/trace/DeclFieldsTrace.tla).

A case = one class declaration with a field `a` whose annotation is written as an object expression, quoted, or in a
PEP 563 module:
  td   a TypedDict (typing / typing_extensions, total or not, optionally inherited by the observed class) whose field
       annotation is a stack of Required / NotRequired / ReadOnly / Annotated around int
  dc   a dataclass whose second field is int / ClassVar[int] / InitVar[int] / Final[int], with or without a default
  nt   a NamedTuple whose second field is int, with or without a default
Recorded for td: what CPython recorded on the class (__required_keys__ / __readonly_keys__), the entry of `a`
(required, readonly, type) as seen by type_from_runtime(TD), by a parameter annotated TD in the checked defining module,
in an importing module that also imports the qualifiers' names, and in one that does not; the error codes of item
assignment / del / pop / setdefault / a literal missing the key / assignment to a plain TypedDict in those three modules.
For dc / nt: CPython's inspect.signature of the class, Checker.get_signature of it, and three constructor calls judged in
the defining and in an importing module.  Nothing is decided here: TLC does (DeclFieldsTrace).
"""
from __future__ import annotations

import ast
import contextlib
import inspect
import io
import os
import sys
import types
from typing import Any

from . import core, pyz
from .annot_codec import describe_signature, raised

_count = 0
QUAL_IMPORT = "from typing_extensions import Required, NotRequired, ReadOnly, Annotated, reveal_type\n"
OPS = ("set", "del", "pop", "setdefault", "missing", "toW")
OPS_SRC = '''def f(x: TD) -> None:
    reveal_type(x)
def op_set(x: TD) -> None:
    x["a"] = 1
def op_del(x: TD) -> None:
    del x["a"]
def op_pop(x: TD) -> None:
    x.pop("a")
def op_setdefault(x: TD) -> None:
    x.setdefault("a", 1)
def op_missing() -> None:
    t: TD = {"b": "s"}
def op_toW(x: TD) -> None:
    w: W = x
'''
CALLS_SRC = '''def call_one() -> None:
    K(1)
def call_two() -> None:
    K(1, 2)
def call_kw() -> None:
    K(b=1, a=2)
'''
CALLS = ("one", "two", "kw")


def field_annotation(c: dict) -> str:
    if c["kind"] == "td":
        t = "int"
        for q in reversed(c["stack"]):
            t = f"Annotated[{t}, 1]" if q == "Annotated" else f"{q}[{t}]"
    elif c["kind"] == "dc":
        t = "int" if c["q"] == "none" else f"{c['q']}[int]"
    else:
        t = "int"
    return f'"{t}"' if c["spelling"] == "quoted" else t


def defining_source(c: dict) -> str:
    ann = field_annotation(c)
    fut = "from __future__ import annotations\n" if c["spelling"] == "future" else ""
    if c["kind"] == "td":
        base = ("typing" if c["base"] == "typing" else "typing_extensions") + ".TypedDict"
        head = fut + "import typing, typing_extensions\n" + QUAL_IMPORT
        if c["inherit"]:
            decl = (f"class Base0({base}, total={c['total']}):\n    a: {ann}\n"
                    f"class TD(Base0, total={c['total']}):\n    b: str\n")
        else:
            decl = f"class TD({base}, total={c['total']}):\n    a: {ann}\n    b: str\n"
        return head + decl + f"class W({base}, total={c['total']}):\n    a: int\n    b: str\n" + OPS_SRC
    dflt = " = 1" if c["dflt"] else ""
    if c["kind"] == "dc":
        return (fut + "import typing, dataclasses\nfrom typing import ClassVar, Final\nfrom dataclasses import dataclass, InitVar\n"
                f"@dataclass\nclass K:\n    b: int\n    a: {ann}{dflt}\n" + CALLS_SRC)
    return fut + f"from typing import NamedTuple\nclass K(NamedTuple):\n    b: int\n    a: {ann}{dflt}\n" + CALLS_SRC


def _exec(name: str, src: str) -> types.ModuleType:
    mod = types.ModuleType(name)
    mod.__dict__["__file__"] = name + ".py"
    sys.modules[name] = mod           # dataclasses / typing look the module up while the class is being created
    exec(compile(src, name + ".py", "exec", dont_inherit=True), mod.__dict__)
    return mod


def _visit(src: str, mod: types.ModuleType):
    from pyanalyze.name_check_visitor import NameCheckVisitor

    tree = ast.parse(src)
    with contextlib.redirect_stderr(io.StringIO()), contextlib.redirect_stdout(io.StringIO()):
        v = NameCheckVisitor(mod.__name__ + ".py", src, tree, module=mod, checker=pyz.get_checker(), annotate=True)
        fails = v.check()
    return fails, tree


def _entry(v: Any) -> list:
    """[required, readonly, type] of key `a` of a TypedDictValue (described, not interpreted)."""
    from pyanalyze import value as PV

    if not isinstance(v, PV.TypedDictValue) or "a" not in v.items:
        return ["novalue", "novalue", type(v).__name__]
    e = v.items["a"]
    t = e.typ
    if type(t) is PV.TypedValue and t.typ is int:
        typ = "int"
    elif isinstance(t, PV.AnnotatedValue) and type(t.value) is PV.TypedValue and t.value.typ is int:
        typ = "Annotated[int]"
    elif isinstance(t, PV.AnyValue):
        typ = "Any[" + t.source.name + "]"
    elif isinstance(t, PV.AnnotatedValue):
        typ = "Annotated[" + type(t.value).__name__ + "]"
    else:
        typ = type(t).__name__
    return ["required" if e.required else "optional", "readonly" if e.readonly else "writable", typ]


def _codes_by_function(fails: list, tree: ast.Module, prefix: str, names: tuple) -> dict[str, list[str]]:
    spans = {n.name: (n.lineno, n.end_lineno or n.lineno) for n in tree.body if isinstance(n, ast.FunctionDef)}
    out: dict[str, list[str]] = {k: [] for k in names}
    for f in fails:
        code = getattr(f.get("code"), "name", None) or "None"
        if code == "reveal_type":
            continue
        ln = f.get("lineno") or 0
        for k in names:
            a, b = spans[prefix + k]
            if a <= ln <= b:
                out[k].append(code)
    return {k: sorted(set(v)) for k, v in out.items()}


def _revealed(tree: ast.Module) -> Any:
    fn = next(n for n in tree.body if isinstance(n, ast.FunctionDef) and n.name == "f")
    return getattr(fn.body[0].value.args[0], "inferred_value", None)


def _insp(obj: Any) -> list[list[str]]:
    return [[p.name, p.kind.name, "nodefault" if p.default is inspect.Parameter.empty else "default"]
            for p in inspect.signature(obj).parameters.values()]


def observe_one(c: dict) -> dict:
    from pyanalyze.annotations import type_from_runtime

    global _count
    _count += 1
    name = f"verif_c13decl_{os.getpid()}_{_count}"
    src = defining_source(c)
    made = [name]
    try:
        mod = _exec(name, src)
        o: dict[str, Any] = {}
        dfails, dtree = _visit(src, mod)
        if c["kind"] == "td":
            td = mod.TD
            ro = getattr(td, "__readonly_keys__", None)
            o["keys"] = {"required": "a" in td.__required_keys__, "readonly": "none" if ro is None else ("yes" if "a" in ro else "no")}
            o["entries"] = {}
            try:
                o["entries"]["rt"] = _entry(type_from_runtime(td, globals=mod.__dict__))
            except Exception as exc:
                o["entries"]["rt"] = ["raised", "raised", type(exc).__name__]
            o["entries"]["param"] = _entry(_revealed(dtree))
            o["ops"] = {"defmod": _codes_by_function(dfails, dtree, "op_", OPS)}
            for which, head in (("imp", QUAL_IMPORT), ("impbare", "from typing_extensions import reveal_type\n")):
                isrc = head + f"from {name} import TD, W\n" + OPS_SRC
                iname = f"{name}_{which}"
                made.append(iname)
                imod = _exec(iname, isrc)
                ifails, itree = _visit(isrc, imod)
                o["entries"][which] = _entry(_revealed(itree))
                o["ops"][which] = _codes_by_function(ifails, itree, "op_", OPS)
        else:
            k = mod.K
            o["insp"] = _insp(k)
            try:
                with contextlib.redirect_stderr(io.StringIO()):
                    o["sig"] = describe_signature(pyz.get_checker().get_signature(k))
            except Exception as exc:
                o["sig"] = raised(exc)
            o["calls"] = {"defmod": _codes_by_function(dfails, dtree, "call_", CALLS)}
            isrc = f"from {name} import K\n" + CALLS_SRC
            iname = f"{name}_imp"
            made.append(iname)
            imod = _exec(iname, isrc)
            ifails, itree = _visit(isrc, imod)
            o["calls"]["imp"] = _codes_by_function(ifails, itree, "call_", CALLS)
        return o
    finally:
        for n in made:
            sys.modules.pop(n, None)


def observe_decls(arg: tuple[int, list[dict]]) -> list[dict]:
    base, cases = arg
    out = []
    for i, c in enumerate(cases):
        try:
            o = observe_one(c)
        except core.MachineryError:
            raise
        except Exception as exc:
            raise core.MachineryError(f"declaration case {c} could not be realised: {exc!r}\n{defining_source(c)}") from exc
        out.append({"tid": base + i, "c": c, **o, "src": f"{c['kind']} a: {field_annotation(c)}"})
    return out
