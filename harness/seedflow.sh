#!/bin/bash
# usage: seedflow.sh <worktree> <PROP> <seed-id e.g. C17-2> [nosuite]
# confirms a seeded change (demo with/without, full upstream suite with), saves it under /verif/seeded/<id>/ and
# runs the property's quick check against the worktree.  Logs under /tmp/seedflow/<id>/.
wt=$1; prop=$2; id=$3; nosuite=$4
out=/tmp/seedflow/$id; mkdir -p $out
cd $wt || exit 2
git diff -- pyanalyze > $out/patch.diff
PYTHONPATH=$wt /venv/bin/python SEED/demo.py > $out/demo_with.txt 2>&1; with=$?
git apply -R $out/patch.diff
PYTHONPATH=$wt /venv/bin/python SEED/demo.py > $out/demo_without.txt 2>&1; without=$?
git apply $out/patch.diff
echo "demo: with-change exit=$with (want 1) without-change exit=$without (want 0)" > $out/summary.txt
if [ "$nosuite" != "nosuite" ]; then
  (cd $wt && PYTHONPATH=$wt /venv/bin/python -m pytest -q -p no:cacheprovider --timeout=900 -x pyanalyze > $out/suite.txt 2>&1; echo "suite exit=$? $(tail -1 $out/suite.txt)" >> $out/summary.txt)
fi
mkdir -p /verif/seeded/$id
cp $out/patch.diff /verif/seeded/$id/patch.diff
cp $wt/SEED/demo.py /verif/seeded/$id/demo.py
cp $wt/SEED/notes.md /verif/seeded/$id/notes.md 2>/dev/null
(cd /verif && VERIF_REPO=$wt /venv/bin/python -m harness.run --property $prop --tier quick > $out/check.txt 2>&1; echo "check exit=$? violations=$(grep -c '^VIOLATION' $out/check.txt) $(tail -1 $out/check.txt)" >> $out/summary.txt)
cat $out/summary.txt
