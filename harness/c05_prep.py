"""C05, preprocessing of INFERRED star arguments: realisation of a case [sig, call] of spec/StarPrep.tla as real
source whose tuple / dict values are built so that pyanalyze infers exactly the abstract value the case names
(the inferred value of every star argument is read back from the annotated tree and recorded as `seen`), the
real visitor on that source, and the REAL EXECUTION of the same expressions for every combination of the opaque
inputs (cond() outcomes, unknown keys, unknown mappings, unknown segment lengths, union members).  This file
contains no binding rules; spec/trace/StarPrepTrace.tla judges.
"""
from __future__ import annotations

import ast
import itertools
from typing import Any, Optional

from . import core, pyz
from .c05_kinds import params_source

MAXEXP = 4
LITKEYS = ("a", "b", "z")
_MARKERS = {"*args": "ARGS", "**kwargs": "KWARGS", "default": "DEFAULT", "unknown": "UNKNOWN"}


class _Names:
    """Fresh opaque inputs of one calling function: every unknown key / mapping / list / union value is its own
    parameter (two `k: 0` pairs are two independent strings)."""

    def __init__(self) -> None:
        self.params: list[tuple[str, str, str]] = []  # (name, annotation, input kind)

    def new(self, prefix: str, ann: str, kind: str) -> str:
        name = f"{prefix}{len(self.params)}"
        self.params.append((name, ann, kind))
        return name


def star_source(s: dict, i: int, names: _Names) -> str:
    form, n, m = s["form"], s["n"], s["m"]
    if form == "exact":
        return "(" + "".join(f"{10 * (i + 1) + k}, " for k in range(n)).rstrip() + ")"
    if form == "many":
        xs = names.new("xs", "list[int]", "list")
        return "(" + "".join(f"{10 * (i + 1) + k}, " for k in range(n)) + f"*{xs}, " + "".join(f"{50 + k}, " for k in range(m)).rstrip() + ")"
    if form == "union":
        members = [f"tuple[{', '.join(['int'] * n)}]" if n else "tuple[()]",
                   f"tuple[{', '.join(['str' if n == m else 'int'] * m)}]" if m else "tuple[()]"]
        return names.new("t", '"' + " | ".join(members) + '"', f"tuple:{n}:{m}")
    if form == "list":
        return names.new("xs", "list[int]", "list")
    raise core.MachineryError(f"C05 prep: unknown star form {form!r}")


def dict_source(d: dict, tdname: str, names: _Names) -> tuple[str, list[str]]:
    """(expression, module-level definitions it needs)"""
    form = d["form"]
    if form == "td":
        body = [f"    {p['key']}: " + ("int" if p["req"] else "NotRequired[int]") for p in d["pairs"]]
        req = [p["key"] for p in d["pairs"] if p["req"]]
        opt = [p["key"] for p in d["pairs"] if not p["req"]]
        name = names.new("td", tdname, "td:" + ",".join(req) + ":" + ",".join(opt))
        return name, [f"class {tdname}(TypedDict):", *body]
    if form == "union":
        lit = lambda ps: "{" + ", ".join(f'"{p["key"]}": 0' for p in ps) + "}"  # noqa: E731
        return f"({lit(d['pairs'])} if cond() else {lit(d['alt'])})", []
    if form != "pairs":
        raise core.MachineryError(f"C05 prep: unknown ** form {form!r}")
    parts = []
    written: set[str] = set()
    for p in d["pairs"]:
        key = p["key"]
        if key in LITKEYS:
            if not p["req"]:
                parts.append('**({"%s": 0} if cond() else {})' % key)
            elif key in written:  # a second `"a": 0` entry would be reported as duplicate_dict_key
                parts.append('**{"%s": 0}' % key)
            else:
                parts.append(f'"{key}": 0')
                written.add(key)
        elif key == "str" and p["many"]:
            parts.append("**" + names.new("other", "dict[str, int]", "mapping"))
        elif key == "str":
            parts.append(names.new("k", "str", "key") + ": 0")
        elif key == "ab":
            parts.append(names.new("q", 'Literal["a", "b"]', "ab") + ": 0")
        else:
            raise core.MachineryError(f"C05 prep: unknown pair key {key!r}")
    return "{" + ", ".join(parts) + "}", []


def realise(case: dict, j: Any = "") -> dict:
    """{"defs": module-level lines, "header": parameter list of the calling function, "body": its statements (the
    last one is the call), "inputs": [(name, kind)], "nstars", "ndstars"}"""
    sig, call = case["sig"], case["call"]
    names = _Names()
    defs = [f"def f{j}({params_source(sig)}): pass"]
    body = []
    args = [str(i + 1) for i in range(call["pos"])]
    for i, s in enumerate(call["stars"]):
        body.append(f"s{i} = {star_source(s, i, names)}")
        args.append(f"*s{i}")
    args += [str(80 + i) for i in range(call["post"])]
    args += [f"{k}=0" for k in call["kws"]]
    for i, d in enumerate(call["dstars"]):
        expr, more = dict_source(d, f"TD{j}_{i}", names)
        defs += more
        body.append(f"d{i} = {expr}")
        args.append(f"**d{i}")
    body.append(f"f{j}({', '.join(args)})")
    return {"defs": defs, "header": ", ".join(f"{n}: {a}" for n, a, _ in names.params), "body": body,
            "inputs": [(n, k) for n, _, k in names.params], "nstars": len(call["stars"]), "ndstars": len(call["dstars"])}


PRELUDE = ["from typing import Literal, TypedDict", "from typing_extensions import NotRequired", "def cond() -> bool: return True"]


def module_source(cases: list[dict]) -> tuple[str, list[int]]:
    lines = list(PRELUDE)
    callers: list[str] = []
    rel = []
    for j, case in enumerate(cases):
        r = realise(case, j)
        lines += r["defs"]
        callers.append(f"def caller{j}({r['header']}) -> None:")
        callers += ["    " + b for b in r["body"]]
        rel.append(len(callers))
    src = "\n".join(lines + callers) + "\n"
    return src, [len(lines) + r for r in rel]


# ----------------------------------------------------------------------------- inferred value -> term of StarPrep.tla


def _abstract_star(v: Any) -> dict:
    from pyanalyze.value import GenericValue, KnownValue, MultiValuedValue, SequenceValue

    def exact(x: Any) -> Optional[int]:
        if isinstance(x, KnownValue) and isinstance(x.val, tuple):
            return len(x.val)
        if isinstance(x, SequenceValue) and x.typ is tuple and not any(many for many, _ in x.members):
            return len(x.members)
        return None

    n = exact(v)
    if n is not None:
        return {"form": "exact", "n": n, "m": 0}
    if isinstance(v, SequenceValue) and v.typ is tuple:
        idx = [i for i, (many, _) in enumerate(v.members) if many]
        if len(idx) == 1:
            return {"form": "many", "n": idx[0], "m": len(v.members) - idx[0] - 1}
    if isinstance(v, MultiValuedValue) and len(v.vals) == 2 and all(exact(x) is not None for x in v.vals):
        return {"form": "union", "n": exact(v.vals[0]), "m": exact(v.vals[1])}
    if isinstance(v, GenericValue) and v.typ is list:
        return {"form": "list", "n": 0, "m": 0}
    return {"form": "unrecognised " + str(v), "n": 0, "m": 0}


def _abstract_key(k: Any) -> str:
    from pyanalyze.value import KnownValue, MultiValuedValue, TypedValue

    if isinstance(k, KnownValue) and isinstance(k.val, str):
        return k.val
    if isinstance(k, TypedValue) and k.typ is str:
        return "str"
    if isinstance(k, MultiValuedValue) and sorted(getattr(x, "val", None) for x in k.vals) == ["a", "b"]:
        return "ab"
    return "unrecognised " + str(k)


def _abstract_kw(v: Any) -> dict:
    from pyanalyze.value import DictIncompleteValue, KnownValue, MultiValuedValue, TypedDictValue

    def known(x: Any) -> Optional[list]:
        if isinstance(x, KnownValue) and isinstance(x.val, dict):
            return [{"key": str(k), "req": True, "many": False} for k in x.val]
        return None

    if known(v) is not None:
        return {"form": "pairs", "pairs": known(v), "alt": []}
    if isinstance(v, TypedDictValue):
        return {"form": "td", "pairs": [{"key": k, "req": bool(e.required), "many": False} for k, e in v.items.items()], "alt": []}
    if isinstance(v, DictIncompleteValue):
        return {"form": "pairs", "alt": [],
                "pairs": [{"key": _abstract_key(p.key), "req": bool(p.is_required), "many": bool(p.is_many)} for p in v.kv_pairs]}
    if isinstance(v, MultiValuedValue) and len(v.vals) == 2 and all(known(x) is not None for x in v.vals):
        return {"form": "union", "pairs": known(v.vals[0]), "alt": known(v.vals[1])}
    return {"form": "unrecognised " + str(v), "pairs": [], "alt": []}


def visitor_observe(cases: list[dict]) -> list[dict]:
    """Per case: {"vis": "ok" | "err" | other, "vispos": Bind-hook positions of the last bind on the call line,
    "seen": {"stars": [...], "dstars": [...]} the abstract values pyanalyze inferred for the star arguments}."""
    from pyanalyze import _verif_trace

    from .c05_kinds import _hook_present

    src, lines = module_source(cases)
    sink: list[dict] = []
    _verif_trace.set_sink(sink)
    try:
        try:
            fails, _v, tree = pyz.check_source(src, annotate=True, want_visitor=True)
        except Exception as exc:
            return [{"vis": f"exception {type(exc).__name__}", "vispos": ["none"], "seen": {"stars": [], "dstars": []}} for _ in cases]
    finally:
        _verif_trace.set_sink(None)
    where = {ln: j for j, ln in enumerate(lines)}
    flagged: dict[int, list[str]] = {}
    for code, lineno, _col in pyz.brief(fails):
        if lineno not in where:
            raise core.MachineryError(f"C05 prep: realisation raised unexpected diagnostic {code} at line {lineno} in\n{src}")
        flagged.setdefault(where[lineno], []).append(str(code))
    seen: dict[int, dict] = {}
    for node in ast.walk(tree):
        if isinstance(node, ast.Call) and node.lineno in where and isinstance(node.func, ast.Name) and node.func.id.startswith("f"):
            stars = [_abstract_star(getattr(a.value, "inferred_value", None)) for a in node.args if isinstance(a, ast.Starred)]
            dstars = [_abstract_kw(getattr(k.value, "inferred_value", None)) for k in node.keywords if k.arg is None]
            seen[where[node.lineno]] = {"stars": stars, "dstars": dstars}
    hook = _hook_present()
    hooked: dict[int, list[str]] = {}
    for ev in sink:
        if ev.get("event") != "Bind" or ev.get("lineno") not in where:
            continue
        j = where[ev["lineno"]]
        if ev["positions"] is None:
            hooked[j] = ["rejected"]
        else:
            hooked[j] = [f"P{pos}" if isinstance(pos, int) else _MARKERS.get(pos, "K" if pos == name else "K:" + pos)
                         for name, pos in ev["positions"]]
    out = []
    for j in range(len(cases)):
        codes = flagged.get(j, [])
        v = "ok" if not codes else ("err" if set(codes) == {"incompatible_call"} else "other diagnostic: " + ",".join(sorted(set(codes))))
        out.append({"vis": v, "vispos": hooked.get(j, ["none"]) if hook else ["nohook"],
                    "seen": seen.get(j, {"stars": [], "dstars": []})})
    return out


# ----------------------------------------------------------------------------- real execution


def _input_values(kind: str, universe: list[str]) -> list[Any]:
    if kind == "list":
        return [list(range(n)) for n in range(MAXEXP + 1)]
    if kind.startswith("tuple:"):
        _, n, m = kind.split(":")
        n, m = int(n), int(m)
        return [tuple([0] * n), tuple(["s" if n == m else 0] * m)]
    if kind == "key":
        return list(universe)
    if kind == "ab":
        return ["a", "b"]
    if kind == "mapping":
        return [dict.fromkeys(ks, 0) for r in range(min(MAXEXP, len(universe)) + 1) for ks in itertools.combinations(universe, r)]
    if kind.startswith("td:"):
        _, req, opt = kind.split(":")
        req, opt = [x for x in req.split(",") if x], [x for x in opt.split(",") if x]
        return [dict.fromkeys(req + list(ks), 0) for r in range(len(opt) + 1) for ks in itertools.combinations(opt, r)]
    raise core.MachineryError(f"C05 prep: unknown input kind {kind!r}")


def real_cpython(case: dict) -> dict:
    """Execute the SAME statements for every combination of the opaque inputs; identify each run by what the star
    arguments really were ([length of every * argument], [sorted keys of every ** argument]) and report the
    number of distinct such expansions and those CPython bound without TypeError."""
    r = realise(case)
    env: dict[str, Any] = {}
    ncond = sum(line.count("cond()") for line in r["body"])
    bits: list[bool] = []
    env["cond"] = lambda: bits.pop(0)
    names = [n for n, _ in r["inputs"]]
    rec = ("_rec = ([" + ", ".join(f"len(s{i})" for i in range(r["nstars"])) + "], ["
           + ", ".join(f"sorted(d{i})" for i in range(r["ndstars"])) + "])")
    src = "\n".join(
        ["from typing import Literal, TypedDict", "from typing_extensions import NotRequired", *r["defs"],
         f"def real({', '.join(names)}):", *["    " + b for b in r["body"][:-1]], "    " + rec,
         "    try:", "        " + r["body"][-1], "    except TypeError:", "        return _rec, False", "    return _rec, True"]
    ) + "\n"
    try:
        exec(compile(src, "<c05-prep>", "exec"), env)
    except Exception as exc:
        raise core.MachineryError(f"C05 prep: the generated source does not execute: {exc!r}\n{src}")
    universe = sorted(set(LITKEYS) | {p["name"] for p in case["sig"]})
    domains = [_input_values(k, universe) for _, k in r["inputs"]]
    outcome: dict[str, tuple[Any, set]] = {}
    for values in itertools.product(*domains):
        for cb in itertools.product([True, False], repeat=ncond):
            bits[:] = list(cb)
            ident, ok = env["real"](*values)
            key = core.canon(ident)
            outcome.setdefault(key, (ident, set()))[1].add(ok)
    for ident, oks in outcome.values():
        if len(oks) != 1:
            raise core.MachineryError(f"C05 prep: the same expansion {ident} both bound and failed: {r['body']}")
    return {"total": len(outcome), "binding": [[ident[0], ident[1]] for ident, oks in outcome.values() if oks == {True}]}
