"""C12: declaration-level class bodies (Totality.tla generator D*).  The class statement sits at MODULE level, so the class
is a real runtime object when the module is checked (pyanalyze then runs its declaration-level checks: duplicate enum
members, dataclass / NamedTuple / TypedDict / Protocol synthesis); everything that could raise at import is either legal
(an Enum member may be unhashable) or makes the module fall outside the domain (CPython refuses the import; the driver then
records a skipped check).  A case is [kind, v]: a declaration kind and the value v written where the kind has {V}.
Values include the "nominally fine but actually raising" ones: tuples holding a list / dict / set (type defines __hash__,
hash() raises), a frozen dataclass instance with a list field, objects whose __hash__ / __eq__ raise."""
from __future__ import annotations

from . import core

PRELUDE = '''import collections
import enum
import functools
from collections.abc import Hashable
from dataclasses import InitVar, dataclass, field
from typing import Any, ClassVar, Literal, NamedTuple, Optional, Protocol, runtime_checkable
from typing_extensions import NotRequired, ReadOnly, Required, TypedDict

class HashTypeError:
    def __hash__(self):
        raise TypeError("unhashable HashTypeError")
    def __repr__(self):
        return "HashTypeError()"

class HashRuntimeError:
    def __hash__(self):
        raise RuntimeError("__hash__ raises")
    def __repr__(self):
        return "HashRuntimeError()"

class EqRaises:
    def __eq__(self, other):
        raise RuntimeError("__eq__ raises")
    def __hash__(self):
        return 7
    def __repr__(self):
        return "EqRaises()"

@dataclass(frozen=True)
class FrozenDC:
    items: list

HTE = HashTypeError()
HRE = HashRuntimeError()
EQR = EqRaises()
FDC = FrozenDC([1])
'''

VALUES = {
    "int": "1", "bool": "True", "float": "1.0", "str": "'a'", "bytes": "b'a'", "none": "None", "nan": "float('nan')",
    "tuple": "(1, 'a')", "tup_list": "('a', [1])", "tup_dict": "('a', {'k': 1})", "tup_set": "('a', {1})", "tup_nested": "((1, [2]),)",
    "tup_hashraises": "(1, HRE)", "list": "[1]", "dict": "{'k': 1}", "set": "{1}", "frozenset": "frozenset({1})", "lambda": "(lambda: 1)",
    "cls": "int", "hash_typeerror": "HTE", "hash_runtimeerror": "HRE", "eqraises": "EQR", "frozen_dc": "FDC", "auto": "enum.auto()",
    "call": "len('ab')", "tup_empty": "()",
}

USE = ["def use(x):", "    return {X}, {X: 1}, X in {1, 2}, X in (X, 1), {1: 2}.get(X), [X].index(X), X == X, hash(X), isinstance(X, Hashable)"]

KINDS: dict[str, list[str]] = {
    # ---------------------------------------------------------------- enum class bodies
    "enum": ["class E(enum.Enum):", "    A = {V}", "    B = 2", "def use():", "    return E.A.value, E(2), E.A.nope, E({V}), E.A in {E.A: 1}, {E.A.value}"],
    "enum_dup": ["class E(enum.Enum):", "    A = {V}", "    B = {V}", "    C = 3", "def use():", "    return E.B.name, E.B is E.A"],
    "enum_dup_mixed": ["class E(enum.Enum):", "    A = 1", "    B = {V}", "    C = True", "    D = 1.0", "    F = {V}", "def use():", "    return [e.value for e in E]"],
    "enum_two_targets": ["class E(enum.Enum):", "    A = B = {V}", "    C, D = {V}, 4", "def use():", "    return E.A, E.D"],
    "intenum": ["class E(enum.IntEnum):", "    A = {V}", "    B = 2", "def use():", "    return E.A + 1, E.A < E.B"],
    "intflag": ["class E(enum.IntFlag):", "    A = {V}", "    B = enum.auto()", "def use():", "    return E.A | E.B, ~E.A"],
    "flag": ["class E(enum.Flag):", "    A = {V}", "    B = enum.auto()", "    AB = A | B", "def use():", "    return E.A | E.B, E.AB.value"],
    "strenum": ["class E(str, enum.Enum):", "    A = {V}", "    B = 'b'", "def use():", "    return E.A.upper(), E.B == 'b'"],
    "enum_tuple_init": ["class E(enum.Enum):", "    A = ({V}, 1)", "    B = ({V}, 2)", "    def __init__(self, x, y):", "        self.x = x", "        self.y = y", "def use():", "    return E.A.x, E.B.y.nope"],
    "enum_methods": ["class E(enum.Enum):", "    _ignore_ = ['tmp']", "    tmp = {V}", "    A = {V}", "    B = 2", "    @property", "    def p(self):", "        return self.value", "    @classmethod",
                     "    def c(cls):", "        return cls.A", "    def m(self):", "        local = {V}", "        return local, self.p", "    class Inner:", "        x = {V}", "    other = A",
                     "def use():", "    return E.A.p, E.c().m(), E.Inner.x, E.other"],
    "enum_new": ["class E(enum.Enum):", "    def __new__(cls, v):", "        obj = object.__new__(cls)", "        obj._value_ = 1 if cls.__members__ == {} else len(cls.__members__) + 1", "        obj.payload = v", "        return obj",
                 "    A = {V}", "    B = {V}", "def use():", "    return E.A.payload, E.B.value"],
    "enum_auto": ["class E(enum.Enum):", "    A = enum.auto()", "    B = {V}", "    C = enum.auto()", "def use():", "    return E.C.value"],
    "enum_annotated": ["class E(enum.Enum):", "    A: int = {V}", "    B: 'str' = {V}", "    C: int", "def use():", "    return E.A, E.B"],
    "enum_unique": ["@enum.unique", "class E(enum.Enum):", "    A = {V}", "    B = 3", "def use():", "    return E.A"],
    "enum_functional": ["E1 = enum.Enum('E1', {'A': {V}, 'B': 2})", "E2 = enum.Enum('E2', [('A', {V}), ('B', {V})])", "E3 = enum.Enum('E3', 'A B')", "def use():", "    return E1.A.value, E2.B, E3({V}), E1({V})"],
    "enum_nested": ["class Outer:", "    class E(enum.Enum):", "        A = {V}", "        B = {V}", "    member = E.A", "def use():", "    return Outer.E.A.value, Outer.member"],
    "enum_by_call": ["class E(enum.Enum):", "    A = tuple([{V}])", "    B = dict(k={V})", "    C = [{V}] * 2", "    D = ({V},) + ({V},)", "    F = str({V})", "def use():", "    return E.A.value[0], E.D"],
    "enum_subclass": ["class Base(enum.Enum):", "    def describe(self):", "        return self.name", "class E(Base):", "    A = {V}", "    B = {V}", "def use():", "    return E.A.describe()"],
    "enum_in_function": ["def make():", "    class E(enum.Enum):", "        A = {V}", "        B = {V}", "    return E", "def use():", "    return make().A"],
    # ---------------------------------------------------------------- dataclasses
    "dc_default": ["@dataclass", "class D:", "    a: int = 0", "    b: object = {V}", "X = D()", *USE],
    "dc_field_default": ["@dataclass", "class D:", "    a: object = field(default={V})", "    b: list = field(default_factory=list)", "X = D()", *USE],
    "dc_factory": ["@dataclass", "class D:", "    a: object = field(default_factory=lambda: {V})", "    b: object = field(default_factory={V})", "X = D", "def use():", "    return D().a, D(a=1, b=2).b"],
    "dc_classvar": ["@dataclass", "class D:", "    a: ClassVar[object] = {V}", "    b: InitVar[object] = {V}", "    c: int = 0", "    def __post_init__(self, b):", "        self.c = b", "X = D()", *USE],
    "dc_frozen": ["@dataclass(frozen=True)", "class D:", "    a: object", "    b: int = 0", "X = D({V})", *USE],
    "dc_options": ["@dataclass(slots=True, kw_only=True, order=True, eq=True, unsafe_hash=True)", "class D:", "    a: object = None", "X = D(a={V})", *USE],
    "dc_inherit": ["@dataclass", "class Base:", "    a: object = None", "@dataclass(frozen=False)", "class D(Base):", "    b: object = None", "    a: object = None", "X = D({V}, {V})", *USE],
    # ---------------------------------------------------------------- NamedTuple / TypedDict
    "namedtuple_class": ["class N(NamedTuple):", "    a: object", "    b: object = {V}", "    def m(self):", "        return self.a", "X = N({V})", *USE],
    "namedtuple_functional": ["N = NamedTuple('N', [('a', object), ('b', int)])", "M = collections.namedtuple('M', 'a b', defaults=[{V}])", "R = collections.namedtuple('R', ['class', 'a', 'a', '1x'], rename=True)",
                              "X = N({V}, 1)", "Y = M(1)", "Z = R(1, 2, 3, {V})", *USE, "def use2():", "    return {Y}, {Z: 1}, Y.b, Z._2, R._fields.nope"],
    "typeddict_class": ["class T(TypedDict, total=False):", "    a: Required[int]", "    b: NotRequired[object]", "    c: ReadOnly[str]", "class U(T):", "    n: T", "X: T = {'a': 1, 'b': {V}}", "Y: U = {'a': 1, 'n': X}",
                        "def use():", "    return X['b'], Y['n']['a'], X.get({V}), {V} in X, X[{V}]"],
    "typeddict_functional": ["T = TypedDict('T', {'class': int, 'a-b': object, '': str})", "X: T = {'class': 1, 'a-b': {V}, '': 's'}", "def use():", "    return X['a-b'], X['class'].nope, T(**{'class': 1}), X == {V}"],
    # ---------------------------------------------------------------- Protocols and plain classes
    "protocol": ["@runtime_checkable", "class P(Protocol):", "    x: object = {V}", "    y = {V}", "    @property", "    def p(self) -> int: ...", "    def m(self) -> int: ...",
                 "class Impl:", "    x = {V}", "    y = {V}", "    p = 1", "    def m(self):", "        return 1", "X = Impl()", "def use(q: P):", "    return isinstance(X, P), q.x, q.y, use(X), use({V})"],
    "plain_class": ["class C:", "    a = {V}", "    t = (a, a)", "    s = [a]", "    __match_args__ = ('a',)", "    def m(self):", "        return {self.a}, {self.a: 1}, self.a in {1}", "X = C()", "def use():", "    return {C.a}, C.t, {C.t}, {C.t: 1}, C().m()"],
    "module_const": ["X = {V}", "Y = (X, X)", "Z = {'k': X}", *USE, "def use2(d: dict):", "    return d[X], {1: 2}[X], {X: 1}[X], Z['k'], {Y}, X in d, d.get(X), (1, 2)[X]", "def use3(v):", "    match v:", "        case _ if v == X:",
                     "            return 1", "    return Literal[1]"],
}


def render(case: dict) -> str:
    kind, v = case["kind"], case["v"]
    if kind not in KINDS or v not in VALUES:
        raise core.MachineryError(f"no rendering for declaration case {case}")
    lines = [ln.replace("{V}", VALUES[v]) for ln in KINDS[kind]]
    return PRELUDE + "\n" + "\n".join(lines) + "\n"
