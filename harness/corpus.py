"""The repository's own test snippets as a corpus of real programs (C->S direction).

pyanalyze's tests are mostly functions decorated with `@assert_passes(**kw)` / `@assert_fails(code, **kw)` whose
BODY is the checked program.  `harvest()` imports the test modules from the tree under verification
(core.REPO), finds those wrappers (functools.wraps keeps `__wrapped__`; the decorator's arguments sit in the
closure) and returns the programs with their settings.  Nothing is taken from the tests' expectations: the
corpus only supplies inputs; what the real code does with them is recorded by the drivers and judged by TLC.

`run(item, ...)` checks one program the way the tests do (same module prelude, same default settings, same
visitor class) so that the observed diagnostics are the ones the suite sees.
"""
from __future__ import annotations

import ast
import contextlib
import importlib
import io
import pkgutil
import sys
from typing import Any, Optional

from . import core

_cache: Optional[list[dict]] = None

# programs whose own module-level values differ from run to run (clock, randomness, process ids): what pyanalyze renders
# for them legitimately differs between processes, so they are no input for run-to-run comparisons (C10)
_IMPURE = __import__("re").compile(
    r"\b(now|utcnow|today|time\.time|time\(\)|monotonic|perf_counter|random|uuid|getpid|urandom|token_hex|id\()"
)

# test modules whose snippets need optional third-party packages or are not NameCheckVisitor programs
SKIP_MODULES = {"test_self", "test_config", "test_ast_annotator", "test_node_visitor"}


def _closure(fn) -> dict[str, Any]:
    if fn.__closure__ is None:
        return {}
    out = {}
    for name, cell in zip(fn.__code__.co_freevars, fn.__closure__):
        try:
            out[name] = cell.cell_contents
        except ValueError:
            pass
    return out


def _settings_names(settings) -> dict[str, bool]:
    return {getattr(k, "name", str(k)): bool(v) for k, v in (settings or {}).items()}


def harvest(refresh: bool = False) -> list[dict]:
    """[{id, module, code, kind ('passes'|'fails'), settings {code name: bool}, kwargs (other keyword names)}]"""
    global _cache
    if _cache is not None and not refresh:
        return _cache
    if str(core.REPO) not in sys.path:
        sys.path.insert(0, str(core.REPO))
    import pyanalyze
    from pyanalyze.test_node_visitor import _extract_code_from_fn

    items: list[dict] = []
    seen: set[str] = set()
    for info in sorted(pkgutil.iter_modules(pyanalyze.__path__), key=lambda i: i.name):
        if not info.name.startswith("test_") or info.name in SKIP_MODULES:
            continue
        try:
            with contextlib.redirect_stderr(io.StringIO()), contextlib.redirect_stdout(io.StringIO()):
                mod = importlib.import_module(f"pyanalyze.{info.name}")
        except Exception:  # optional dependency missing: those snippets are simply not part of the corpus
            continue
        for cname, cls in sorted(vars(mod).items()):
            if not isinstance(cls, type) or cls.__module__ != mod.__name__:
                continue
            from pyanalyze.test_name_check_visitor import TestNameCheckVisitorBase

            if not issubclass(cls, TestNameCheckVisitorBase):
                continue
            for fname, fn in sorted(vars(cls).items()):
                inner = getattr(fn, "__wrapped__", None)
                if inner is None or not callable(fn):
                    continue
                clo = _closure(fn)
                if "fn" not in clo or "kwargs" not in clo:
                    continue
                kind = "fails" if "expected_error_code" in clo else "passes"
                try:
                    code = _extract_code_from_fn(clo["fn"])
                    ast.parse(code)
                except Exception:
                    continue
                kwargs = dict(clo["kwargs"])
                settings = _settings_names(kwargs.pop("settings", None))
                ident = f"{info.name}::{cname}::{fname}"
                if ident in seen:
                    continue
                seen.add(ident)
                items.append(
                    {
                        "id": ident,
                        "module": info.name,
                        "code": code,
                        "kind": kind,
                        "settings": settings,
                        "kwargs": sorted(kwargs),
                        "_kwargs": kwargs,
                        "impure": bool(_IMPURE.search(code)),
                    }
                )
    _cache = items
    return items


def test_default_settings(extra: Optional[dict[str, bool]] = None) -> dict[str, bool]:
    from pyanalyze.error_code import DISABLED_IN_TESTS, ErrorCode

    st = {c.name: c not in DISABLED_IN_TESTS for c in ErrorCode}
    st.update(extra or {})
    return st


def run(
    code: str,
    settings: Optional[dict[str, bool]] = None,
    *,
    checker: Any = None,
    fresh_checker: bool = False,
    apply_changes: bool = False,
    add_ignores: bool = False,
    final_checks: bool = False,
    **kw: Any,
):
    """Check `code` the way TestNameCheckVisitorBase._run_tree does.  Returns (failures, new_code | None, visitor).
    Exceptions propagate (they are observations)."""
    from pyanalyze.error_code import ErrorCode
    from pyanalyze.name_check_visitor import ClassAttributeChecker
    from pyanalyze.test_name_check_visitor import ConfiguredNameCheckVisitor, _make_module

    st = {getattr(ErrorCode, k): v for k, v in test_default_settings(settings).items()}
    tree = ast.parse(code)
    mod = _make_module(code)
    kwargs: dict[str, Any] = dict(kw)
    kwargs["settings"] = st
    if checker is not None:
        kwargs["checker"] = checker
    kwargs = ConfiguredNameCheckVisitor.prepare_constructor_kwargs(kwargs)
    new_code = None
    err = io.StringIO()
    with contextlib.redirect_stderr(err), contextlib.redirect_stdout(io.StringIO()):
        with ClassAttributeChecker(enabled=True, options=kwargs["checker"].options) as attribute_checker:
            visitor = ConfiguredNameCheckVisitor(
                mod.__name__,
                code,
                tree,
                module=mod,
                attribute_checker=attribute_checker,
                add_ignores=add_ignores,
                **kwargs,
            )
            result = visitor.check_for_test(apply_changes=apply_changes)
            if apply_changes:
                result, new_code = result
            if final_checks:
                result += visitor.perform_final_checks(kwargs)
    return result, new_code, visitor


def render(fails) -> list[dict]:
    """The observable part of each diagnostic."""
    out = []
    for f in fails:
        out.append(
            {
                "code": getattr(f.get("code"), "name", None),
                "lineno": f.get("lineno"),
                "col": f.get("col_offset"),
                "message": f.get("message", ""),
                "description": f.get("description", ""),
            }
        )
    return out
